// Shared abstract OSM data set for the pipeline harnesses (C05, C07, C08): abstract objects, their
// canonical text, hand-written OPL/XML encoders (independent of libosmium's writers) and helpers to
// build the same objects with the builders.
#ifndef VERIF_REF_OSMDATA_HPP
#define VERIF_REF_OSMDATA_HPP

#include <osmium/builder/osm_object_builder.hpp>
#include <osmium/io/pbf_output.hpp>
#include <osmium/io/writer.hpp>
#include <osmium/osm.hpp>

#include <cstdio>
#include <sstream>
#include <string>
#include <tuple>
#include <vector>

namespace osmdata {

struct Obj {
    char type; int64_t id; uint32_t version, changeset, uid, ts; std::string user;
    std::vector<std::pair<std::string, std::string>> tags;
    int32_t x = 0, y = 0;                                         // nodes (fixed point 1e-7)
    std::vector<int64_t> refs;                                    // ways
    std::vector<std::tuple<char, int64_t, std::string>> members;  // relations
};

std::string fix(int32_t v) {
    std::string s;
    osmium::detail::append_location_coordinate_to_string(std::back_inserter(s), v);
    return s;
}

// canonical text of an abstract object / of a delivered object (same format; metadata optional)
std::string canon(const Obj& o, bool meta) {
    std::ostringstream s;
    s << o.type << o.id;
    if (meta) s << " v" << o.version << " c" << o.changeset << " t" << o.ts << " i" << o.uid << " u" << o.user;
    s << " T";
    for (auto& t : o.tags) s << t.first << "=" << t.second << ",";
    if (o.type == 'n') s << " x" << o.x << " y" << o.y;
    if (o.type == 'w') { s << " N"; for (auto r : o.refs) s << r << ","; }
    if (o.type == 'r') { s << " M"; for (auto& m : o.members) s << std::get<0>(m) << std::get<1>(m) << "@" << std::get<2>(m) << ","; }
    return s.str();
}

std::string canon(const osmium::OSMObject& o, bool meta) {
    std::ostringstream s;
    s << osmium::item_type_to_char(o.type()) << o.id();
    if (meta) s << " v" << o.version() << " c" << o.changeset() << " t" << static_cast<uint32_t>(o.timestamp()) << " i" << o.uid() << " u" << o.user();
    s << " T";
    for (const auto& t : o.tags()) s << t.key() << "=" << t.value() << ",";
    if (o.type() == osmium::item_type::node) { const auto& n = static_cast<const osmium::Node&>(o); s << " x" << n.location().x() << " y" << n.location().y(); }
    if (o.type() == osmium::item_type::way) { s << " N"; for (const auto& nr : static_cast<const osmium::Way&>(o).nodes()) s << nr.ref() << ","; }
    if (o.type() == osmium::item_type::relation) { s << " M"; for (const auto& m : static_cast<const osmium::Relation&>(o).members()) s << osmium::item_type_to_char(m.type()) << m.ref() << "@" << m.role() << ","; }
    return s.str();
}

// the abstract data set: 4 nodes, 4 ways, 3 relations, sorted by type and id
std::vector<Obj> dataset() {
    std::vector<Obj> d;
    for (int i = 1; i <= 4; ++i) {
        // user names of different lengths: up to 5 bytes fit the space every object has, longer ones make set_user() reserve more
        // (a buffer can grow exactly there)
        static const char* const users[4] = {"user1", "a-much-longer-user-name-2", "u", "user-name-of-medium-len"};
        Obj o{'n', i * 10, static_cast<uint32_t>(i), 100u + i, 7u + i, 1420070400u + i, users[i - 1], {}};
        if (i != 2) o.tags.push_back({"k" + std::to_string(i), "value number " + std::to_string(i)});
        if (i == 3) o.tags.push_back({"name", "x y"});
        o.x = 10000000 * i + 1; o.y = -5000000 * i - 3;
        d.push_back(o);
    }
    for (int i = 1; i <= 4; ++i) {
        Obj o{'w', i * 7, 1u, 200u + i, 9u, 1420080000u + i, i % 2 ? "w" : "way-user-name", {}};
        o.tags.push_back({"highway", i % 2 ? "primary" : "secondary"});
        for (int k = 0; k < i + 1; ++k) o.refs.push_back(10 * (1 + k % 4));
        d.push_back(o);
    }
    for (int i = 1; i <= 3; ++i) {
        Obj o{'r', i * 3, 2u, 300u + i, 11u, 1420090000u + i, "rel", {}};
        o.tags.push_back({"type", "multipolygon"});
        o.members.emplace_back('w', 7 * i, "outer");
        o.members.emplace_back('n', 10 * i, "");
        if (i == 2) o.members.emplace_back('r', 3, "sub");
        d.push_back(o);
    }
    return d;
}


// the same data set with three objects that are larger than the (hooked) parser buffers, each the FIRST object of its PBF block
// (write_pbf puts two objects into a block): nested buffers start with an object that does not fit the initial buffer
std::vector<Obj> dataset_big() {
    std::vector<Obj> d = dataset();
    d[0].tags.push_back({"note", std::string(600, 'x')});                       // n10: first object of the file
    for (int k = 0; k < 90; ++k) d[6].refs.push_back(10 * (1 + k % 4));          // w21: first object of the 4th block
    for (int k = 0; k < 40; ++k) d[10].members.emplace_back('n', 10 * (1 + k % 4), "m" + std::to_string(k));   // r9: last block
    return d;
}

std::string iso(uint32_t t) { return osmium::Timestamp{t}.to_iso(); }

std::string to_opl(const std::vector<Obj>& d) {
    std::ostringstream s;
    for (auto& o : d) {
        s << o.type << o.id << " v" << o.version << " dV c" << o.changeset << " t" << iso(o.ts) << " i" << o.uid << " u" << o.user << " T";
        for (size_t i = 0; i < o.tags.size(); ++i) {
            std::string e;
            for (char ch : o.tags[i].second) { if (ch == ' ') e += "%20%"; else e += ch; }
            s << (i ? "," : "") << o.tags[i].first << "=" << e;
        }
        if (o.type == 'n') s << " x" << fix(o.x) << " y" << fix(o.y);
        if (o.type == 'w') { s << " N"; for (size_t i = 0; i < o.refs.size(); ++i) s << (i ? "," : "") << "n" << o.refs[i]; }
        if (o.type == 'r') { s << " M"; for (size_t i = 0; i < o.members.size(); ++i) s << (i ? "," : "") << std::get<0>(o.members[i]) << std::get<1>(o.members[i]) << "@" << std::get<2>(o.members[i]); }
        s << "\n";
    }
    return s.str();
}

std::string to_xml(const std::vector<Obj>& d) {
    std::ostringstream s;
    s << "<?xml version='1.0' encoding='UTF-8'?>\n<osm version=\"0.6\" generator=\"verif\">\n";
    for (auto& o : d) {
        const char* el = o.type == 'n' ? "node" : o.type == 'w' ? "way" : "relation";
        s << " <" << el << " id=\"" << o.id << "\" version=\"" << o.version << "\" timestamp=\"" << iso(o.ts) << "\" uid=\"" << o.uid << "\" user=\"" << o.user << "\" changeset=\"" << o.changeset << "\"";
        if (o.type == 'n') s << " lat=\"" << fix(o.y) << "\" lon=\"" << fix(o.x) << "\"";
        s << ">\n";
        for (auto r : o.refs) s << "  <nd ref=\"" << r << "\"/>\n";
        for (auto& m : o.members) s << "  <member type=\"" << (std::get<0>(m) == 'n' ? "node" : std::get<0>(m) == 'w' ? "way" : "relation") << "\" ref=\"" << std::get<1>(m) << "\" role=\"" << std::get<2>(m) << "\"/>\n";
        for (auto& t : o.tags) s << "  <tag k=\"" << t.first << "\" v=\"" << t.second << "\"/>\n";
        s << " </" << el << ">\n";
    }
    s << "</osm>\n";
    return s.str();
}


// o5m encoder written from the format description (independent of libosmium): varints, zig-zag deltas, string pairs inline on first
// use and by back-reference afterwards (table of the most recent pairs), reset (0xff) before every change of object type, end marker.
struct O5mWriter {
    std::string out;
    std::vector<std::string> table;      // stored string (pair) contents incl. terminators, oldest first
    int64_t d_id = 0, d_ts = 0, d_cs = 0, d_lon = 0, d_lat = 0, d_wref = 0, d_mref[3] = {0, 0, 0};
    static std::string uv(uint64_t v) { std::string r; while (v >= 0x80) { r += static_cast<char>((v & 0x7f) | 0x80); v >>= 7; } r += static_cast<char>(v); return r; }
    static std::string sv(int64_t v) { return uv(v >= 0 ? static_cast<uint64_t>(v) << 1 : ((static_cast<uint64_t>(-(v + 1)) << 1) | 1)); }
    void clear() { table.clear(); d_id = d_ts = d_cs = d_lon = d_lat = d_wref = 0; d_mref[0] = d_mref[1] = d_mref[2] = 0; }
    std::string str(const std::string& content, size_t chars) {
        for (size_t k = table.size(); k > 0 && table.size() - k < 15000; --k)
            if (table[k - 1] == content) return uv(table.size() - k + 1);
        if (chars <= 250) table.push_back(content);
        return std::string(1, '\0') + content;
    }
    std::string pair(const std::string& a, const std::string& b) { return str(a + '\0' + b + '\0', a.size() + b.size()); }
    void object(const Obj& o) {
        std::string p = sv(o.id - d_id); d_id = o.id;
        p += uv(o.version) + sv(int64_t(o.ts) - d_ts); d_ts = o.ts;
        p += sv(int64_t(o.changeset) - d_cs); d_cs = o.changeset;
        p += pair(uv(o.uid), o.user);
        if (o.type == 'n') { p += sv(o.x - d_lon) + sv(o.y - d_lat); d_lon = o.x; d_lat = o.y; }
        if (o.type == 'w') { std::string r; for (auto ref : o.refs) { r += sv(ref - d_wref); d_wref = ref; } p += uv(r.size()) + r; }
        if (o.type == 'r') {
            std::string r;
            for (auto& m : o.members) {
                const int t = std::get<0>(m) == 'n' ? 0 : std::get<0>(m) == 'w' ? 1 : 2;
                r += sv(std::get<1>(m) - d_mref[t]); d_mref[t] = std::get<1>(m);
                const std::string one = std::string(1, static_cast<char>('0' + t)) + std::get<2>(m);
                r += str(one + '\0', one.size());
            }
            p += uv(r.size()) + r;
        }
        for (auto& t : o.tags) p += pair(t.first, t.second);
        out += static_cast<char>(o.type == 'n' ? 0x10 : o.type == 'w' ? 0x11 : 0x12);
        out += uv(p.size()) + p;
    }
};

std::string to_o5m(const std::vector<Obj>& d) {
    O5mWriter w;
    w.out = std::string("\xff\xe0\x04o5m2", 7);
    char last = 0;
    for (auto& o : d) {
        if (o.type != last) { w.out += '\xff'; w.clear(); last = o.type; }
        w.object(o);
    }
    w.out += '\xfe';
    return w.out;
}

void build_object(osmium::memory::Buffer& buf, const Obj& o) {
    using namespace osmium::builder;
    auto common = [&](auto& b) {
        b.set_id(o.id).set_version(o.version).set_changeset(o.changeset).set_uid(o.uid).set_timestamp(o.ts).set_visible(true);
        b.set_user(o.user);
    };
    auto tags = [&](Builder& parent) { if (!o.tags.empty()) { TagListBuilder tb{parent}; for (auto& t : o.tags) tb.add_tag(t.first, t.second); } };
    if (o.type == 'n') { NodeBuilder b{buf}; common(b); b.set_location(osmium::Location{o.x, o.y}); tags(b); }
    if (o.type == 'w') { WayBuilder b{buf}; common(b); tags(b); { WayNodeListBuilder wb{b}; for (auto r : o.refs) wb.add_node_ref(r); } }
    if (o.type == 'r') { RelationBuilder b{buf}; common(b); tags(b); { RelationMemberListBuilder mb{b}; for (auto& m : o.members) mb.add_member(osmium::char_to_item_type(std::get<0>(m)), std::get<1>(m), std::get<2>(m).c_str()); } }
    buf.commit();
}

// PBF through the library's own Writer (run before any exploration, on real threads): one block per call
void write_pbf(const std::string& path, const std::vector<Obj>& d, bool dense, const char* compression = "none", bool sorted_flag = false) {
    osmium::io::File f{path, "pbf"};
    f.set("pbf_dense_nodes", dense);
    f.set("pbf_compression", compression);
    osmium::io::Header hdr;
    if (sorted_flag) hdr.set("sorting", "Type_then_ID");      // optional feature Sort.Type_then_ID in the header block (the data sets are sorted)
    osmium::io::Writer w{f, hdr, osmium::io::overwrite::allow};
    for (size_t i = 0; i < d.size(); i += 2) {
        osmium::memory::Buffer buf{4096, osmium::memory::Buffer::auto_grow::yes};
        for (size_t k = i; k < std::min(d.size(), i + 2); ++k) build_object(buf, d[k]);
        w(std::move(buf));
        w.flush();
    }
    w.close();
}

void write_file(const std::string& path, const std::string& data) {
    FILE* f = fopen(path.c_str(), "wb");
    fwrite(data.data(), 1, data.size(), f);
    fclose(f);
}


}  // namespace osmdata

#endif
