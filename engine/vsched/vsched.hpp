// vsched - controlled scheduler + preemption-bounded stateless explorer for real pthread code.
//
// The harness executable links vsched.cpp, which *defines* pthread_mutex_lock/unlock,
// pthread_cond_wait/clockwait/timedwait/signal/broadcast, pthread_create/join, syscall (futex) and
// clock_gettime. While an exploration is active and the caller is a managed thread these are
// emulated by a cooperative scheduler (one managed thread runs at a time, baton hand-off over raw
// futexes); otherwise they are forwarded to libc (dlsym RTLD_NEXT).
//
// Harness side API: see struct Main below. Bodies are closed drivers that create all their objects
// locally, spawn threads with std::thread / osmium's own thread classes, join them, and finally
// call vsched::observe() / vsched::fail() with what they saw.
#ifndef VERIF_VSCHED_HPP
#define VERIF_VSCHED_HPP

#include <atomic>
#include <cstdint>
#include <functional>
#include <string>
#include <vector>

extern "C" void osmium_verif_sched_point(const char* tag);

#ifndef VSCHED_ATOMIC_POINTS_HPP
// (with engine/vsched/atomic_points.hpp force-included std::atomic is a wrapper with scheduling points; raw_atomic is the plain one)
namespace vsched { template <class T> using raw_atomic = std::atomic<T>; }
#endif

namespace vsched {

// --- callable from inside a body (managed threads) -------------------------------------------
void fail(const std::string& class_key, const std::string& detail);   // oracle violation of this execution
void observe(const std::string& outcome);                              // canonical outcome (distinct ones are counted)
void state_hash(uint64_t h);                                           // optional: fold harness-visible state into the state hash
bool active();                                                          // true inside a managed execution
void quiesce();                                                         // "a slow caller": returns when no other thread can run any more (all blocked,
                                                                        // waiting with a timeout, or finished) - lets a pipeline fill up before the next call
int  thread_id();                                                       // ordinal of the calling managed thread (0 = body thread)
uint64_t timeouts_taken();                                              // timeout transitions so far in this execution
inline void point(const char* tag) { osmium_verif_sched_point(tag); }

struct Options {
    int min_bound = 0;              // first deviation bound to run (lets a harness iterate bounds across configurations)
    int max_bound = 1;              // largest deviation bound to attempt (iterated min_bound, min_bound+1, ..)
    bool unlock_points = false;     // mutex unlock is a preemption point too
    bool cond_entry_points = true;  // entering a condition wait is a point (mutex still held, not yet a waiter): lost-wake-up window
    bool delay_bounded = false;     // false: switches at blocking points are free (preemption bounding, CHESS);
                                    // true: only 'lowest-id enabled thread next' is free, any other pick costs 1 (delay bounding)
    int workers = 16;
    double exec_timeout_s = 20.0;   // watchdog: a worker making no scheduling step for this long is a hang
    uint64_t max_schedules = 0;     // 0 = unlimited (a cap is reported as an incomplete bound)
    bool cache_states = false;      // prune by (state hash, budget left) - only sound with an exact state_hash()
};

struct Stats {
    uint64_t schedules = 0, transitions = 0, states = 0, deviating = 0, timeouts = 0, points_max = 0;
    uint64_t replays_checked = 0, fatal = 0, pruned = 0;
    int bound_completed = -1;
};

class Main {
public:
    Main(int argc, char** argv);
    bool thorough() const;
    bool expired() const;
    const std::vector<std::string>& rest() const;
    // Explore all schedules of `body` with <= opt.max_bound deviations (iterating the bound).
    // `cfg` names the configuration (part of replay specs and BOUND lines). In --replay mode only the
    // configuration named in the spec runs, with exactly the recorded choices.
    Stats run(const std::string& cfg, const std::function<void()>& body, const Options& opt);
    // emits COV/SET/... lines, returns process exit code
    int finish();
    bool replay_mode() const;
    bool wants(const std::string& cfg) const;   // false in replay mode for other configurations
private:
    struct Impl;
    Impl* m;
};

}  // namespace vsched

#endif
