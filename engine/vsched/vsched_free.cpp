// vsched_free - the free-running companion of vsched.cpp: same harness API, but no interposition and
// no scheduler. Bodies run on real threads, repeatedly, with all cores kept busy; the executable is
// built with -fsanitize=thread. This pass does not decide any property: it guards the assumption of
// the controlled scheduler that scheduling points at synchronisation operations (plus the atomic
// flag hooks) are sufficient, i.e. that there are no unsynchronised accesses to shared data.
#include "vsched.hpp"

#include <sched.h>
#include <unistd.h>

#include <atomic>
#include <chrono>
#include <cstdio>
#include <cstdlib>
#include <mutex>
#include <set>
#include <string>
#include <thread>
#include <vector>

extern "C" void osmium_verif_sched_point(const char*) {
    static std::atomic<unsigned> n{0};
    if ((n.fetch_add(1, std::memory_order_relaxed) & 3) == 0) sched_yield();   // perturb a little at the flag accesses
}

// libc functions returning a pointer into static storage: libc itself is not instrumented, so ThreadSanitizer cannot see the
// write into the static buffer. These instrumented stand-ins make concurrent calls (and the callers' reads of the shared
// result) visible as the data race they are.
#include <time.h>
#include <string.h>
extern "C" {
struct tm* gmtime(const time_t* tp) { static struct tm buf; gmtime_r(tp, &buf); return &buf; }
struct tm* localtime(const time_t* tp) { static struct tm buf; localtime_r(tp, &buf); return &buf; }
char* ctime(const time_t* tp) { static char buf[64]; ctime_r(tp, buf); return buf; }
char* asctime(const struct tm* tmv) { static char buf[64]; asctime_r(tmv, buf); return buf; }
char* strtok(char* str, const char* delim) { static char* save; return strtok_r(str, delim, &save); }
}

namespace vsched {

namespace {
std::mutex g_mu;
std::vector<std::pair<std::string, std::string>> g_fails;
std::string g_outcome;
std::string g_cfg;
void emit(const std::string& l) { std::string x = l + "\n"; if (write(1, x.data(), x.size()) < 0) {} }
}

void fail(const std::string& k, const std::string& d) { std::lock_guard<std::mutex> l{g_mu}; g_fails.emplace_back(k, d); }
void observe(const std::string& o) { std::lock_guard<std::mutex> l{g_mu}; g_outcome = o; }
void state_hash(uint64_t) {}
bool active() { return false; }
void quiesce() { std::this_thread::sleep_for(std::chrono::milliseconds(30)); }
int thread_id() { return -1; }
uint64_t timeouts_taken() { return 0; }

struct Main::Impl {
    bool thorough = false;
    double deadline_s = 1e9;
    std::chrono::steady_clock::time_point t0 = std::chrono::steady_clock::now();
    std::vector<std::string> rest;
    uint64_t runs = 0, configs = 0;
    std::set<std::string> outcomes;
    int iterations = 20;
    bool expired() const { return std::chrono::duration<double>(std::chrono::steady_clock::now() - t0).count() >= deadline_s; }
};

Main::Main(int argc, char** argv) : m(new Impl) {
    for (int i = 1; i < argc; ++i) {
        std::string s = argv[i];
        auto next = [&]() -> std::string { return i + 1 < argc ? argv[++i] : ""; };
        if (s == "--tier") m->thorough = next() == "thorough";
        else if (s == "--deadline") m->deadline_s = atof(next().c_str()) * 0.9;
        else if (s == "--iterations") m->iterations = atoi(next().c_str());
        else if (s == "--seed" || s == "--shard" || s == "--replay") next();
        else m->rest.push_back(s);
    }
}

bool Main::thorough() const { return m->thorough; }
bool Main::expired() const { return m->expired(); }
const std::vector<std::string>& Main::rest() const { return m->rest; }
bool Main::replay_mode() const { return false; }
bool Main::wants(const std::string&) const { return true; }

Stats Main::run(const std::string& cfg, const std::function<void()>& body, const Options& opt) {
    Stats st;
    if (opt.min_bound != 0) return st;          // one free-running batch per configuration
    ++m->configs;
    for (int i = 0; i < m->iterations && !m->expired(); ++i) {
        { std::lock_guard<std::mutex> l{g_mu}; g_fails.clear(); g_outcome.clear(); }
        try { body(); } catch (const std::exception& e) { fail("harness/exception-escaped-body", e.what()); }
        ++m->runs;
        std::lock_guard<std::mutex> l{g_mu};
        for (auto& f : g_fails) emit("VIOL\tfree-run/" + f.first + "\t" + f.second + " [cfg=" + cfg + ", free-running pass]\t");
        if (!g_outcome.empty() && m->outcomes.insert(cfg + ": " + g_outcome).second && m->outcomes.size() < 50) emit("SET\tfree_run_outcomes\t" + (cfg + ": " + g_outcome).substr(0, 180));
    }
    return st;
}

int Main::finish() {
    emit("COV\tfree_running_tsan_executions\t" + std::to_string(m->runs));
    emit("COV\tfree_running_tsan_configurations\t" + std::to_string(m->configs));
    return 0;
}

}  // namespace vsched
