// engine/vsched/atomic_points.hpp - force-included (-include) into harness translation units that run under the vsched scheduler.
//
// Makes every std::atomic<T> / std::atomic_bool / std::atomic_int ... OBJECT DECLARED AFTER THIS HEADER a wrapper whose operations call
// vsched_atomic_point() first (see vsched.cpp for when that is a scheduling point). The whole standard library is included before the
// macro is defined, so its own atomics (shared_ptr counts, future states, ...) stay what they are - they are reached through the
// interposed futex/pthread calls - and only atomics written in the library under test and in the harness are wrapped. Harness code that
// wants a plain atomic uses vsched::raw_atomic<T>.
#ifndef VSCHED_ATOMIC_POINTS_HPP
#define VSCHED_ATOMIC_POINTS_HPP
#ifdef __cplusplus
#include <bits/stdc++.h>

extern "C" void vsched_atomic_point(const char* tag);
extern "C" void vsched_atomic_after_store();

namespace vsched { template <class T> using raw_atomic = std::atomic<T>; }

namespace std {
template <class T>
class vs_atomic {
    std::atomic<T> v_;
public:
    vs_atomic() noexcept = default;
    constexpr vs_atomic(T x) noexcept : v_(x) {}
    vs_atomic(const vs_atomic&) = delete;
    vs_atomic& operator=(const vs_atomic&) = delete;
    bool is_lock_free() const noexcept { return v_.is_lock_free(); }
    T load(memory_order m = memory_order_seq_cst) const noexcept { vsched_atomic_point("load:atomic"); return v_.load(m); }
    void store(T x, memory_order m = memory_order_seq_cst) noexcept { vsched_atomic_point("store:atomic"); v_.store(x, m); vsched_atomic_after_store(); }
    operator T() const noexcept { return load(); }
    T operator=(T x) noexcept { store(x); return x; }
    T exchange(T x, memory_order m = memory_order_seq_cst) noexcept { vsched_atomic_point("store:atomic"); auto r_ = v_.exchange(x, m); vsched_atomic_after_store(); return r_; }
    bool compare_exchange_weak(T& e, T d, memory_order s, memory_order f) noexcept { vsched_atomic_point("store:atomic"); auto r_ = v_.compare_exchange_strong(e, d, s, f); vsched_atomic_after_store(); return r_; }
    bool compare_exchange_weak(T& e, T d, memory_order m = memory_order_seq_cst) noexcept { vsched_atomic_point("store:atomic"); auto r_ = v_.compare_exchange_strong(e, d, m); vsched_atomic_after_store(); return r_; }
    bool compare_exchange_strong(T& e, T d, memory_order s, memory_order f) noexcept { vsched_atomic_point("store:atomic"); auto r_ = v_.compare_exchange_strong(e, d, s, f); vsched_atomic_after_store(); return r_; }
    bool compare_exchange_strong(T& e, T d, memory_order m = memory_order_seq_cst) noexcept { vsched_atomic_point("store:atomic"); auto r_ = v_.compare_exchange_strong(e, d, m); vsched_atomic_after_store(); return r_; }
    template <class U = T> U fetch_add(U x, memory_order m = memory_order_seq_cst) noexcept { vsched_atomic_point("store:atomic"); auto r_ = v_.fetch_add(x, m); vsched_atomic_after_store(); return r_; }
    template <class U = T> U fetch_sub(U x, memory_order m = memory_order_seq_cst) noexcept { vsched_atomic_point("store:atomic"); auto r_ = v_.fetch_sub(x, m); vsched_atomic_after_store(); return r_; }
    template <class U = T> U fetch_and(U x, memory_order m = memory_order_seq_cst) noexcept { vsched_atomic_point("store:atomic"); auto r_ = v_.fetch_and(x, m); vsched_atomic_after_store(); return r_; }
    template <class U = T> U fetch_or(U x, memory_order m = memory_order_seq_cst) noexcept { vsched_atomic_point("store:atomic"); auto r_ = v_.fetch_or(x, m); vsched_atomic_after_store(); return r_; }
    template <class U = T> U fetch_xor(U x, memory_order m = memory_order_seq_cst) noexcept { vsched_atomic_point("store:atomic"); auto r_ = v_.fetch_xor(x, m); vsched_atomic_after_store(); return r_; }
    template <class U = T> U operator++() noexcept { return fetch_add(U(1)) + U(1); }
    template <class U = T> U operator++(int) noexcept { return fetch_add(U(1)); }
    template <class U = T> U operator--() noexcept { return fetch_sub(U(1)) - U(1); }
    template <class U = T> U operator--(int) noexcept { return fetch_sub(U(1)); }
    template <class U = T> U operator+=(U x) noexcept { return fetch_add(x) + x; }
    template <class U = T> U operator-=(U x) noexcept { return fetch_sub(x) - x; }
    template <class U = T> U operator|=(U x) noexcept { return fetch_or(x) | x; }
    template <class U = T> U operator&=(U x) noexcept { return fetch_and(x) & x; }
};
}  // namespace std

#define atomic vs_atomic
#define atomic_bool vs_atomic<bool>
#define atomic_int vs_atomic<int>
#define atomic_uint vs_atomic<unsigned int>
#define atomic_long vs_atomic<long>
#define atomic_ulong vs_atomic<unsigned long>
#define atomic_size_t vs_atomic<std::size_t>
#define atomic_int32_t vs_atomic<std::int32_t>
#define atomic_uint32_t vs_atomic<std::uint32_t>
#define atomic_int64_t vs_atomic<std::int64_t>
#define atomic_uint64_t vs_atomic<std::uint64_t>
#endif
#endif
