// vsched implementation - see vsched.hpp. Compiled into every schedule-exploration harness
// (never instrumented by sanitizers; the free-running TSan companion uses vsched_free.cpp instead).
#ifndef _GNU_SOURCE
#define _GNU_SOURCE
#endif
#include "vsched.hpp"

#include <dlfcn.h>
#include <errno.h>
#include <fcntl.h>
#include <linux/futex.h>
#include <pthread.h>
#include <signal.h>
#include <stdarg.h>
#include <stdio.h>
#include <stdlib.h>
#include <string.h>
#include <sys/mman.h>
#include <sys/syscall.h>
#include <sys/wait.h>
#include <time.h>
#include <unistd.h>

#include <algorithm>
#include <chrono>
#include <set>
#include <string>
#include <vector>

// ------------------------------------------------------------------------------------------------
// real functions
namespace {

typedef int (*mutex_fn)(pthread_mutex_t*);
typedef int (*condwait_fn)(pthread_cond_t*, pthread_mutex_t*);
typedef int (*condclockwait_fn)(pthread_cond_t*, pthread_mutex_t*, clockid_t, const struct timespec*);
typedef int (*condtimedwait_fn)(pthread_cond_t*, pthread_mutex_t*, const struct timespec*);
typedef int (*cond_fn)(pthread_cond_t*);
typedef int (*create_fn)(pthread_t*, const pthread_attr_t*, void* (*)(void*), void*);
typedef int (*join_fn)(pthread_t, void**);
typedef long (*syscall_fn)(long, ...);
typedef int (*clock_fn)(clockid_t, struct timespec*);
typedef int (*once_fn)(pthread_once_t*, void (*)(void));

struct Real {
    mutex_fn lock, unlock, trylock;
    condwait_fn cwait;
    condclockwait_fn cclockwait;
    condtimedwait_fn ctimedwait;
    cond_fn csignal, cbroadcast;
    create_fn create;
    join_fn join;
    syscall_fn sys;
    clock_fn clock;
    once_fn once;
    volatile int ready;
} R;

void init_real() {
    if (R.ready) return;
    R.lock = (mutex_fn)dlsym(RTLD_NEXT, "pthread_mutex_lock");
    R.unlock = (mutex_fn)dlsym(RTLD_NEXT, "pthread_mutex_unlock");
    R.trylock = (mutex_fn)dlsym(RTLD_NEXT, "pthread_mutex_trylock");
    R.cwait = (condwait_fn)dlsym(RTLD_NEXT, "pthread_cond_wait");
    R.cclockwait = (condclockwait_fn)dlsym(RTLD_NEXT, "pthread_cond_clockwait");
    R.ctimedwait = (condtimedwait_fn)dlsym(RTLD_NEXT, "pthread_cond_timedwait");
    R.csignal = (cond_fn)dlsym(RTLD_NEXT, "pthread_cond_signal");
    R.cbroadcast = (cond_fn)dlsym(RTLD_NEXT, "pthread_cond_broadcast");
    R.create = (create_fn)dlsym(RTLD_NEXT, "pthread_create");
    R.join = (join_fn)dlsym(RTLD_NEXT, "pthread_join");
    R.sys = (syscall_fn)dlsym(RTLD_NEXT, "syscall");
    R.clock = (clock_fn)dlsym(RTLD_NEXT, "clock_gettime");
    R.once = (once_fn)dlsym(RTLD_NEXT, "pthread_once");
    R.ready = 1;
}

struct InitReal { InitReal() { init_real(); } } g_init_real __attribute__((init_priority(101)));

// raw futex on our own words (baton hand-off) - never goes through the interposed syscall()
inline long raw_futex(volatile uint32_t* addr, int op, uint32_t val) {
    long ret;
    register long r10 __asm__("r10") = 0;
    register long r8 __asm__("r8") = 0;
    register long r9 __asm__("r9") = 0;
    __asm__ volatile("syscall" : "=a"(ret) : "0"((long)SYS_futex), "D"(addr), "S"((long)op), "d"((long)val), "r"(r10), "r"(r8), "r"(r9) : "rcx", "r11", "memory");
    return ret;
}

// ------------------------------------------------------------------------------------------------
// scheduler state (touched only by the baton holder)
enum St { S_FREE = 0, S_NEW, S_RUNNING, S_AT_POINT, S_AT_LOCK, S_AT_JOIN, S_AT_END, S_WAIT_COND, S_WAIT_FUTEX, S_DONE, S_AT_QUIESCE };

const int MAXT = 48;
const int MAXOBJ = 512;
const int MAXPTS = 4096;

struct Th {
    int id;
    volatile int st;
    int obj;              // ordinal of mutex / thread / futex / cond the state refers to
    int cond;             // for S_WAIT_COND: cond ordinal (obj = mutex ordinal)
    bool timed;
    int64_t deadline_ns;
    int wake_result;
    bool poll_mark;
    volatile uint32_t go;
    pthread_t real;
    void* (*fn)(void*);
    void* arg;
    uint32_t steps;       // scheduling steps taken by this thread (for the state hash)
    bool skip_after_store; // the pending atomic store was announced by a source hook: no point of its own after it either
    uint32_t hook_step_p1; // steps + 1 right after a source hook (osmium_verif_sched_point) returned; 0 = none: the atomic access that follows was announced
};

struct Point { uint8_t n; uint8_t chosen; uint16_t cost_before; uint64_t costmask; };

struct Exec {
    bool active;
    Th th[MAXT];
    int nth;
    const void* objaddr[MAXOBJ];
    int nobj;
    int owner[MAXOBJ];            // mutex ordinal -> thread id or -1
    int64_t vclock_ns;
    const uint8_t* prefix; int prefix_len;
    Point pts[MAXPTS]; int npts;
    uint8_t choices[MAXPTS];
    int total_cost;
    uint64_t trace_hash, transitions, timeouts, user_hash;
    bool unlock_points, delay_bounded, cond_entry_points;
    std::vector<std::pair<std::string, std::string>>* fails;
    std::string* outcome;
    std::vector<uint64_t>* state_hashes;
    std::vector<uint64_t>* trace_log;
    std::vector<uint16_t>* script_log;        // every scheduling step (kind<<8|tid; kind 0 run, 1 timeout) and every notify_one waiter choice (kind 2)
    const std::vector<uint16_t>* script;     // scripted mode (model -> implementation conformance): follow these entries instead of choices
    size_t script_pos;   // per step (tid, state, obj, timeout, alternatives): to name the first differing step of a diverging replay
} E;

__thread Th* cur = nullptr;

struct WorkerSlot {
    volatile uint64_t beat;
    volatile int running;
    volatile int prefix_len;
    uint8_t prefix[MAXPTS];
    volatile int fatal;
    char fatal_key[160];
    char fatal_msg[1600];
};
WorkerSlot* g_slot = nullptr;     // this worker's slot (null in replay mode)
bool g_replay_print = false;

[[noreturn]] void fatal(const char* key, const std::string& msg) {
    if (g_slot) {
        strncpy(g_slot->fatal_key, key, sizeof g_slot->fatal_key - 1);
        strncpy(g_slot->fatal_msg, msg.c_str(), sizeof g_slot->fatal_msg - 1);
        g_slot->fatal = 1;
        _exit(70);
    }
    std::string l = std::string("VIOL\t") + key + "\t" + msg + "\t\n";
    if (write(1, l.data(), l.size()) < 0) {}
    _exit(70);
}

inline uint64_t mix(uint64_t h, uint64_t v) { h ^= v + 0x9E3779B97F4A7C15ull + (h << 6) + (h >> 2); return h * 0xff51afd7ed558ccdull; }

int ordinal(const void* addr) {
    for (int i = 0; i < E.nobj; ++i) if (E.objaddr[i] == addr) return i;
    if (E.nobj >= MAXOBJ) fatal("harness/too-many-sync-objects", "more than 512 distinct mutex/cond/futex addresses in one execution");
    E.objaddr[E.nobj] = addr; E.owner[E.nobj] = -1;
    return E.nobj++;
}

const char* stname(int st) {
    static const char* n[] = {"free", "new", "running", "at-point", "at-lock", "at-join", "at-end", "wait-cond", "wait-futex", "done", "at-quiesce"};
    return n[st];
}

std::string describe_threads() {
    std::string s;
    for (int i = 0; i < E.nth; ++i) {
        char b[96];
        snprintf(b, sizeof b, "T%d:%s", i, stname(E.th[i].st));
        s += b;
        if (E.th[i].st == S_AT_LOCK) { snprintf(b, sizeof b, "(m%d owner=T%d)", E.th[i].obj, E.owner[E.th[i].obj]); s += b; }
        if (E.th[i].st == S_WAIT_COND) { snprintf(b, sizeof b, "(c%d%s)", E.th[i].cond, E.th[i].timed ? ",timed" : ""); s += b; }
        if (E.th[i].st == S_AT_JOIN) { snprintf(b, sizeof b, "(T%d)", E.th[i].obj); s += b; }
        if (E.th[i].poll_mark) s += "[polling]";
        s += ' ';
    }
    return s;
}

bool enabled(const Th& t) {
    switch (t.st) {
        case S_NEW: case S_AT_POINT: return true;
        case S_AT_LOCK: return E.owner[t.obj] < 0;
        case S_AT_JOIN: return E.th[t.obj].st == S_DONE;
        case S_AT_END:
            for (int i = 0; i < E.nth; ++i) if (i != t.id && E.th[i].st != S_DONE) return false;
            return true;
        case S_AT_QUIESCE:      // vsched::quiesce(): continues only when no other thread can run (all blocked, timed-waiting or done)
            for (int i = 0; i < E.nth; ++i) if (i != t.id && E.th[i].st != S_AT_QUIESCE && enabled(E.th[i])) return false;
            return true;
        default: return false;
    }
}

inline bool timed_waiting(const Th& t) { return (t.st == S_WAIT_COND || t.st == S_WAIT_FUTEX) && t.timed; }

void progress() { for (int i = 0; i < E.nth; ++i) E.th[i].poll_mark = false; }

int take_choice(int n, uint64_t costmask) {
    // The harness bodies are finite and small (the unchanged tree needs at most a few hundred decision points per execution): an execution
    // that is still offering choices after 4096 of them is going round in a loop that never blocks - threads polling shared state that no
    // longer changes (e.g. producers that see a stale "full" while the consumer waits for data). Reported like the step cap, with the
    // threads' states; not a harness error.
    if (E.npts >= MAXPTS) fatal("livelock/decision-point-cap", "more than 4096 decision points in one execution, threads still runnable: " + describe_threads());
    int c = E.npts < E.prefix_len ? E.prefix[E.npts] : 0;
    if (c >= n) fatal("harness/replay-divergence", "recorded choice " + std::to_string(c) + " out of range (" + std::to_string(n) + " alternatives) at decision point " + std::to_string(E.npts) + ": the execution is not deterministic");
    Point& p = E.pts[E.npts];
    p.n = static_cast<uint8_t>(n); p.chosen = static_cast<uint8_t>(c); p.cost_before = static_cast<uint16_t>(E.total_cost); p.costmask = costmask;
    E.choices[E.npts] = static_cast<uint8_t>(c);
    ++E.npts;
    if (costmask & (1ull << c)) ++E.total_cost;
    return c;
}

uint64_t sched_state_hash() {
    uint64_t h = E.user_hash;
    for (int i = 0; i < E.nth; ++i) {
        const Th& t = E.th[i];
        h = mix(h, (uint64_t(t.st) << 40) ^ (uint64_t(uint32_t(t.obj)) << 16) ^ (uint64_t(t.timed) << 8) ^ uint64_t(t.steps) << 48 ^ uint64_t(uint32_t(t.cond)));
    }
    for (int i = 0; i < E.nobj; ++i) h = mix(h, uint64_t(E.owner[i] + 2));
    return h;
}

void wait_go(Th* t) {
    while (__atomic_load_n(&t->go, __ATOMIC_ACQUIRE) == 0) raw_futex(&t->go, FUTEX_WAIT, 0);
    __atomic_store_n(&t->go, 0, __ATOMIC_RELAXED);
}
void wake_go(Th* t) {
    __atomic_store_n(&t->go, 1, __ATOMIC_RELEASE);
    raw_futex(&t->go, FUTEX_WAKE, 1);
}

struct Alt { int tid; bool timeout; };

// The scheduling decision. `self` has already recorded its new state. Returns when `self` has
// been granted its pending operation (or immediately if self is DONE and handed the baton on).
void reschedule(Th* self) {
    ++self->steps;
    Th* running = self;
    for (;;) {
        if (g_slot) g_slot->beat = g_slot->beat + 1;
        if (++E.transitions > 400000) fatal("livelock/step-cap", "execution exceeded 400000 scheduling steps: " + describe_threads());
        Alt alts[2 * MAXT + 2]; int n = 0;
        bool run_enabled = running && enabled(*running);
        if (run_enabled) alts[n++] = {running->id, false};
        for (int i = 0; i < E.nth; ++i) { Th& t = E.th[i]; if (&t != running && enabled(t)) alts[n++] = {i, false}; }
        bool any_run = n > 0;
        int first_timeout = n;
        for (int i = 0; i < E.nth; ++i) { Th& t = E.th[i]; if (timed_waiting(t) && (any_run || !t.poll_mark)) alts[n++] = {i, true}; }
        if (n == 0) {
            bool all_done = true;
            for (int i = 0; i < E.nth; ++i) if (E.th[i].st != S_DONE) all_done = false;
            if (all_done) return;
            bool polling = false;
            for (int i = 0; i < E.nth; ++i) if (timed_waiting(E.th[i])) polling = true;
            fatal(polling ? "livelock/only-polling-threads-remain" : "deadlock/no-enabled-thread", describe_threads());
        }
        if (n > 62) fatal("harness/too-many-alternatives", "more than 62 alternatives at one decision point");
        uint64_t costmask = 0;
        if (run_enabled) costmask = ((1ull << n) - 1) & ~1ull;
        else if (any_run) {
            for (int i = first_timeout; i < n; ++i) costmask |= 1ull << i;
            if (E.delay_bounded) for (int i = 1; i < first_timeout; ++i) costmask |= 1ull << i;   // only "lowest id next" is free
        }
        if (E.state_hashes) E.state_hashes->push_back(sched_state_hash());
        int c;
        if (E.script) {
            if (E.script_pos >= E.script->size()) fatal("conformance/implementation-continues-after-model-path-ended", "step " + std::to_string(E.script_pos) + ": " + describe_threads());
            uint16_t e = (*E.script)[E.script_pos];
            if ((e >> 8) == 3) e = 0;          // 'z': the model path is over, only the main thread (harness tail) may run from here on
            else ++E.script_pos;
            c = -1;
            for (int i = 0; i < n; ++i) if (alts[i].tid == (e & 0xff) && alts[i].timeout == ((e >> 8) == 1)) c = i;
            if ((e >> 8) > 1 || c < 0) fatal("conformance/model-step-not-enabled-in-implementation", "script step " + std::to_string(E.script_pos - 1) + " wants " + ((e >> 8) == 1 ? "timeout of" : (e >> 8) == 2 ? "waiter choice" : "run") + " T" + std::to_string(e & 0xff) + " but the implementation is at: " + describe_threads());
        } else c = n == 1 ? 0 : take_choice(n, costmask);
        Alt a = alts[c];
        if (E.script_log) E.script_log->push_back(static_cast<uint16_t>((a.timeout ? 0x100 : 0) | a.tid));
        Th* t = &E.th[a.tid];
        // The trace identifies a step by (thread, kind of pending operation, timeout?, number of alternatives). The ordinal of the
        // synchronisation object is NOT part of it: ordinals are assigned per address, and when the heap hands the address of a dead
        // object (a future's shared state, a once_flag) to a new one the labels differ between two runs of the same schedule although
        // the behaviour is identical (observed: "T3 at-point obj=16" vs "obj=11" with equal alternatives and outcome).
        E.trace_hash = mix(E.trace_hash, (uint64_t(a.tid) << 32) ^ (uint64_t(t->st) << 24) ^ uint64_t(a.timeout) ^ (uint64_t(n) << 56));
        if (E.trace_log) E.trace_log->push_back((uint64_t(a.tid) << 48) ^ (uint64_t(t->st) << 40) ^ (uint64_t(a.timeout) << 8) ^ uint64_t(n));
        if (g_replay_print) fprintf(stderr, "  step %llu: %s T%d %s obj=%d (%d alternatives, choice %d)\n", (unsigned long long)E.transitions, a.timeout ? "timeout" : "run", a.tid, stname(t->st), t->obj, n, c);
        if (a.timeout) {
            ++E.timeouts;
            if (t->deadline_ns > E.vclock_ns) E.vclock_ns = t->deadline_ns;
            E.vclock_ns += 1000;
            if (!any_run) t->poll_mark = true;
            t->wake_result = ETIMEDOUT;
            t->timed = false;
            t->st = t->st == S_WAIT_COND ? S_AT_LOCK : S_AT_POINT;
            running = t;
            continue;
        }
        if (t->st == S_AT_LOCK) E.owner[t->obj] = t->id;
        t->st = S_RUNNING;
        if (!t->poll_mark) progress();
        if (t == self) return;
        wake_go(t);
        if (self->st == S_DONE) return;
        wait_go(self);
        return;
    }
}

void* trampoline(void* p) {
    Th* t = static_cast<Th*>(p);
    cur = t;
    wait_go(t);
    void* r = t->fn(t->arg);
    t->st = S_DONE;
    progress();
    cur = nullptr;
    reschedule(t);
    return r;
}

inline bool managed() { return E.active && cur != nullptr; }

int64_t ts_ns(const struct timespec* ts) { return int64_t(ts->tv_sec) * 1000000000LL + ts->tv_nsec; }

void wake_cond_waiter(Th& w) {
    w.st = S_AT_LOCK; w.timed = false; w.wake_result = 0;
}

}  // namespace

// ------------------------------------------------------------------------------------------------
// interposed symbols
extern "C" {

int pthread_mutex_lock(pthread_mutex_t* m) {
    if (!managed()) { init_real(); return R.lock(m); }
    Th* t = cur;
    t->st = S_AT_LOCK; t->obj = ordinal(m);
    reschedule(t);
    return 0;
}

int pthread_mutex_trylock(pthread_mutex_t* m) {
    if (!managed()) { init_real(); return R.trylock(m); }
    int o = ordinal(m);
    if (E.owner[o] >= 0) return EBUSY;
    E.owner[o] = cur->id;
    return 0;
}

int pthread_mutex_unlock(pthread_mutex_t* m) {
    if (!managed()) { init_real(); return R.unlock(m); }
    int o = ordinal(m);
    E.owner[o] = -1;
    if (E.unlock_points) { Th* t = cur; t->st = S_AT_POINT; t->obj = o; reschedule(t); }
    return 0;
}

static int cond_wait_common(pthread_cond_t* c, pthread_mutex_t* m, bool timed, int64_t deadline) {
    Th* t = cur;
    int mo = ordinal(m), co = ordinal(c);
    if (E.cond_entry_points) {
        // A thread can be preempted between evaluating its wait predicate (which may read an atomic flag that another thread
        // stores without holding the mutex) and entering the wait. It still owns the mutex here and is not yet a waiter: a
        // notify that happens now is lost for it. Without this point that window could not be explored (the wait itself is
        // atomic: release the mutex and join the waiters).
        t->st = S_AT_POINT; t->obj = -5;
        reschedule(t);
    }
    E.owner[mo] = -1;
    t->st = S_WAIT_COND; t->obj = mo; t->cond = co; t->timed = timed; t->deadline_ns = deadline; t->wake_result = 0;
    reschedule(t);
    return t->wake_result;
}

int pthread_cond_wait(pthread_cond_t* c, pthread_mutex_t* m) {
    if (!managed()) { init_real(); return R.cwait(c, m); }
    return cond_wait_common(c, m, false, 0);
}

int pthread_cond_clockwait(pthread_cond_t* c, pthread_mutex_t* m, clockid_t clk, const struct timespec* abstime) {
    if (!managed()) { init_real(); return R.cclockwait(c, m, clk, abstime); }
    return cond_wait_common(c, m, true, ts_ns(abstime));
}

int pthread_cond_timedwait(pthread_cond_t* c, pthread_mutex_t* m, const struct timespec* abstime) {
    if (!managed()) { init_real(); return R.ctimedwait(c, m, abstime); }
    return cond_wait_common(c, m, true, ts_ns(abstime));
}

int pthread_cond_signal(pthread_cond_t* c) {
    if (!managed()) { init_real(); return R.csignal(c); }
    int co = ordinal(c);
    int w[MAXT], n = 0;
    for (int i = 0; i < E.nth; ++i) if (E.th[i].st == S_WAIT_COND && E.th[i].cond == co) w[n++] = i;
    progress();
    if (n == 0) return 0;
    // which waiter notify_one wakes: every one is explored - at no cost under preemption bounding, as a
    // deviation (all but the lowest id) under delay bounding
    int k;
    if (E.script && n > 1) {
        if (E.script_pos >= E.script->size()) fatal("conformance/implementation-continues-after-model-path-ended", "notify_one waiter choice");
        const uint16_t e = (*E.script)[E.script_pos++];
        k = -1;
        for (int i = 0; i < n; ++i) if ((e >> 8) == 2 && w[i] == (e & 0xff)) k = i;
        if (k < 0) fatal("conformance/model-step-not-enabled-in-implementation", "script wants notify_one to wake T" + std::to_string(e & 0xff) + " (entry kind " + std::to_string(e >> 8) + ") but the waiters are: " + describe_threads());
    } else k = n == 1 ? 0 : take_choice(n, E.delay_bounded ? (((1ull << n) - 1) & ~1ull) : 0);
    if (E.script_log && n > 1) E.script_log->push_back(static_cast<uint16_t>(0x200 | w[k]));
    E.trace_hash = mix(E.trace_hash, 0x5151ull ^ (uint64_t(w[k]) << 8));
    wake_cond_waiter(E.th[w[k]]);
    return 0;
}

int pthread_cond_broadcast(pthread_cond_t* c) {
    if (!managed()) { init_real(); return R.cbroadcast(c); }
    int co = ordinal(c);
    progress();
    for (int i = 0; i < E.nth; ++i) if (E.th[i].st == S_WAIT_COND && E.th[i].cond == co) wake_cond_waiter(E.th[i]);
    return 0;
}

int pthread_create(pthread_t* thread, const pthread_attr_t* attr, void* (*fn)(void*), void* arg) {
    init_real();
    if (!managed()) return R.create(thread, attr, fn, arg);
    if (E.nth >= MAXT) fatal("harness/too-many-threads", "more than 48 managed threads");
    Th* n = &E.th[E.nth];
    memset(n, 0, sizeof *n);
    n->id = E.nth; n->st = S_NEW; n->fn = fn; n->arg = arg; n->obj = -1; n->cond = -1;
    int rc = R.create(&n->real, attr, trampoline, n);
    if (rc != 0) return rc;
    *thread = n->real;
    ++E.nth;
    progress();
    Th* t = cur;
    t->st = S_AT_POINT; t->obj = -2;
    reschedule(t);
    return 0;
}

int pthread_join(pthread_t th, void** ret) {
    init_real();
    if (!managed()) return R.join(th, ret);
    int id = -1;
    for (int i = 0; i < E.nth; ++i) if (pthread_equal(E.th[i].real, th) && i != 0) id = i;
    if (id < 0) return R.join(th, ret);
    Th* t = cur;
    t->st = S_AT_JOIN; t->obj = id;
    reschedule(t);
    return R.join(th, ret);
}

long syscall(long nr, ...) {
    va_list ap;
    va_start(ap, nr);
    long a1 = va_arg(ap, long), a2 = va_arg(ap, long), a3 = va_arg(ap, long), a4 = va_arg(ap, long), a5 = va_arg(ap, long), a6 = va_arg(ap, long);
    va_end(ap);
    init_real();
    if (nr != SYS_futex || !managed()) return R.sys(nr, a1, a2, a3, a4, a5, a6);
    int op = static_cast<int>(a2) & ~(FUTEX_PRIVATE_FLAG | FUTEX_CLOCK_REALTIME);
    volatile uint32_t* addr = reinterpret_cast<volatile uint32_t*>(a1);
    int fo = ordinal(const_cast<const uint32_t*>(addr));
    if (op == FUTEX_WAIT || op == FUTEX_WAIT_BITSET) {
        if (*addr != static_cast<uint32_t>(a3)) { errno = EAGAIN; return -1; }
        const struct timespec* ts = reinterpret_cast<const struct timespec*>(a4);
        Th* t = cur;
        t->st = S_WAIT_FUTEX; t->obj = fo; t->cond = -1; t->timed = ts != nullptr; t->wake_result = 0;
        if (ts) t->deadline_ns = op == FUTEX_WAIT ? E.vclock_ns + ts_ns(ts) : ts_ns(ts);
        reschedule(t);
        if (t->wake_result == ETIMEDOUT) { errno = ETIMEDOUT; return -1; }
        return 0;
    }
    if (op == FUTEX_WAKE || op == FUTEX_WAKE_BITSET) {
        long woken = 0;
        progress();
        for (int i = 0; i < E.nth && woken < a3; ++i) {
            Th& w = E.th[i];
            if (w.st == S_WAIT_FUTEX && w.obj == fo) { w.st = S_AT_POINT; w.timed = false; w.wake_result = 0; ++woken; }
        }
        return woken;
    }
    fatal("harness/unsupported-futex-op", "futex op " + std::to_string(op));
}

// std::promise::set_value/set_exception and packaged_task::operator() publish their result inside
// std::call_once -> pthread_once. When no thread is waiting yet there is no futex wake, so this is
// the only place where "result published" can be ordered against other threads' polls
// (future::wait_for(0s) in check_for_exception): a scheduling point before the publication.
int pthread_once(pthread_once_t* once, void (*init)(void)) {
    init_real();
    if (managed()) {
        Th* t = cur;
        t->st = S_AT_POINT; t->obj = ordinal(once);
        reschedule(t);
        progress();
    }
    return R.once(once, init);
}

int clock_gettime(clockid_t clk, struct timespec* ts) {
    if (!managed()) { init_real(); return R.clock(clk, ts); }
    ts->tv_sec = E.vclock_ns / 1000000000LL;
    ts->tv_nsec = E.vclock_ns % 1000000000LL;
    return 0;
}

// ---- libc functions that return a pointer into static storage (gmtime, localtime, ctime, asctime, strtok state):
// calling them from several threads is a data race that no synchronisation operation reveals. The window is between the call
// (which fills the static buffer) and the caller's reads of the result: a scheduling point right after the call lets another
// thread run - and call the same function - inside that window, so the stale read happens for real and shows in the oracle.
#include <time.h>
static void point_after_static_result(int tag) {
    if (!managed()) return;
    Th* t = cur;
    progress();
    t->st = S_AT_POINT; t->obj = tag;
    reschedule(t);
}
struct tm* gmtime(const time_t* tp) {
    static struct tm* (*real)(const time_t*) = reinterpret_cast<struct tm* (*)(const time_t*)>(dlsym(RTLD_NEXT, "gmtime"));
    struct tm* r = real(tp);
    point_after_static_result(-7);
    return r;
}
struct tm* localtime(const time_t* tp) {
    static struct tm* (*real)(const time_t*) = reinterpret_cast<struct tm* (*)(const time_t*)>(dlsym(RTLD_NEXT, "localtime"));
    struct tm* r = real(tp);
    point_after_static_result(-7);
    return r;
}
char* ctime(const time_t* tp) {
    static char* (*real)(const time_t*) = reinterpret_cast<char* (*)(const time_t*)>(dlsym(RTLD_NEXT, "ctime"));
    char* r = real(tp);
    point_after_static_result(-7);
    return r;
}
char* asctime(const struct tm* tmv) {
    static char* (*real)(const struct tm*) = reinterpret_cast<char* (*)(const struct tm*)>(dlsym(RTLD_NEXT, "asctime"));
    char* r = real(tmv);
    point_after_static_result(-7);
    return r;
}
char* strtok(char* str, const char* delim) {
    static char* (*real)(char*, const char*) = reinterpret_cast<char* (*)(char*, const char*)>(dlsym(RTLD_NEXT, "strtok"));
    char* r = real(str, delim);
    point_after_static_result(-7);
    return r;
}

// ... and AFTER every store / read-modify-write on such an atomic: the thread has published something and goes on working - the window
// of "flag set before the state it announces is complete" (seed C08f) lies between the store and the thread's next visible operation.
void vsched_atomic_after_store() {
    if (!managed()) return;
    Th* t = cur;
    if (t->skip_after_store) { t->skip_after_store = false; return; }
    t->st = S_AT_POINT; t->obj = -9;
    reschedule(t);
}

// zlib's one-shot decompressor fills caller-supplied memory and the caller then works on it without any synchronisation: a point
// after the call lets another thread run between "filled" and "used", so a destination that two threads share (a scratch string
// hoisted to static storage) shows as wrong output under the explorer instead of needing a real-time overlap.
int uncompress(unsigned char* dest, unsigned long* dest_len, const unsigned char* source, unsigned long source_len) {
    typedef int (*fn)(unsigned char*, unsigned long*, const unsigned char*, unsigned long);
    static fn real = reinterpret_cast<fn>(dlsym(RTLD_NEXT, "uncompress"));
    const int r = real(dest, dest_len, source, source_len);
    point_after_static_result(-8);
    return r;
}

void osmium_verif_sched_point(const char* tag) {
    if (!managed()) return;
    Th* t = cur;
    if (tag && tag[0] == 's') progress();     // "store:..." hooks change shared state
    t->st = S_AT_POINT; t->obj = -3;
    reschedule(t);
    t->hook_step_p1 = t->steps + 1;
}

// Every operation on a std::atomic in a harness built with engine/vsched/atomic_points.hpp (force-included: std::atomic is wrapped)
// comes through here BEFORE the operation. It is a scheduling point of its own unless
//   - a source hook (H2-H4) has just announced exactly this access (no scheduling step of this thread in between), or
//   - it is a load made while the thread owns a managed mutex (the store side and the wait-entry point cover those windows; the
//     predicate of a condition wait would otherwise be a point on every evaluation).
// So the unchanged tree has the same decision points with and without the wrapper, and an atomic that a change adds - or a new access to
// an existing one - is a switching point without a source hook.
void vsched_atomic_point(const char* tag) {
    if (!managed()) return;
    Th* t = cur;
    t->skip_after_store = false;
    if (t->hook_step_p1 == t->steps + 1) { t->hook_step_p1 = 0; t->skip_after_store = true; return; }
    if (tag[0] == 'l') { for (int o = 0; o < E.nobj; ++o) if (E.owner[o] == t->id) return; }
    else progress();
    t->st = S_AT_POINT; t->obj = -6;
    reschedule(t);
}

}  // extern "C"

// ------------------------------------------------------------------------------------------------
// explorer
namespace vsched {

namespace {

const int MAXW = 32;
const size_t STACK_BYTES = size_t(1) << 30;      // virtual; MAP_NORESERVE
const size_t HT_SLOTS = size_t(1) << 24;

struct Shared {
    volatile int lock;
    volatile uint64_t top;
    volatile int inflight;
    volatile int stop;
    volatile uint64_t schedules, transitions, states, deviating, timeouts, points_max, replays_checked, pruned, sched_with_timeout;
    WorkerSlot slots[MAXW];
    volatile uint64_t htab[HT_SLOTS];
    uint8_t stack[1];
};

Shared* SH = nullptr;

void sh_lock() { while (__sync_lock_test_and_set(&SH->lock, 1)) { while (SH->lock) sched_yield(); } }
void sh_unlock() { __sync_lock_release(&SH->lock); }

bool ht_insert(uint64_t h) {    // true if new
    if (h == 0) h = 1;
    size_t i = (h * 0x9E3779B97F4A7C15ull) >> 40;
    for (size_t probe = 0; probe < HT_SLOTS; ++probe) {
        size_t j = (i + probe) & (HT_SLOTS - 1);
        uint64_t v = SH->htab[j];
        if (v == h) return false;
        if (v == 0) {
            if (__sync_bool_compare_and_swap(&SH->htab[j], 0, h)) return true;
            if (SH->htab[j] == h) return false;
        }
    }
    return false;
}

void push_prefix(const uint8_t* p, int len) {      // caller holds the lock
    if (SH->top + len + 4 > STACK_BYTES) { SH->stop = 2; return; }
    memcpy(SH->stack + SH->top, p, len);
    uint32_t l = len;
    memcpy(SH->stack + SH->top + len, &l, 4);
    SH->top += len + 4;
}

int pop_prefix(uint8_t* out) {                      // caller holds the lock; -1 if empty
    if (SH->top == 0) return -1;
    uint32_t l;
    memcpy(&l, SH->stack + SH->top - 4, 4);
    SH->top -= 4 + l;
    memcpy(out, SH->stack + SH->top, l);
    return static_cast<int>(l);
}

struct RunResult {
    std::vector<std::pair<std::string, std::string>> fails;
    std::string outcome;
    std::vector<uint64_t> state_hashes, trace_log;
    std::vector<uint16_t> script_log;
    uint64_t trace_hash = 0, transitions = 0, timeouts = 0;
    int npts = 0, cost = 0;
};

RunResult* g_rr = nullptr;
bool g_want_script_log = false;
const std::vector<uint16_t>* g_script = nullptr;
int g_dump_fd = -1;

std::string script_str(const std::vector<uint16_t>& v) {
    std::string s;
    for (uint16_t e : v) { s += (e >> 8) == 0 ? 'r' : (e >> 8) == 1 ? 't' : 's'; s += std::to_string(e & 0xff); s += ' '; }
    return s;
}

void run_once(const std::function<void()>& body, const uint8_t* prefix, int prefix_len, const Options& opt, RunResult& rr, bool want_states) {
    E.nth = 1; E.nobj = 0; E.npts = 0; E.total_cost = 0;
    E.vclock_ns = 1000000LL * 1000000000LL;
    E.prefix = prefix; E.prefix_len = prefix_len;
    E.trace_hash = 0; E.transitions = 0; E.timeouts = 0; E.user_hash = 0;
    E.unlock_points = opt.unlock_points; E.delay_bounded = opt.delay_bounded; E.cond_entry_points = opt.cond_entry_points;
    E.fails = &rr.fails; E.outcome = &rr.outcome;
    E.state_hashes = want_states ? &rr.state_hashes : nullptr;
    E.trace_log = &rr.trace_log;
    E.script_log = g_want_script_log ? &rr.script_log : nullptr;
    E.script = g_script; E.script_pos = 0;
    memset(&E.th[0], 0, sizeof(Th));
    E.th[0].id = 0; E.th[0].st = S_RUNNING; E.th[0].obj = -1; E.th[0].cond = -1;
    g_rr = &rr;
    cur = &E.th[0];
    E.active = true;
    try {
        body();
    } catch (const std::exception& e) {
        rr.fails.emplace_back("harness/exception-escaped-body", e.what());
    } catch (...) {
        rr.fails.emplace_back("harness/exception-escaped-body", "non-std exception");
    }
    // drain: the body thread waits until every other managed thread has finished
    Th* t = cur;
    t->st = S_AT_END; t->obj = -4;
    bool others = false;
    for (int i = 1; i < E.nth; ++i) if (E.th[i].st != S_DONE) others = true;
    if (others) {
        rr.fails.emplace_back("threads/alive-after-body", "managed threads were still alive when the body returned: " + describe_threads());
        reschedule(t);       // let them finish (deadlock here is fatal and reported)
    }
    E.active = false;
    cur = nullptr;
    rr.trace_hash = E.trace_hash; rr.transitions = E.transitions; rr.timeouts = E.timeouts; rr.npts = E.npts; rr.cost = E.total_cost;
    if (E.script && E.script_pos != E.script->size() && !(E.script_pos + 1 == E.script->size() && (E.script->back() >> 8) == 3)) fatal("conformance/model-path-continues-after-implementation-ended", "script has " + std::to_string(E.script->size()) + " entries, the execution consumed " + std::to_string(E.script_pos));
    if (E.prefix_len > E.npts) fatal("harness/replay-divergence", "execution ended after " + std::to_string(E.npts) + " decision points but the prefix has " + std::to_string(E.prefix_len));
}

std::string choices_str(const uint8_t* c, int n) {
    std::string s;
    for (int i = 0; i < n; ++i) { if (i) s += ','; s += std::to_string(c[i]); }
    return s.empty() ? "-" : s;
}

void emit(const std::string& l) { std::string x = l + "\n"; if (write(1, x.data(), x.size()) < 0) {} }

std::string clean(const std::string& s, size_t maxlen) {
    std::string r;
    for (unsigned char c : s) { r += (c == '\t' || c == '\n' || c == '\r') ? ' ' : static_cast<char>(c); if (r.size() >= maxlen) break; }
    return r;
}

}  // namespace

void fail(const std::string& k, const std::string& d) { if (E.fails) E.fails->emplace_back(k, d); }
void observe(const std::string& o) { if (E.outcome) *E.outcome = o; }
void state_hash(uint64_t h) { E.user_hash = mix(E.user_hash, h); }
bool active() { return managed(); }
void quiesce() {
    if (!managed()) return;
    Th* t = cur;
    t->st = S_AT_QUIESCE; t->obj = -6;
    reschedule(t);
}
int thread_id() { return cur ? cur->id : -1; }
uint64_t timeouts_taken() { return E.timeouts; }

struct Main::Impl {
    bool thorough = false, replay = false;
    std::string replay_cfg; std::vector<uint8_t> replay_choices;
    std::string dump_path, script_path;
    double deadline_s = 1e9;
    std::chrono::steady_clock::time_point t0 = std::chrono::steady_clock::now();
    std::vector<std::string> rest;
    Stats total;
    std::set<std::string> viol_keys;
    uint64_t nviol = 0;
    std::set<std::string> outcomes;
    int configs = 0;
    bool expired() const { return std::chrono::duration<double>(std::chrono::steady_clock::now() - t0).count() >= deadline_s; }
};

Main::Main(int argc, char** argv) : m(new Impl) {
    for (int i = 1; i < argc; ++i) {
        std::string s = argv[i];
        auto next = [&]() -> std::string { return i + 1 < argc ? argv[++i] : ""; };
        if (s == "--tier") m->thorough = next() == "thorough";
        else if (s == "--deadline") m->deadline_s = atof(next().c_str()) * 0.9;
        else if (s == "--seed" || s == "--shard") next();
        else if (s == "--dump-traces") { m->dump_path = next(); g_want_script_log = true; g_dump_fd = open(m->dump_path.c_str(), O_WRONLY | O_CREAT | O_APPEND, 0644); }
        else if (s == "--script") { m->script_path = next(); g_want_script_log = true; }
        else if (s == "--replay") {
            m->replay = true;
            std::string spec = next();
            size_t bar = spec.rfind('|');
            m->replay_cfg = spec.substr(0, bar);
            std::string ch = bar == std::string::npos ? "" : spec.substr(bar + 1);
            if (ch != "-") { size_t p = 0; while (p < ch.size()) { m->replay_choices.push_back(static_cast<uint8_t>(atoi(ch.c_str() + p))); size_t c = ch.find(',', p); if (c == std::string::npos) break; p = c + 1; } }
        } else m->rest.push_back(s);
    }
}

bool Main::thorough() const { return m->thorough; }
bool Main::expired() const { return m->expired(); }
const std::vector<std::string>& Main::rest() const { return m->rest; }
bool Main::replay_mode() const { return m->replay; }
bool Main::wants(const std::string& cfg) const { return !m->replay || cfg == m->replay_cfg; }

namespace {

struct WorkerCtx {
    const std::function<void()>* body; const Options* opt; int bound; std::string cfg; int slot;
};

void report_fails(const std::string& cfg, const RunResult& rr, const uint8_t* choices, int n) {
    // one write() per line and lines below PIPE_BUF (4096): several worker processes share the pipe, longer lines would interleave
    for (auto& f : rr.fails) {
        const std::string spec = cfg + "|" + choices_str(choices, n);
        const size_t room = spec.size() < 3000 ? 3600 - spec.size() : 600;
        emit("VIOL\t" + clean(f.first, 200) + "\t" + clean(f.second + " [cfg=" + cfg + ", " + std::to_string(n) + " decision points]", std::min<size_t>(1500, room)) + "\t" + spec);
    }
}

void worker_loop(const WorkerCtx& w) {
    g_slot = &SH->slots[w.slot];
    std::vector<uint8_t> prefix(MAXPTS);
    std::set<std::string> local_outcomes;
    uint64_t local_n = 0;
    {   // warm-up execution (default schedule, result discarded): one-time initialisations of the process
        // (function-local statics, locale/once initialisers in libstdc++) happen here, not in a counted run
        g_slot->prefix_len = 0; g_slot->running = 1;
        RunResult warm;
        run_once(*w.body, prefix.data(), 0, *w.opt, warm, false);
        g_slot->running = 0;
    }
    for (;;) {
        sh_lock();
        int len = SH->stop ? -1 : pop_prefix(prefix.data());
        if (len < 0) {
            bool done = SH->inflight == 0 || SH->stop;
            sh_unlock();
            if (done) break;
            usleep(100);
            continue;
        }
        ++SH->inflight;
        sh_unlock();
        memcpy(g_slot->prefix, prefix.data(), len);
        g_slot->prefix_len = len;
        g_slot->running = 1;
        RunResult rr;
        run_once(*w.body, prefix.data(), len, *w.opt, rr, true);
        ++local_n;
        // determinism: replay every 64th schedule (and every failing one) and compare
        if ((local_n & 63) == 1 || !rr.fails.empty()) {
            RunResult r2;
            std::vector<uint8_t> full(E.choices, E.choices + rr.npts);
            run_once(*w.body, full.data(), rr.npts, *w.opt, r2, false);
            if (r2.trace_hash != rr.trace_hash || r2.outcome != rr.outcome || r2.npts != rr.npts) {
                size_t k = 0;
                while (k < rr.trace_log.size() && k < r2.trace_log.size() && rr.trace_log[k] == r2.trace_log[k]) ++k;
                auto step = [](const std::vector<uint64_t>& v, size_t i) {
                    if (i >= v.size()) return std::string("(end)");
                    const uint64_t x = v[i]; char b[128];
                    snprintf(b, sizeof b, "T%d %s%s of %d alternatives", int(x >> 48), stname(int((x >> 40) & 0xff)), ((x >> 8) & 1) ? " timeout" : "", int(x & 0xff));
                    return std::string(b);
                };
                fatal("harness/nondeterministic-replay", "same choices gave a different trace/outcome: '" + rr.outcome + "' vs '" + r2.outcome + "'; " + std::to_string(rr.npts) + " vs " + std::to_string(r2.npts) +
                      " decision points, " + std::to_string(rr.trace_log.size()) + " vs " + std::to_string(r2.trace_log.size()) + " steps, first difference at step " + std::to_string(k) + ": " + step(rr.trace_log, k) + " vs " + step(r2.trace_log, k));
            }
            __sync_fetch_and_add(&SH->replays_checked, 1);   // (the replay left identical points/choices in E)
        }
        g_slot->running = 0;
        if (g_dump_fd >= 0) { std::string l = w.cfg + "\t" + script_str(rr.script_log) + "\t" + rr.outcome + "\n"; if (write(g_dump_fd, l.data(), l.size()) < 0) {} }
        if (!rr.fails.empty()) report_fails(w.cfg, rr, E.choices, rr.npts);
        if (len == 0 || (local_n == 7 && w.slot == 1))
            emit("SAMPLE\t" + clean(w.cfg + " | bound " + std::to_string(w.bound) + " | choices " + choices_str(E.choices, rr.npts) + " | " + std::to_string(rr.transitions) + " transitions, " + std::to_string(rr.timeouts) + " timeouts | outcome: " + rr.outcome, 500));
        if (!rr.outcome.empty() && local_outcomes.insert(rr.outcome).second) emit("SET\toutcomes\t" + clean(w.cfg + ": " + rr.outcome, 180));
        uint64_t newstates = 0;
        for (uint64_t h : rr.state_hashes) if (ht_insert(h)) ++newstates;
        __sync_fetch_and_add(&SH->states, newstates);
        __sync_fetch_and_add(&SH->schedules, 1);
        __sync_fetch_and_add(&SH->transitions, rr.transitions);
        __sync_fetch_and_add(&SH->timeouts, rr.timeouts);
        if (rr.timeouts) __sync_fetch_and_add(&SH->sched_with_timeout, 1);
        if (rr.cost > 0 || len > 0) __sync_fetch_and_add(&SH->deviating, 1);
        if (static_cast<uint64_t>(rr.npts) > SH->points_max) SH->points_max = rr.npts;
        // expand: one child per alternative within the bound, at every point behind the prefix
        sh_lock();
        for (int i = rr.npts - 1; i >= len; --i) {
            const Point& p = E.pts[i];
            for (int alt = p.n - 1; alt >= 1; --alt) {
                int cost = p.cost_before + ((p.costmask >> alt) & 1);
                if (cost > w.bound) continue;
                std::vector<uint8_t> child(E.choices, E.choices + i);
                child.push_back(static_cast<uint8_t>(alt));
                push_prefix(child.data(), static_cast<int>(child.size()));
            }
        }
        --SH->inflight;
        if (w.opt->max_schedules && SH->schedules >= w.opt->max_schedules) SH->stop = 3;
        sh_unlock();
    }
}

}  // namespace

Stats Main::run(const std::string& cfg, const std::function<void()>& body, const Options& opt) {
    Stats st;
    if (!wants(cfg)) return st;
    if (opt.min_bound == 0 || m->replay) ++m->configs;
    if (!m->script_path.empty()) {
        // model -> implementation conformance: every line "<cfg>\t<script>\t<expected outcome>" of the file whose cfg is this one is
        // executed on the real code with the scheduler following the script step by step (one forked child per script)
        if (opt.min_bound != 0) return st;
        FILE* f = fopen(m->script_path.c_str(), "r");
        if (!f) { perror("script file"); exit(3); }
        char* line = nullptr; size_t cap = 0; ssize_t len; uint64_t idx = 0, ok = 0, bad = 0;
        while ((len = getline(&line, &cap, f)) > 0) {
            std::string l(line, static_cast<size_t>(len));
            while (!l.empty() && (l.back() == '\n' || l.back() == '\r')) l.pop_back();
            size_t t1 = l.find('\t'), t2 = l.find('\t', t1 + 1);
            if (t1 == std::string::npos || l.substr(0, t1) != cfg) continue;
            std::string sc = l.substr(t1 + 1, t2 == std::string::npos ? std::string::npos : t2 - t1 - 1), want = t2 == std::string::npos ? "" : l.substr(t2 + 1);
            std::vector<uint16_t> script;
            for (size_t p = 0; p < sc.size();) {
                while (p < sc.size() && sc[p] == ' ') ++p;
                if (p >= sc.size()) break;
                const int kind = sc[p] == 'r' ? 0 : sc[p] == 't' ? 1 : sc[p] == 's' ? 2 : 3;
                script.push_back(static_cast<uint16_t>((kind << 8) | atoi(sc.c_str() + p + 1)));
                while (p < sc.size() && sc[p] != ' ') ++p;
            }
            ++idx;
            fflush(stdout);
            pid_t pid = fork();
            if (pid == 0) {
                g_script = &script;
                RunResult rr;
                run_once(body, nullptr, 0, opt, rr, false);
                std::string v = "OK";
                if (!rr.fails.empty()) v = "FAIL oracle: " + rr.fails[0].first + ": " + rr.fails[0].second;
                else if (!want.empty() && rr.outcome != want) v = "FAIL outcome differs: implementation '" + rr.outcome + "' model '" + want + "'";
                emit("SCRIPT\t" + cfg + "\t" + std::to_string(idx) + "\t" + clean(v, 600));
                _exit(v == "OK" ? 0 : 71);
            }
            int status = 0; waitpid(pid, &status, 0);
            if (WIFEXITED(status) && WEXITSTATUS(status) == 0) ++ok; else { ++bad; if (!(WIFEXITED(status) && (WEXITSTATUS(status) == 71 || WEXITSTATUS(status) == 70))) emit("SCRIPT\t" + cfg + "\t" + std::to_string(idx) + "\tFAIL child died, status " + std::to_string(status)); }
        }
        free(line); fclose(f);
        emit("SCRIPTS\t" + cfg + "\t" + std::to_string(ok) + "\t" + std::to_string(bad));
        return st;
    }
    if (m->replay) {
        g_replay_print = true;
        RunResult rr;
        fprintf(stderr, "replaying cfg=%s choices=%s\n", cfg.c_str(), choices_str(m->replay_choices.data(), static_cast<int>(m->replay_choices.size())).c_str());
        run_once(body, m->replay_choices.data(), static_cast<int>(m->replay_choices.size()), opt, rr, false);
        fprintf(stderr, "outcome: %s\n", rr.outcome.c_str());
        report_fails(cfg, rr, E.choices, rr.npts);
        return st;
    }
    size_t bytes = sizeof(Shared) + STACK_BYTES;
    for (int bound = opt.min_bound; bound <= opt.max_bound; ++bound) {
        if (m->expired()) { emit("BOUND\t" + cfg + " deviations<=" + std::to_string(bound) + "\t0"); break; }
        SH = static_cast<Shared*>(mmap(nullptr, bytes, PROT_READ | PROT_WRITE, MAP_SHARED | MAP_ANONYMOUS | MAP_NORESERVE, -1, 0));
        if (SH == MAP_FAILED) { perror("mmap"); exit(3); }
        uint8_t dummy = 0;
        push_prefix(&dummy, 0);
        int nw = std::min(opt.workers, MAXW);
        std::vector<pid_t> pids(nw, 0);
        auto spawn = [&](int slot) {
            fflush(stdout); fflush(stderr);
            pid_t p = fork();
            if (p == 0) { WorkerCtx w{&body, &opt, bound, cfg, slot}; worker_loop(w); fflush(stdout); _exit(0); }
            pids[slot] = p;
        };
        for (int i = 0; i < nw; ++i) spawn(i);
        std::vector<uint64_t> lastbeat(nw, ~0ull);
        std::vector<std::chrono::steady_clock::time_point> lastchange(nw, std::chrono::steady_clock::now());
        int alive = nw; bool capped = false;
        while (alive > 0) {
            usleep(2000);
            if (m->expired() && !SH->stop) { SH->stop = 1; }
            for (int i = 0; i < nw; ++i) {
                if (!pids[i]) continue;
                int status = 0;
                pid_t r = waitpid(pids[i], &status, WNOHANG);
                bool hung = false;
                if (r == 0) {
                    WorkerSlot& s = SH->slots[i];
                    if (s.beat != lastbeat[i] || !s.running) { lastbeat[i] = s.beat; lastchange[i] = std::chrono::steady_clock::now(); continue; }
                    if (std::chrono::duration<double>(std::chrono::steady_clock::now() - lastchange[i]).count() < opt.exec_timeout_s) continue;
                    kill(pids[i], SIGKILL); waitpid(pids[i], &status, 0); hung = true;
                }
                pids[i] = 0; --alive;
                if (!hung && WIFEXITED(status) && WEXITSTATUS(status) == 0) continue;
                // the worker died inside an execution: attribute to its current prefix
                WorkerSlot& s = SH->slots[i];
                std::string key, msg;
                if (s.fatal) { key = s.fatal_key; msg = s.fatal_msg; }
                else if (hung) { key = "hang/no-scheduling-step-for-" + std::to_string(static_cast<int>(opt.exec_timeout_s)) + "s"; msg = "a managed thread ran without reaching a synchronisation point"; }
                else if (WIFSIGNALED(status)) { key = "crash/signal-" + std::to_string(WTERMSIG(status)); msg = "worker died inside an execution"; }
                else { key = "crash/exit-" + std::to_string(WEXITSTATUS(status)); msg = "worker exited inside an execution"; }
                std::string ch = choices_str(s.prefix, s.prefix_len);
                emit("VIOL\t" + clean(key, 300) + "\t" + clean(msg, 1500) + " [cfg=" + cfg + " schedule-prefix=" + ch + "]\t" + cfg + "|" + ch);
                ++st.fatal;
                if (st.fatal >= 24 && !SH->stop) SH->stop = 4;      // the same failure over and over (e.g. already in every worker's warm-up run): the configuration is reported, not retried forever
                s.fatal = 0; s.running = 0;
                sh_lock(); if (SH->inflight > 0) --SH->inflight; sh_unlock();
                if (SH->lock) { /* a worker cannot die holding the lock: it only dies inside run_once */ }
                if (!SH->stop) { spawn(i); ++alive; lastbeat[i] = ~0ull; lastchange[i] = std::chrono::steady_clock::now(); }
            }
        }
        capped = SH->stop != 0;
        st.schedules += SH->schedules; st.transitions += SH->transitions; st.states = std::max<uint64_t>(st.states, uint64_t(SH->states));
        st.deviating += SH->deviating; st.timeouts += SH->timeouts; st.points_max = std::max<uint64_t>(st.points_max, uint64_t(SH->points_max));
        st.replays_checked += SH->replays_checked;
        emit("COV\tschedules_with_timeout_transition\t" + std::to_string(SH->sched_with_timeout));
        emit("NOTE\t[" + std::to_string(static_cast<int>(std::chrono::duration<double>(std::chrono::steady_clock::now() - m->t0).count())) + "s] " + cfg + " bound " + std::to_string(bound) + ": " + std::to_string(SH->schedules) + " schedules, " + std::to_string(SH->transitions) + " transitions, " + std::to_string(SH->states) + " states, max " + std::to_string(SH->points_max) + " decision points" + (capped ? " (capped)" : ""));
        emit("BOUND\t" + cfg + " deviations<=" + std::to_string(bound) + "\t" + (capped ? "0" : "1"));
        munmap(SH, bytes);
        SH = nullptr;
        if (capped) break;
        st.bound_completed = bound;
    }
    m->total.schedules += st.schedules; m->total.transitions += st.transitions; m->total.states += st.states;
    m->total.deviating += st.deviating; m->total.timeouts += st.timeouts; m->total.replays_checked += st.replays_checked;
    m->total.points_max = std::max(m->total.points_max, st.points_max); m->total.fatal += st.fatal;
    return st;
}

int Main::finish() {
    if (m->replay || !m->script_path.empty()) return 0;
    emit("COV\tevaluations\t" + std::to_string(m->total.schedules));
    emit("COV\tdistinct_nontrivial\t" + std::to_string(m->total.deviating));
    emit("COV\tstates\t" + std::to_string(m->total.states));
    emit("COV\ttransitions\t" + std::to_string(m->total.transitions));
    emit("COV\ttraces_validated_against_impl\t" + std::to_string(m->total.schedules));
    emit("COV\ttimeout_transitions\t" + std::to_string(m->total.timeouts));
    emit("COV\tdeterminism_replays\t" + std::to_string(m->total.replays_checked));
    emit("COV\tconfigurations\t" + std::to_string(m->configs));
    emit("MAX\tmax_decision_points\t" + std::to_string(m->total.points_max));
    return 0;
}

}  // namespace vsched
