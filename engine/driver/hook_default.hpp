// force-included into every harness translation unit: a weak no-op definition of the scheduling
// point hook, overridden by the strong definition in engine/vsched/vsched.cpp where that is linked.
#ifndef VERIF_HOOK_DEFAULT_HPP
#define VERIF_HOOK_DEFAULT_HPP
#ifndef VERIF_NO_DEFAULT_HOOK
extern "C" __attribute__((weak)) void osmium_verif_sched_point(const char*) {}
#endif
#endif
