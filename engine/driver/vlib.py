"""Driver library for /verif/bin/check.

A check lives in checks/<ID>/check.py and defines
    LEVEL      one of exploration | fault_enumeration | model_checking
    RULE       text: how cases are enumerated / what counts as distinct non-trivial
    run(ctx)   builds harnesses from /repo's working tree, runs them, feeds ctx
Harness executables talk to the driver through a line protocol on stdout (tab separated):
    COV  <key> <int>        summed over shards
    MAX  <key> <int>        maximum over shards
    SET  <key> <string>     distinct strings are counted -> coverage[key]
    SAMPLE <text>           an explored case written out (capped)
    VIOL <class_key> <detail> <replay-spec>
    BOUND <name> <0|1>      a bound of the enumeration and whether it ran to completion
    NOTE <text>
"""
import hashlib
import json
import os
import subprocess
import sys
import time

VERIF = os.path.dirname(os.path.dirname(os.path.dirname(os.path.abspath(__file__))))
REPO = os.environ.get("VERIF_REPO", "/repo")
BUILD = os.path.join(VERIF, "build")
GUARD = "OSMIUM_VERIF_HOOKS"
NCPU = os.cpu_count() or 4

BASE_FLAGS = ["-std=c++14", "-DOSMIUM_WITH_LZ4", "-D_FILE_OFFSET_BITS=64", "-D_LARGEFILE_SOURCE",
              "-D" + GUARD, "-Wno-deprecated-declarations", "-Wno-parentheses", "-g1",
              "-I" + os.path.join(REPO, "include"), "-I" + os.path.join(VERIF, "engine"),
              "-include", os.path.join(VERIF, "engine", "driver", "hook_default.hpp")]
BASE_LIBS = ["-lz", "-lbz2", "-lexpat", "-llz4", "-lpthread"]


class HarnessError(Exception):
    """The machinery itself failed (not a property verdict)."""


class BuildError(Exception):
    pass


_tree_hash_cache = {}


def tree_hash(root):
    if root in _tree_hash_cache:
        return _tree_hash_cache[root]
    h = hashlib.sha1()
    for d, dirs, files in sorted(os.walk(root)):
        dirs[:] = sorted(x for x in dirs if x != "__pycache__")      # byte-code caches are not sources
        for f in sorted(files):
            if f.endswith((".pyc", ".pyo", ".swp")) or f.endswith("~"):
                continue
            p = os.path.join(d, f)
            h.update(p.encode())
            with open(p, "rb") as fh:
                h.update(hashlib.sha1(fh.read()).digest())
    _tree_hash_cache[root] = h.hexdigest()
    return _tree_hash_cache[root]


def file_hash(paths):
    h = hashlib.sha1()
    for p in paths:
        with open(p, "rb") as fh:
            h.update(p.encode())
            h.update(fh.read())
    return h.hexdigest()


class Ctx:
    def __init__(self, prop, tier, seed, deadline_s, level, rule):
        self.prop = prop
        self.tier = tier
        self.seed = seed
        self.t0 = time.time()
        self.deadline = self.t0 + deadline_s
        self.level = level
        self.rule = rule
        self.cov = {}
        self.maxes = {}
        self.sets = {}
        self.samples = []
        self.violations = []   # dicts: key, detail, harness, spec
        self.bounds = []       # (name, complete)
        self.notes = []
        self.assumptions = []
        self.extra = {}
        self.checkdir = os.path.join(VERIF, "checks", prop)
        self.sample_cap = 24

    # ---------------------------------------------------------------- time
    def remaining(self):
        return max(0.0, self.deadline - time.time())

    def expired(self):
        return time.time() >= self.deadline

    # ---------------------------------------------------------------- build
    def build(self, name, sources, flags=(), asan=False, ndebug=True, opt="-O2", compiler="g++",
              libs=(), tsan=False, objects=(), repo_dependent=True):
        """Compile a harness from /repo's current working tree; cached by content hash."""
        srcs = [s if os.path.isabs(s) else os.path.join(self.checkdir, s) for s in sources]
        allflags = list(BASE_FLAGS) + [opt] + list(flags)
        if ndebug:
            allflags.append("-DNDEBUG")
        if asan:
            allflags += ["-fsanitize=address", "-fno-omit-frame-pointer"]
        if tsan:
            allflags += ["-fsanitize=thread"]
        engine_h = [tree_hash(os.path.join(VERIF, "engine", d)) for d in ("benum", "vsched", "faultio", "ref")
                    if os.path.isdir(os.path.join(VERIF, "engine", d))]
        key = hashlib.sha1(json.dumps([
            tree_hash(os.path.join(REPO, "include")) if repo_dependent else "",
            engine_h, file_hash(srcs), allflags, list(libs), compiler, list(objects),
            tree_hash(self.checkdir)]).encode()).hexdigest()[:20]
        os.makedirs(BUILD, exist_ok=True)
        exe = os.path.join(BUILD, "%s-%s-%s" % (self.prop, name, key))
        if os.path.exists(exe):
            os.utime(exe)
            return exe
        tmp = exe + ".tmp%d" % os.getpid()
        cmd = [compiler] + allflags + srcs + list(objects) + ["-o", tmp] + list(libs) + BASE_LIBS
        t = time.time()
        r = subprocess.run(cmd, stdout=subprocess.PIPE, stderr=subprocess.STDOUT, text=True)
        if r.returncode != 0:
            raise BuildError("build of %s failed:\n%s\n%s" % (name, " ".join(cmd), r.stdout[-6000:]))
        os.rename(tmp, exe)
        self.notes.append("built %s in %.1fs" % (name, time.time() - t))
        # drop stale builds of the same harness
        prefix = "%s-%s-" % (self.prop, name)
        for f in os.listdir(BUILD):
            if f.startswith(prefix) and os.path.join(BUILD, f) != exe and ".tmp" not in f:
                try:
                    # a build used within the last hour may belong to a concurrent run against another tree (VERIF_REPO)
                    if time.time() - os.path.getmtime(os.path.join(BUILD, f)) < 3600:
                        continue
                    os.unlink(os.path.join(BUILD, f))
                except OSError:
                    pass
        return exe

    def build_obj(self, name, source, flags=(), opt="-O2", compiler="g++"):
        """Compile one engine source into an object file (no sanitizer, no default hook)."""
        src = source if os.path.isabs(source) else os.path.join(VERIF, source)
        allflags = [f for f in BASE_FLAGS if f != "-DNDEBUG"] + [opt, "-DVERIF_NO_DEFAULT_HOOK", "-fPIC"] + list(flags)
        key = hashlib.sha1(json.dumps([file_hash([src]), tree_hash(os.path.dirname(src)), allflags, compiler]).encode()).hexdigest()[:20]
        os.makedirs(BUILD, exist_ok=True)
        obj = os.path.join(BUILD, "obj-%s-%s.o" % (name, key))
        if os.path.exists(obj):
            os.utime(obj)
            return obj
        tmp = obj + ".tmp%d.o" % os.getpid()
        cmd = [compiler] + allflags + ["-c", src, "-o", tmp]
        r = subprocess.run(cmd, stdout=subprocess.PIPE, stderr=subprocess.STDOUT, text=True)
        if r.returncode != 0:
            raise BuildError("build of %s failed:\n%s\n%s" % (name, " ".join(cmd), r.stdout[-6000:]))
        os.rename(tmp, obj)
        return obj

    def atomic_points(self):
        """compiler flags that wrap every std::atomic of the library under test with a scheduling point (engine/vsched/atomic_points.hpp)"""
        return ["-include", os.path.join(VERIF, "engine", "vsched", "atomic_points.hpp")]

    def vsched_obj(self):
        return self.build_obj("vsched", "engine/vsched/vsched.cpp")

    def build_tsan_free(self, name, sources, flags=()):
        """The same harness bodies, free-running on real threads under ThreadSanitizer (no scheduler)."""
        return self.build(name, list(sources) + [os.path.join(VERIF, "engine", "vsched", "vsched_free.cpp")],
                          flags=list(flags) + ["-DVERIF_NO_DEFAULT_HOOK", "-DVSCHED_FREE"], opt="-O1", compiler="clang++", tsan=True)

    def build_many(self, specs):
        """specs: list of dict(kwargs for build). Builds in parallel; returns list of exes."""
        from concurrent.futures import ThreadPoolExecutor
        with ThreadPoolExecutor(max_workers=min(len(specs), NCPU)) as ex:
            futs = [ex.submit(lambda s=s: self.build(**s)) for s in specs]
            return [f.result() for f in futs]

    # ---------------------------------------------------------------- protocol
    def feed_line(self, line, harness=None):
        parts = line.rstrip("\n").split("\t")
        tag = parts[0]
        try:
            if tag == "COV":
                self.cov[parts[1]] = self.cov.get(parts[1], 0) + int(parts[2])
            elif tag == "MAX":
                self.maxes[parts[1]] = max(self.maxes.get(parts[1], 0), int(parts[2]))
            elif tag == "SET":
                self.sets.setdefault(parts[1], set()).add(parts[2])
            elif tag == "SAMPLE":
                smp = parts[1] if len(parts) == 2 else parts[1:]
                if len(self.samples) < self.sample_cap and smp not in self.samples:
                    self.samples.append(smp)
            elif tag == "VIOL":
                self.violation(parts[1], parts[2] if len(parts) > 2 else "",
                               harness=harness, spec=parts[3] if len(parts) > 3 else "")
            elif tag == "BOUND":
                self.bound(parts[1], parts[2] == "1")
            elif tag == "NOTE":
                if len(self.notes) < 200:
                    self.notes.append(parts[1])
        except (IndexError, ValueError):
            raise HarnessError("malformed protocol line from %s: %r" % (harness, line))

    def violation(self, key, detail, harness=None, spec=""):
        for v in self.violations:
            if v["key"] == key:
                v["count"] += 1
                return
        self.violations.append({"key": key, "detail": detail, "harness": harness, "spec": spec, "count": 1,
                                "cmd": getattr(self, "_cur_cmd", None), "env": getattr(self, "_cur_env", None)})

    def sample(self, s):
        if len(self.samples) < self.sample_cap:
            self.samples.append(s)

    def add(self, key, n=1):
        self.cov[key] = self.cov.get(key, 0) + n

    def bound(self, name, complete=True):
        # a bound reported by several shards is complete iff every shard completed it
        for i, (n, c) in enumerate(self.bounds):
            if n == name:
                self.bounds[i] = (n, c and bool(complete))
                return
        self.bounds.append((name, bool(complete)))

    def assume(self, text):
        if text not in self.assumptions:
            self.assumptions.append(text)

    # ---------------------------------------------------------------- running harnesses
    def run_harness(self, exe, args=(), shards=1, env=None, timeout=None, allow_fail=False, stdin=None):
        """Run exe (optionally sharded: adds --shard i/n), parse the protocol. A non-zero exit is a
        harness error unless allow_fail."""
        if timeout is None:
            timeout = self.remaining() + 60
        envd = dict(os.environ)
        envd.setdefault("ASAN_OPTIONS", "detect_leaks=0:abort_on_error=0:allocator_may_return_null=1")
        if env:
            envd.update(env)
        base = [exe, "--tier", self.tier, "--deadline", "%d" % max(1, int(self.remaining())),
                "--seed", str(self.seed)] + list(args)
        procs = []
        for i in range(shards):
            cmd = base + (["--shard", "%d/%d" % (i, shards)] if shards > 1 else [])
            procs.append(subprocess.Popen(cmd, stdout=subprocess.PIPE, stderr=subprocess.PIPE, env=envd,
                                          stdin=subprocess.DEVNULL, text=True, errors="replace"))
        import threading
        outs = [None] * len(procs)

        def reap(i, p):
            try:
                outs[i] = p.communicate(timeout=timeout)
            except subprocess.TimeoutExpired:
                p.kill()
                o = p.communicate()
                outs[i] = (o[0], o[1] + "\n[driver] killed after %.0fs" % timeout)
        ths = [threading.Thread(target=reap, args=(i, p)) for i, p in enumerate(procs)]
        for t in ths:
            t.start()
        for t in ths:
            t.join()
        name = os.path.basename(exe).rsplit("-", 1)[0]
        for i, p in enumerate(procs):
            out, err = outs[i]
            self._cur_cmd = base + (["--shard", "%d/%d" % (i, shards)] if shards > 1 else [])
            self._cur_env = env
            for line in out.splitlines():
                if line:
                    self.feed_line(line, harness=exe)
            self._cur_cmd = None
            if p.returncode != 0 and "[driver] killed after" in err:
                # the driver's own wall-clock limit ended this process (slow machine / remaining tier time used up): that is a cap of
                # the enumeration, never a verdict - hangs of the code under test are detected inside the harnesses (scheduler watchdog,
                # benum::run_isolated with its re-run-alone rule), not by this limit
                self.bound("%s %s: stopped by the driver's time limit" % (name, " ".join(a for a in args if not a.startswith("/"))[:80]), False)
                self.notes.append("driver time limit hit for %s shard %d (%s)" % (name, i, " ".join(base[1:])[:200]))
                continue
            if p.returncode != 0 and not allow_fail and "WARNING: ThreadSanitizer:" in err:
                # free-running TSan companion: every distinct SUMMARY line is a finding class
                import re
                seen = set()
                for mm in re.finditer(r"SUMMARY: ThreadSanitizer: ([^\n]*)", err):
                    line = mm.group(1)
                    kind = line.split(" /")[0].split(" (")[0].strip()
                    fn = line.split(" in ", 1)[1].strip() if " in " in line else "?"
                    fn = re.sub(r"\(.*", "", fn)
                    key = "tsan/%s@%s" % (kind.replace(" ", "-"), fn)
                    if key not in seen:
                        seen.add(key)
                        q = err.find(line)
                        start = err.rfind("WARNING: ThreadSanitizer", 0, q)
                        self.violation(key, "free-running ThreadSanitizer pass: " + err[start:start + 1500].replace("\n", " | "), harness=None, spec="")
            elif p.returncode != 0 and not allow_fail and (p.returncode < 0 or "AddressSanitizer" in err
                                                         or "Assertion `" in err or "terminate called" in err):
                # the harness process itself died on the code under test: that is a finding about the
                # tree (the harness is known not to crash on the unchanged tree), not a machinery error
                what = "signal%d" % -p.returncode if p.returncode < 0 else "exit%d" % p.returncode
                kind = ""
                for marker in ("ERROR: AddressSanitizer: ", "Assertion `", "terminate called"):
                    q = err.find(marker)
                    if q >= 0:
                        kind = err[q:q + 160].split("\n")[0]
                        break
                self.violation("crash/%s/%s" % (name, what), "harness process died: %s | %s | args=%s" %
                               (what, kind, " ".join(base[1:])), harness=None, spec="")
            elif p.returncode != 0 and not allow_fail:
                raise HarnessError("harness %s shard %d exited %s\nargs=%s\nstderr tail:\n%s" %
                                   (name, i, p.returncode, " ".join(base[1:]), err[-3000:]))
        return [p.returncode for p in procs]

    def replay_harness(self, exe, spec, env=None, timeout=600):
        """Run one artefact; returns list of (key, detail)."""
        envd = dict(os.environ)
        envd.setdefault("ASAN_OPTIONS", "detect_leaks=0:abort_on_error=0:allocator_may_return_null=1")
        if env:
            envd.update(env)
        r = subprocess.run([exe, "--tier", self.tier, "--replay", spec], stdout=subprocess.PIPE,
                           stderr=subprocess.PIPE, text=True, errors="replace", env=envd, timeout=timeout)
        res = []
        for line in r.stdout.splitlines():
            parts = line.split("\t")
            if parts[0] == "VIOL":
                res.append((parts[1], parts[2] if len(parts) > 2 else ""))
        return res, r


# -------------------------------------------------------------------- known findings

def load_known(prop):
    """known_findings.txt:  'finding: property=<id> key=<class_key> :: <what fails>'
                            'fixed: property=<id> <commit> <what failed>'   (documentation only)"""
    res = {}
    p = os.path.join(VERIF, "known_findings.txt")
    if not os.path.exists(p):
        return res
    for line in open(p):
        line = line.strip()
        if not line.startswith("finding:"):
            continue
        body = line[len("finding:"):].strip()
        head, _, desc = body.partition(" :: ")
        fields = dict(f.split("=", 1) for f in head.split() if "=" in f)
        if fields.get("property") == prop and "key" in fields:
            res[fields["key"]] = desc.strip()
    return res


# -------------------------------------------------------------------- evidence

def validate_evidence(ev):
    schema_path = "/root/.vp/EVIDENCE.schema.json"
    try:
        import jsonschema
        if os.path.exists(schema_path):
            jsonschema.validate(ev, json.load(open(schema_path)))
            return
    except ImportError:
        pass
    # minimal manual validation (mirrors the schema's required keys)
    for k in ("property_id", "tier", "seed", "level", "coverage", "wall_s"):
        if k not in ev:
            raise HarnessError("evidence lacks " + k)
    c = ev["coverage"]
    if ev["level"] in ("exploration", "fault_enumeration"):
        if not (c.get("evaluations", 0) >= 1 and c.get("distinct_nontrivial", 0) >= 2 and c.get("samples")
                and isinstance(c.get("rule"), str)):
            raise HarnessError("evidence coverage incomplete for level " + ev["level"])
    if ev["level"] == "model_checking":
        if not (c.get("states", 0) >= 1 and c.get("transitions", 0) >= 1 and c.get("samples")
                and "traces_validated_against_impl" in c):
            raise HarnessError("evidence coverage incomplete for model_checking")


def default_replay(mod, ctx, rec):
    """Replay a recorded artefact without the explorer: `<harness> --replay <spec>`."""
    exes = mod.build(ctx)
    if rec.get("harness") not in exes:
        raise HarnessError("replay file names unknown harness %r" % rec.get("harness"))
    got, r = ctx.replay_harness(exes[rec["harness"]], rec["spec"])
    sys.stdout.write(r.stdout[-4000:])
    rc = rec.get("replay_cmd")
    if rc and not any(k == rec["key"] for k, _ in got):
        # recorded as "fails only within its part": run the part again with the harness built from the current tree
        cmd = [exes[rec["harness"]]] + list(rc["cmd"][1:])
        keys = rerun_part_keys(cmd, rc.get("env"))
        print("replay of the part: %s -> %s" % (" ".join(cmd[1:]), keys[:5]))
        if rec["key"] in keys or (rc.get("match") == "any" and keys):
            got = list(got) + [(rec["key"], "the part fails again: " + ", ".join(keys[:3]))]
    return got


def rerun_part_keys(cmd, env=None):
    """Run a recorded harness invocation once more (same arguments and shard); returns the class keys of the violations it reports."""
    envd = dict(os.environ)
    envd.setdefault("ASAN_OPTIONS", "detect_leaks=0:abort_on_error=0:allocator_may_return_null=1")
    if env:
        envd.update(env)
    try:
        r = subprocess.run(cmd, stdout=subprocess.PIPE, stderr=subprocess.DEVNULL, text=True, errors="replace", env=envd, timeout=900)
    except subprocess.TimeoutExpired:
        return []
    keys = []
    for line in r.stdout.splitlines():
        parts = line.split("\t")
        if parts[0] == "VIOL" and len(parts) > 1 and parts[1] not in keys:
            keys.append(parts[1])
    return keys


def finish(ctx, replay_fn=None):
    """Replay + classify violations, write evidence, print verdict lines, return exit code."""
    known = load_known(ctx.prop)
    rdir = os.path.join(VERIF, "replay", ctx.prop)
    unknown = []
    known_hit = []
    for v in ctx.violations:
        if v["key"] in known:
            known_hit.append(v)
        else:
            unknown.append(v)
    # replay every unknown violation before reporting it
    for v in unknown:
        if v.get("harness") and v.get("spec"):
            got, r = ctx.replay_harness(v["harness"], v["spec"])
            keys = [k for k, _ in got]
            if v["key"] not in keys:
                # second attempt before giving up
                got, r = ctx.replay_harness(v["harness"], v["spec"])
                keys = [k for k, _ in got]
            if v["key"] not in keys and keys:
                # The case fails again on replay, but with a different symptom (a race in the code under test shows as different
                # wrong outputs from run to run). It is a reproduced failure of this case: report it under the key the replay gave.
                v["detail"] = "[first seen as %s; the replay of the same case failed as %s] %s" % (v["key"], keys[0], v["detail"])
                v["key"] = keys[0]
            elif v["key"] not in keys and v.get("cmd"):
                again = [k for k in rerun_part_keys(v["cmd"], v.get("env")) if k not in known]
                if not again and "--shard" in v["cmd"]:
                    # symptoms that vary from run to run also move between shards: run the whole part in one process
                    i = v["cmd"].index("--shard")
                    v["cmd"] = v["cmd"][:i] + v["cmd"][i + 2:]
                    again = [k for k in rerun_part_keys(v["cmd"], v.get("env")) if k not in known]
                shown = " ".join(os.path.basename(x) if x.startswith("/") else x for x in v["cmd"])
                if v["key"] in again:
                    # Not reproducible in isolation, but the same enumeration part run again reports the same class: the failure depends
                    # on the cases executed before it in the same process (state kept between calls by the code under test - a cache,
                    # errno, a static buffer). That is a deterministic failure of the tree; its replay is the part's command line.
                    v["detail"] = "[fails only after the preceding cases of the same run, not in isolation; reproduced by running `%s` again] %s" % (shown, v["detail"])
                    v["replay_cmd"] = {"cmd": v["cmd"], "env": v.get("env"), "match": "same"}
                elif again:
                    # The part fails again, every time with other symptoms (the code under test reads indeterminate or freed memory, or
                    # races): the failure of the part is reproducible, the individual case is not. Reported once under the first key.
                    v["detail"] = "[symptoms vary from run to run: running `%s` again failed as %s; the part fails every time, the single case does not replay] %s" % (shown, again[0], v["detail"])
                    v["replay_cmd"] = {"cmd": v["cmd"], "env": v.get("env"), "match": "any"}
                else:
                    v["unreproduced"] = ("violation %s did not reproduce on replay (spec=%s) nor when its part was run again - harness nondeterminism; "
                                         "replay printed %r\n%s" % (v["key"], v["spec"], keys, r.stderr[-2000:]))
            elif v["key"] not in keys:
                raise HarnessError("violation %s did not reproduce on replay (spec=%s) - harness nondeterminism; "
                                   "replay printed %r\n%s" % (v["key"], v["spec"], keys, r.stderr[-2000:]))
    # A report that reproduces neither alone nor with its part is not a verdict. If it is the only kind of report, the run has failed as a
    # measurement (exit 2). If other violations of the same run DO reproduce, the tree is reported for those (a race in the code under
    # test typically shows as one deterministic failure under the scheduler plus chance hits on real threads that cannot be replayed).
    lost = [v for v in unknown if v.get("unreproduced")]
    if lost and len(lost) == len(unknown):
        raise HarnessError(lost[0]["unreproduced"])
    for v in lost:
        ctx.notes.append("not counted (seen once, did not reproduce): %s [%s]" % (v["key"], v["spec"]))
        print("note: %s was reported once and did not reproduce (spec=%s); not counted" % (v["key"], v["spec"]))
    unknown = [v for v in unknown if not v.get("unreproduced")]
    complete = all(c for _, c in ctx.bounds) and not ctx.expired()
    cov = dict(ctx.cov)
    cov.update(ctx.maxes)
    for k, s in ctx.sets.items():
        cov[k] = len(s)
        if len(s) <= 40:
            cov[k + "_values"] = sorted(s)
    cov.update(ctx.extra)
    cov.setdefault("evaluations", 0)
    cov.setdefault("distinct_nontrivial", 0)
    cov["rule"] = ctx.rule
    cov["samples"] = ctx.samples
    cov["exhaustive"] = bool(complete and ctx.bounds)
    cov["bounds_completed"] = [n for n, c in ctx.bounds if c]
    cov["bounds_capped"] = [n for n, c in ctx.bounds if not c]
    cov["known_findings_seen"] = sorted(v["key"] for v in known_hit)
    cov["notes"] = ctx.notes[:60]
    if ctx.level == "model_checking":
        cov.setdefault("states", 0)
        cov.setdefault("transitions", 0)
        cov.setdefault("traces_validated_against_impl", 0)
    ev = {"property_id": ctx.prop, "tier": ctx.tier, "seed": ctx.seed, "level": ctx.level,
          "coverage": cov, "assumptions": ctx.assumptions, "wall_s": round(time.time() - ctx.t0, 2),
          "violations": len(unknown)}
    validate_evidence(ev)
    os.makedirs(os.path.join(VERIF, "evidence"), exist_ok=True)
    tmp = os.path.join(VERIF, "evidence", ctx.prop + ".json.tmp")
    with open(tmp, "w") as fh:
        json.dump(ev, fh, indent=1, sort_keys=True)
        fh.write("\n")
    os.rename(tmp, os.path.join(VERIF, "evidence", ctx.prop + ".json"))
    for v in known_hit:
        print("KNOWN-FINDING: property=%s %s [key=%s, %d case(s)]" % (ctx.prop, known[v["key"]], v["key"], v["count"]))
    for k in known:
        if k not in [v["key"] for v in known_hit]:
            print("note: listed finding not observed in this tier: %s" % k)
    if unknown:
        os.makedirs(rdir, exist_ok=True)
        for v in unknown:
            path = os.path.join(rdir, hashlib.sha1(v["key"].encode()).hexdigest()[:12] + ".replay")
            with open(path, "w") as fh:
                json.dump({"property": ctx.prop, "key": v["key"], "detail": v["detail"],
                           "harness": os.path.basename(v["harness"]).rsplit("-", 1)[0].split("-", 1)[-1] if v.get("harness") else None,
                           "spec": v["spec"], "count": v["count"], "replay_cmd": v.get("replay_cmd")}, fh, indent=1)
                fh.write("\n")
            print("VIOLATION property=%s replay=%s" % (ctx.prop, path))
            print("  key=%s (%d case(s))\n  detail=%s" % (v["key"], v["count"], v["detail"][:1500]))
        return 1
    print("OK property=%s tier=%s level=%s evaluations=%s distinct_nontrivial=%s exhaustive=%s wall=%.1fs" %
          (ctx.prop, ctx.tier, ctx.level, cov.get("evaluations"), cov.get("distinct_nontrivial"),
           cov["exhaustive"], time.time() - ctx.t0))
    return 0
