/* Promela model of osmium::thread::Queue<int> under the closed drivers of checks/C19/h19.cpp (queue_body).
 *
 * Granularity: ONE ATOMIC STEP OF A PROCESS = ONE SCHEDULING STEP OF vsched (engine/vsched): the thread is granted its
 * pending operation (start, hook point, mutex lock, condition-wait entry, re-acquisition after a wake-up, join) and runs to
 * its next pending operation. A timeout of a timed wait is a step of kind 't'. notify_one with more than one waiter makes a
 * recorded choice ('s'). Thread ids are creation ordinals: 0 main, then producers, consumers, try_pop thread, shutdown thread.
 *
 * Parameters (-D): K_NP producers, K_PER elements per producer, K_MAXSZ queue bound (0 = unbounded), K_NC consumers with K_POPS0/K_POPS1
 * wait_and_pop calls, K_TRY try_pop attempts (0 = no such thread), K_SHUT (1 = a thread calls shutdown()).
 * Modes (-D): MODE_SAFETY  free exploration of ALL interleavings, assertions = the C19 oracle, invalid end state = deadlock
 *             MODE_PATHS   history variable, every complete path is written to paths.out (model -> implementation replay);
 *                          K_TMAX bounds the number of timeout steps per path
 *             MODE_SCRIPT  every step is guarded by the next entry of a recorded implementation trace (traces.h);
 *                          a trace that reaches the end with the same outcome is marked accepted (implementation -> model)
 */
#ifndef K_NP
#define K_NP 1
#endif
#ifndef K_PER
#define K_PER 1
#endif
#ifndef K_MAXSZ
#define K_MAXSZ 0
#endif
#ifndef K_NC
#define K_NC 1
#endif
#ifndef K_POPS0
#define K_POPS0 1
#endif
#ifndef K_POPS1
#define K_POPS1 1
#endif
#ifndef K_TRY
#define K_TRY 0
#endif
#ifndef K_SHUT
#define K_SHUT 0
#endif
#ifndef K_TMAX
#define K_TMAX 1
#endif
#if K_TRY > 0
#define HASTRY 1
#else
#define HASTRY 0
#endif
#define NT (1 + K_NP + K_NC + HASTRY + K_SHUT)
#define FREE 255
#define QCAP 8
#define HMAX 120

byte owner = FREE;
byte q[QCAP];
byte qlen = 0;
byte maxsize = 0;
bool in_use = true;
byte created = 1;            /* threads 1..created exist (the body has already created thread 1 when it first parks) */
bool done[8];
byte wcond[8];               /* 0 not waiting, 1 waiting on data_available, 2 waiting on space_available, 3 woken: must re-acquire */
bool timedw[8];
bool tmo[8];
byte popped0[QCAP]; byte np0 = 0;
byte popped1[QCAP]; byte np1 = 0;
byte tpopped[QCAP]; byte ntp = 0;
byte rest[QCAP]; byte nrest = 0;
byte logn = 0;               /* entries of the harness log: "woken-empty" per consumer, "shutdown" */
bool finished = false;
byte ntimeouts = 0;

/* Time. libstdc++'s wait_for decides "timeout" by comparing the clock with the deadline AFTER the wake-up, so a producer woken by a
 * signal still leaves wait_for when its deadline has passed meanwhile. vsched's virtual clock only moves in timeout steps
 * (clock = max(clock, deadline of the thread timing out) + 1us; deadline = clock at the wait_for call + 10ms). MODE_PATHS models that
 * clock exactly as a pair (10ms units, 1us units) so that every model path is realisable; the other modes over-approximate it by a
 * nondeterministic choice (keeps the state space finite, is a superset of the implementation's behaviours). */
#ifdef MODE_PATHS
byte ca = 0; byte cb = 0;    /* clock */
byte da[8]; byte db[8];      /* per thread: deadline of the current wait_for */
#define SET_DEADLINE(t)      da[t] = ca + 1; db[t] = cb
#define CLOCK_TIMEOUT(t)     if :: (da[t] > ca || (da[t] == ca && db[t] > cb)) -> ca = da[t]; cb = db[t] :: else -> skip fi; cb++
#define PASSED(t)            (ca > da[t] || (ca == da[t] && cb >= db[t]))
#define MAY_BE_PASSED(t)     PASSED(t)
#define MAY_BE_PENDING(t)    (!PASSED(t))
#else
#define SET_DEADLINE(t)      skip
#define CLOCK_TIMEOUT(t)     skip
#define MAY_BE_PASSED(t)     true
#define MAY_BE_PENDING(t)    true
#endif

#ifdef MODE_PATHS
byte hist[HMAX];
byte hlen = 0;
#define LOG(k, t)    hist[hlen] = (k) * 64 + (t); hlen++
#define SOK(k, t)    true
#define TIMEOUT_OK   (ntimeouts < K_TMAX)
#endif
#ifdef MODE_SAFETY
#define LOG(k, t)    skip
#define SOK(k, t)    true
#define TIMEOUT_OK   true
#endif
#ifdef MODE_SCRIPT
c_decl {
\#include "traces.h"
    extern unsigned char ACCEPTED[];
}
c_code {
    unsigned char ACCEPTED[NTRACES + 1];
    static int MAXPOS_[NTRACES + 1];
    static void note_pos(void) { static int reg = 0; if (now.pos > MAXPOS_[now.tr]) MAXPOS_[now.tr] = now.pos; }
}
int tr = 0;                  /* which recorded trace this run follows */
short pos = 0;
byte nxt = 255;              /* the next entry of the recorded trace (255 = trace consumed); kept in the state so guards are plain Promela */
#define SOK(k, t)    (nxt == (k) * 64 + (t))
#define LOG(k, t)    pos++; c_code { now.nxt = now.pos < TRLEN[now.tr] ? TRACE[now.tr][now.pos] : 255; note_pos(); }
#define TIMEOUT_OK   true
#endif

/* ---- embedded C: canonical outcome string (same format as queue_body's vsched::observe) and path / acceptance bookkeeping.
 * These functions only READ the model state; their side effects (a file, the ACCEPTED array) are outside the state vector. */
#if defined(MODE_PATHS) || defined(MODE_SCRIPT)
c_code {
\#include <stdio.h>
\#include <string.h>
\#include <stdlib.h>
static int seq_str(char* b, unsigned char* a, int n) {
    int k = 0, i;
    b[k++] = '[';
    for (i = 0; i < n; ++i) k += sprintf(b + k, i ? ",%d" : "%d", a[i]);
    b[k++] = ']'; b[k] = 0;
    return k;
}
static void outcome_str(char* b) {
    int k = sprintf(b, "popped=");
    if (K_NC >= 1) k += seq_str(b + k, now.popped0, now.np0);
    if (K_NC >= 2) k += seq_str(b + k, now.popped1, now.np1);
    k += seq_str(b + k, now.tpopped, now.ntp);
    k += sprintf(b + k, " rest=");
    k += seq_str(b + k, now.rest, now.nrest);
    sprintf(b + k, " maxsize=%d log=%d", now.maxsize, now.logn);
}
}
#endif
#ifdef MODE_PATHS
c_code {
static FILE* PF = 0;
static void write_path(void) {
    char o[256]; int i;
    if (!PF) PF = fopen("paths.out", "w");
    for (i = 0; i < now.hlen; ++i) fprintf(PF, "%c%d ", now.hist[i] / 64 == 0 ? 'r' : now.hist[i] / 64 == 1 ? 't' : 's', now.hist[i] % 64);
    outcome_str(o);
    fprintf(PF, "z\t%s\n", o);
    fflush(PF);
}
}
#endif
#ifdef MODE_SCRIPT
c_code {
static unsigned long NACC = 0, NMISMATCH = 0;
static void report_acc(void) {
    int i, shown = 0;
    fprintf(stderr, "ACCEPTED %lu OUTCOME-MISMATCH %lu OF %d\n", NACC, NMISMATCH, NTRACES);
    for (i = 0; i < NTRACES && shown < 8; ++i) if (!ACCEPTED[i]) { fprintf(stderr, "REJECTED trace %d: the model could follow it for %d of %d steps\n", i, MAXPOS_[i], TRLEN[i]); ++shown; }
}
static void check_accept(void) {
    char o[256];
    static int reg = 0;
    if (!reg) { reg = 1; atexit(report_acc); }
    outcome_str(o);
    if (ACCEPTED[now.tr]) return;
    if (strcmp(o, EXPECT[now.tr]) == 0) { ACCEPTED[now.tr] = 1; ++NACC; }
    else { ACCEPTED[now.tr] = 2; ++NMISMATCH; fprintf(stderr, "MISMATCH trace %d: model '%s' implementation '%s'\n", now.tr, o, EXPECT[now.tr]); }
}
}
#endif

/* wake one waiter of condition cv (1 data, 2 space); with two waiters the choice is recorded */
inline notify_one(cv, me) {
    wa = 255; wb = 255;
    for (wi : 1 .. (NT - 1)) {
        if
        :: wcond[wi] == cv && wa == 255 -> wa = wi
        :: wcond[wi] == cv && wa != 255 && wa != wi && wb == 255 -> wb = wi
        :: else -> skip
        fi
    }
    if
    :: wa == 255 -> skip
    :: wa != 255 && wb == 255 -> wcond[wa] = 3; timedw[wa] = false
    :: wa != 255 && wb != 255 ->
        if
        :: SOK(2, wa) -> LOG(2, wa); wcond[wa] = 3; timedw[wa] = false
        :: SOK(2, wb) -> LOG(2, wb); wcond[wb] = 3; timedw[wb] = false
        fi
    fi;
    wa = 0; wb = 0; wi = 0
}

inline qpush(v) {
    assert(qlen < QCAP);
    q[qlen] = v; qlen++;
    if
    :: qlen > maxsize -> maxsize = qlen
    :: else -> skip
    fi
}
inline qpop(v) {
    v = q[0];
    for (wi : 1 .. (QCAP - 1)) { q[wi - 1] = q[wi] }
    q[QCAP - 1] = 0; qlen--; wi = 0
}

/* Every option of a process's main loop is ONE atomic step = one vsched scheduling step: its guard is
 * (pending operation == pc) && (that operation is enabled) && (script allows it); it runs to the next pending operation. */

/* pending operations of a producer */
#define P_NEW    0   /* thread not started yet */
#define P_HOOK   1   /* at the m_in_use load hook of push() */
#define P_SIZE   2   /* at the lock of size() */
#define P_ULOCK  3   /* at the unique_lock before wait_for */
#define P_ENTRY  4   /* at the wait entry point (owns the mutex) */
#define P_WAIT   5   /* waiting on space_available (timed) / woken, must re-acquire */
#define P_PUSH   6   /* at the lock_guard of the actual push */
#define P_END    7

proctype producer(byte me; byte base) {
    byte i = 0; byte pc = P_NEW; byte wa; byte wb; byte wi;
end_producer:
    do
    :: atomic { pc == P_NEW && created >= me && SOK(0, me) -> LOG(0, me); pc = P_HOOK }
    :: atomic { pc == P_HOOK && SOK(0, me) -> LOG(0, me);
        if
        :: !in_use -> i++;                                   /* push() returns without doing anything */
            if
            :: i < K_PER -> pc = P_HOOK
            :: else -> done[me] = true; pc = P_END
            fi
        :: in_use && K_MAXSZ > 0 -> pc = P_SIZE
        :: in_use && K_MAXSZ == 0 -> pc = P_PUSH
        fi }
    :: atomic { pc == P_SIZE && owner == FREE && SOK(0, me) -> LOG(0, me);          /* size(): lock, read, unlock */
        if
        :: qlen >= K_MAXSZ -> pc = P_ULOCK
        :: else -> pc = P_PUSH
        fi }
    :: atomic { pc == P_ULOCK && owner == FREE && SOK(0, me) -> LOG(0, me);         /* unique_lock, wait_for: deadline = now + 10ms, predicate first */
        SET_DEADLINE(me);
        if
        :: qlen < K_MAXSZ -> pc = P_SIZE                       /* predicate true: no wait, lock released, loop re-reads size() */
        :: else -> owner = me; pc = P_ENTRY
        fi }
    :: atomic { pc == P_ENTRY && SOK(0, me) -> LOG(0, me); owner = FREE; wcond[me] = 2; timedw[me] = true; tmo[me] = false; pc = P_WAIT }
    :: atomic { pc == P_WAIT && wcond[me] == 2 && TIMEOUT_OK && SOK(1, me) -> LOG(1, me); wcond[me] = 3; timedw[me] = false; tmo[me] = true; ntimeouts++; CLOCK_TIMEOUT(me) }
    :: atomic { pc == P_WAIT && wcond[me] == 3 && owner == FREE && SOK(0, me) -> LOG(0, me); wcond[me] = 0;
        if
        :: tmo[me] -> tmo[me] = false; pc = P_SIZE           /* timeout: wait_for returns pred(), the lock scope ends */
        :: !tmo[me] && qlen < K_MAXSZ -> pc = P_SIZE
        :: !tmo[me] && qlen >= K_MAXSZ && MAY_BE_PENDING(me) -> owner = me; pc = P_ENTRY   /* signalled, still full, deadline not reached: waits again */
        :: !tmo[me] && qlen >= K_MAXSZ && MAY_BE_PASSED(me) -> pc = P_SIZE                  /* signalled, still full, but the clock is past the deadline: wait_for returns */
        fi }
    :: atomic { pc == P_PUSH && owner == FREE && SOK(0, me) -> LOG(0, me);
        qpush(base + i); notify_one(1, me); i++;
        if
        :: i < K_PER -> pc = P_HOOK
        :: else -> done[me] = true; pc = P_END
        fi }
    od
}

#define C_NEW    0
#define C_LOCK   1   /* at the unique_lock of wait_and_pop() */
#define C_ENTRY  2   /* at the wait entry point (owns the mutex) */
#define C_WAIT   3   /* waiting on data_available / woken, must re-acquire */
#define C_HOOK   4   /* at the m_in_use load hook of in_use() after an empty return */
#define C_END    5

/* with the mutex held: evaluate the wait predicate and finish wait_and_pop() if it holds */
inline consumer_eval() {
    if
    :: in_use && qlen == 0 -> owner = me; pc = C_ENTRY       /* predicate false: next pending operation is the wait entry */
    :: else ->
        if
        :: qlen > 0 -> qpop(v);
            if
            :: K_MAXSZ > 0 -> notify_one(2, me)
            :: else -> skip
            fi;
            if
            :: which == 0 -> popped0[np0] = v; np0++
            :: else -> popped1[np1] = v; np1++
            fi;
            v = 0; i++;
            if
            :: i < pops -> pc = C_LOCK
            :: else -> done[me] = true; pc = C_END
            fi
        :: else -> logn++; pc = C_HOOK                      /* woken with an empty queue: the harness logs, then asks in_use() */
        fi
    fi
}

proctype consumer(byte me; byte which; byte pops) {
    byte i = 0; byte pc = C_NEW; byte v; byte wa; byte wb; byte wi;
end_consumer:
    do
    :: atomic { pc == C_NEW && created >= me && SOK(0, me) -> LOG(0, me); pc = C_LOCK }
    :: atomic { pc == C_LOCK && owner == FREE && SOK(0, me) -> LOG(0, me); consumer_eval() }
    :: atomic { pc == C_ENTRY && SOK(0, me) -> LOG(0, me); owner = FREE; wcond[me] = 1; pc = C_WAIT }
    :: atomic { pc == C_WAIT && wcond[me] == 3 && owner == FREE && SOK(0, me) -> LOG(0, me); wcond[me] = 0; consumer_eval() }
    :: atomic { pc == C_HOOK && SOK(0, me) -> LOG(0, me); assert(!in_use); done[me] = true; pc = C_END }   /* queue/wait_and_pop-returned-empty-while-in-use */
    od
}

proctype trypopper(byte me) {
    byte i = 0; byte pc = 0; byte v; byte wa; byte wb; byte wi;
end_trypopper:
    do
    :: atomic { pc == 0 && created >= me && SOK(0, me) -> LOG(0, me); pc = 1 }
    :: atomic { pc == 1 && owner == FREE && SOK(0, me) -> LOG(0, me);
        if
        :: qlen > 0 -> qpop(v); tpopped[ntp] = v; ntp++; v = 0;
            if
            :: K_MAXSZ > 0 -> notify_one(2, me)
            :: else -> skip
            fi
        :: else -> skip
        fi;
        i++;
        if
        :: i < K_TRY -> pc = 1
        :: else -> done[me] = true; pc = 2
        fi }
    od
}

proctype shutter(byte me) {
    byte pc = 0; byte wi;
end_shutter:
    do
    :: atomic { pc == 0 && created >= me && SOK(0, me) -> LOG(0, me); pc = 1 }        /* starts, parks at the store hook */
    :: atomic { pc == 1 && SOK(0, me) -> LOG(0, me); in_use = false; pc = 2 }         /* m_in_use = false; next: lock */
    :: atomic { pc == 2 && owner == FREE && SOK(0, me) -> LOG(0, me);
        qlen = 0; for (wi : 0 .. (QCAP - 1)) { q[wi] = 0 }
        for (wi : 1 .. (NT - 1)) {
            if
            :: wcond[wi] == 1 -> wcond[wi] = 3
            :: else -> skip
            fi
        }
        wi = 0; logn++; done[me] = true; pc = 3 }
    od
}

/* the C19 oracle on the final state (same clauses as queue_body) */
inline oracle() {
    /* no duplicates, nothing invented: every delivered value is a pushed value and occurs once */
    for (oa : 0 .. (QCAP - 1)) { cnt[oa] = 0 }
    for (oa : 0 .. (QCAP - 1)) {
        if :: oa < np0 -> ov = popped0[oa]; assert(ov / 10 >= 1 && ov / 10 <= K_NP && ov % 10 < K_PER); cnt[(ov / 10 - 1) * K_PER + ov % 10]++ :: else -> skip fi;
        if :: oa < np1 -> ov = popped1[oa]; assert(ov / 10 >= 1 && ov / 10 <= K_NP && ov % 10 < K_PER); cnt[(ov / 10 - 1) * K_PER + ov % 10]++ :: else -> skip fi;
        if :: oa < ntp -> ov = tpopped[oa]; assert(ov / 10 >= 1 && ov / 10 <= K_NP && ov % 10 < K_PER); cnt[(ov / 10 - 1) * K_PER + ov % 10]++ :: else -> skip fi;
        if :: oa < nrest -> ov = rest[oa]; assert(ov / 10 >= 1 && ov / 10 <= K_NP && ov % 10 < K_PER); cnt[(ov / 10 - 1) * K_PER + ov % 10]++ :: else -> skip fi
    }
    for (oa : 0 .. (K_NP * K_PER - 1)) {
        assert(cnt[oa] <= 1);                      /* queue/element-duplicated */
        assert(K_SHUT == 1 || cnt[oa] == 1)          /* queue/element-lost (only demanded while the queue stays in use) */
    }
    /* per-producer FIFO within every consumer's sequence: values of one producer appear in ascending order */
    for (oa : 1 .. (QCAP - 1)) {
        for (ob : 0 .. (QCAP - 2)) {
            if :: ob < oa && oa < np0 && popped0[oa] / 10 == popped0[ob] / 10 -> assert(popped0[ob] < popped0[oa]) :: else -> skip fi;
            if :: ob < oa && oa < np1 && popped1[oa] / 10 == popped1[ob] / 10 -> assert(popped1[ob] < popped1[oa]) :: else -> skip fi;
            if :: ob < oa && oa < ntp && tpopped[oa] / 10 == tpopped[ob] / 10 -> assert(tpopped[ob] < tpopped[oa]) :: else -> skip fi
        }
    }
    /* the bound: max_size + producers - 1 (check-then-act window of push()) */
    assert(K_MAXSZ == 0 || maxsize <= K_MAXSZ + K_NP - 1);
    oa = 0; ob = 0; ov = 0
}

init {
    byte k; byte v; byte mpc = 0; byte wa; byte wb; byte wi; byte oa; byte ob; byte ov; byte cnt[QCAP];
    atomic {
#ifdef MODE_SCRIPT
        k = 0;
        do
        :: k < TRBITS -> if :: tr = tr | (1 << k) :: skip fi; k++
        :: else -> break
        od;
        if :: tr < NTRACES -> skip :: else -> goto stop fi;
        c_code { now.nxt = TRLEN[now.tr] > 0 ? TRACE[now.tr][0] : 255; };
#endif
        k = 1;
        do
        :: k <= K_NP -> run producer(k, k * 10); k++
        :: else -> break
        od;
#if K_NC >= 1
        run consumer(K_NP + 1, 0, K_POPS0);
#endif
#if K_NC >= 2
        run consumer(K_NP + 2, 1, K_POPS1);
#endif
#if K_TRY > 0
        run trypopper(K_NP + K_NC + 1);
#endif
#if K_SHUT == 1
        run shutter(NT - 1);
#endif
        k = 0
    }
    /* main thread: one step per further pthread_create, then the joins in creation order, then the drain loop */
    k = 1;
    do
    :: atomic { mpc == 0 && created < NT - 1 && SOK(0, 0) -> LOG(0, 0); created++ }
    :: atomic { mpc == 0 && created == NT - 1 && SOK(0, 0) -> LOG(0, 0); mpc = 1 }
    :: atomic { mpc == 1 && k < NT - 1 && done[k] && SOK(0, 0) -> LOG(0, 0); k++ }
    :: atomic { mpc == 1 && k == NT - 1 && done[k] && SOK(0, 0) -> LOG(0, 0); mpc = 2 }
    :: atomic { mpc == 2 && owner == FREE && SOK(0, 0) -> LOG(0, 0);
        if
        :: qlen > 0 -> qpop(v); rest[nrest] = v; nrest++; v = 0
        :: else -> oracle(); finished = true; k = 0; mpc = 3
#ifdef MODE_PATHS
            ; c_code { write_path(); }
#endif
        fi }
    :: mpc == 3 -> break
    od;
#ifdef MODE_SCRIPT
    /* the harness tail (oracle code calling pthread_once etc.): only the main thread runs */
    do
    :: atomic { SOK(0, 0) -> LOG(0, 0) }
    :: atomic { nxt == 255 -> c_code { check_accept(); }; break }
    od
#endif
stop:
    skip
}
