// benum - bounded enumeration runtime shared by the sequential checks.
//
//  * argument parsing (--tier, --shard i/n, --deadline s, --seed n, --replay spec)
//  * the stdout line protocol understood by engine/driver/vlib.py
//  * counters that survive a crashing child (shared memory) and fork isolation with a progress
//    cell, so that a case which kills the process (ASan report, assert, signal, hang) is attributed
//    to its exact rank and the enumeration continues behind it.
#ifndef VERIF_BENUM_HPP
#define VERIF_BENUM_HPP

#include <sys/mman.h>
#include <sys/types.h>
#include <sys/wait.h>
#include <unistd.h>
#include <fcntl.h>
#include <signal.h>

#include <cerrno>
#include <chrono>
#include <cinttypes>
#include <cstdint>
#include <cstdio>
#include <cstdlib>
#include <cstring>
#include <functional>
#include <map>
#include <set>
#include <string>
#include <vector>

namespace benum {

struct Args {
    bool thorough = false;
    unsigned shard = 0, nshards = 1;
    double deadline_s = 1e9;
    uint64_t seed = 0;
    bool replay = false;
    std::string replay_spec;
    std::vector<std::string> rest;
    std::chrono::steady_clock::time_point t0 = std::chrono::steady_clock::now();

    bool expired() const {
        return std::chrono::duration<double>(std::chrono::steady_clock::now() - t0).count() >= deadline_s;
    }
    bool mine(uint64_t rank) const { return rank % nshards == shard; }
};

inline Args parse_args(int argc, char** argv) {
    Args a;
    for (int i = 1; i < argc; ++i) {
        std::string s = argv[i];
        auto next = [&]() -> std::string { return i + 1 < argc ? argv[++i] : ""; };
        if (s == "--tier") a.thorough = (next() == "thorough");
        else if (s == "--shard") { std::string v = next(); sscanf(v.c_str(), "%u/%u", &a.shard, &a.nshards); }
        else if (s == "--deadline") a.deadline_s = atof(next().c_str()) * 0.92;  // leave room for reporting
        else if (s == "--seed") a.seed = strtoull(next().c_str(), nullptr, 10);
        else if (s == "--replay") { a.replay = true; a.replay_spec = next(); }
        else a.rest.push_back(s);
    }
    return a;
}

// ---------------------------------------------------------------------------------------------
// protocol output. Strings are sanitised (tabs/newlines replaced) so a line stays a line.
inline std::string clean(const std::string& s, size_t maxlen = 2000) {
    std::string r;
    r.reserve(s.size());
    for (unsigned char c : s) {
        if (c == '\t' || c == '\n' || c == '\r') r += ' ';
        else if (c < 0x20 || c == 0x7f) { char b[8]; snprintf(b, sizeof b, "\\x%02x", c); r += b; }
        else r += static_cast<char>(c);
        if (r.size() >= maxlen) { r += "..."; break; }
    }
    return r;
}

// hex transport for replay payloads (arbitrary bytes survive the line protocol)
inline std::string hex(const std::string& s) {
    static const char* d = "0123456789abcdef";
    std::string r;
    for (unsigned char c : s) { r += d[c >> 4]; r += d[c & 15]; }
    return r;
}
inline std::string unhex(const std::string& s) {
    std::string r;
    auto v = [](char c) { return c <= '9' ? c - '0' : (c | 0x20) - 'a' + 10; };
    for (size_t i = 0; i + 1 < s.size(); i += 2) r += static_cast<char>(v(s[i]) * 16 + v(s[i + 1]));
    return r;
}

inline void emit_line(const std::string& line) {
    // one write() per line: atomic for lines < PIPE_BUF, usable from forked children
    std::string l = line + "\n";
    size_t off = 0;
    while (off < l.size()) {
        ssize_t n = ::write(1, l.data() + off, l.size() - off);
        if (n <= 0) { if (errno == EINTR) continue; break; }
        off += static_cast<size_t>(n);
    }
}

inline void cov(const std::string& key, uint64_t n) { emit_line("COV\t" + key + "\t" + std::to_string(n)); }
inline void maxv(const std::string& key, uint64_t n) { emit_line("MAX\t" + key + "\t" + std::to_string(n)); }
inline void setv(const std::string& key, const std::string& v) { emit_line("SET\t" + key + "\t" + clean(v, 200)); }
inline void sample(const std::string& s) { emit_line("SAMPLE\t" + clean(s, 600)); }
inline void note(const std::string& s) { emit_line("NOTE\t" + clean(s, 600)); }
inline void bound(const std::string& name, bool complete) { emit_line("BOUND\t" + clean(name, 200) + "\t" + (complete ? "1" : "0")); }
inline void viol(const std::string& key, const std::string& detail, const std::string& spec) {
    emit_line("VIOL\t" + clean(key, 300) + "\t" + clean(detail, 1800) + "\t" + clean(spec, 4000));
}

// ---------------------------------------------------------------------------------------------
// Counters in shared memory: survive a crashing forked child. Fixed slots addressed by name.
class Counters {
    struct Slot { char name[56]; uint64_t value; };
    static constexpr int N = 256;
    Slot* m_slots;
public:
    Counters() {
        m_slots = static_cast<Slot*>(mmap(nullptr, sizeof(Slot) * N, PROT_READ | PROT_WRITE, MAP_SHARED | MAP_ANONYMOUS, -1, 0));
        memset(m_slots, 0, sizeof(Slot) * N);
    }
    uint64_t& operator[](const char* name) {
        for (int i = 0; i < N; ++i) {
            if (m_slots[i].name[0] == 0) { strncpy(m_slots[i].name, name, 55); return m_slots[i].value; }
            if (strncmp(m_slots[i].name, name, 55) == 0) return m_slots[i].value;   // names are truncated to 55 characters
        }
        abort();
    }
    void emit() const {
        for (int i = 0; i < N && m_slots[i].name[0]; ++i) cov(m_slots[i].name, m_slots[i].value);
    }
};

// A violation de-duplicator: each class key is reported with its first case and a count.
class Violations {
    std::map<std::string, uint64_t> m_seen;
public:
    void report(const std::string& key, const std::string& detail, const std::string& spec) {
        if (m_seen[key]++ < 3) viol(key, detail, spec);   // driver counts repeats; cap the noise
    }
    size_t classes() const { return m_seen.size(); }
};

// Sample limiter: evenly picks up to `cap` samples by hashing the rank with the seed.
class Sampler {
    uint64_t m_seed; unsigned m_cap, m_n = 0; uint64_t m_mod;
public:
    Sampler(uint64_t seed, unsigned cap = 3, uint64_t mod = 9973) : m_seed(seed), m_cap(cap), m_mod(mod) {}
    bool want(uint64_t rank) {
        if (m_n >= m_cap) return false;
        if (m_n == 0 || ((rank * 0x9E3779B97F4A7C15ull + m_seed) >> 17) % m_mod == 0) { ++m_n; return true; }
        return false;
    }
};

// ---------------------------------------------------------------------------------------------
// Fork isolation.
//
// run_isolated(begin, end, body, on_death): executes body(rank) for every rank in [begin,end) that
// belongs to this shard, inside forked children. Before each case the child stores the rank in a
// shared cell. If the child dies, on_death(rank, what, stderr_text) is called in the parent and a
// new child continues at rank+1. 'what' is "signal:<n>", "exit:<n>", or "hang".
struct Isolation {
    double case_timeout_s = 20.0;     // watchdog per case (generous; hang re-run uses x10)
    std::string stderr_path;          // child stderr is redirected here
};

struct Progress { volatile uint64_t rank; volatile uint64_t beats; volatile uint64_t done; };

inline std::string slurp(const std::string& path, size_t maxlen = 200000) {
    std::string r;
    FILE* f = fopen(path.c_str(), "rb");
    if (!f) return r;
    char buf[4096]; size_t n;
    while ((n = fread(buf, 1, sizeof buf, f)) > 0 && r.size() < maxlen) r.append(buf, n);
    fclose(f);
    return r;
}

// Extract "<kind>@<innermost osmium function>" from an ASan report; empty if none.
inline std::string asan_class(const std::string& err) {
    size_t p = err.find("ERROR: AddressSanitizer: ");
    if (p == std::string::npos) return "";
    size_t q = p + strlen("ERROR: AddressSanitizer: ");
    size_t e = err.find_first_of(" \n", q);
    std::string kind = err.substr(q, e - q);
    std::string fn = "?";
    size_t pos = e;
    for (int i = 0; i < 40; ++i) {
        size_t h = err.find(" in ", pos);
        if (h == std::string::npos) break;
        size_t le = err.find('\n', h);
        std::string line = err.substr(h + 4, le - h - 4);
        pos = le == std::string::npos ? err.size() : le;
        size_t o = line.find("osmium::");
        if (o != std::string::npos) {
            // function name up to '(' ; strip template arguments for stability
            std::string f = line.substr(o);
            std::string out; int depth = 0;
            for (char c : f) {
                if (c == '<') ++depth;
                else if (c == '>') --depth;
                else if (c == '(' && depth == 0) break;
                else if (c == ' ' && depth == 0) break;
                else if (depth == 0) out += c;
            }
            fn = out;
            break;
        }
        if (err.compare(pos, 2, "\n\n") == 0) break;
    }
    return kind + "@" + fn;
}

template <class Body, class OnDeath>
bool run_isolated(const Args& a, uint64_t begin, uint64_t end, Body body, OnDeath on_death, Isolation iso = Isolation()) {
    static Progress* pg = static_cast<Progress*>(mmap(nullptr, sizeof(Progress), PROT_READ | PROT_WRITE, MAP_SHARED | MAP_ANONYMOUS, -1, 0));
    if (iso.stderr_path.empty()) {
        char buf[128];
        snprintf(buf, sizeof buf, "/dev/shm/benum-%d.err", static_cast<int>(getpid()));
        iso.stderr_path = buf;
    }
    uint64_t next = begin;
    // align to shard
    auto first_mine = [&](uint64_t r) { while (r < end && !a.mine(r)) ++r; return r; };
    next = first_mine(next);
    bool complete = true;
    double timeout = iso.case_timeout_s;
    bool retry_hang = false;
    while (next < end) {
        if (a.expired()) { complete = false; break; }
        fflush(stdout); fflush(stderr);
        pg->rank = next; pg->beats = 0; pg->done = 0;
        pid_t pid = fork();
        if (pid < 0) { perror("fork"); _exit(3); }
        if (pid == 0) {
            int fd = open(iso.stderr_path.c_str(), O_WRONLY | O_CREAT | O_TRUNC, 0600);
            if (fd >= 0) { dup2(fd, 2); close(fd); }
            for (uint64_t r = next; r < end; r += a.nshards) {
                pg->rank = r; pg->beats = pg->beats + 1;
                body(r);
                if (retry_hang) break;           // a hang re-run executes one case only
                if ((pg->beats & 63) == 0 && a.expired()) { pg->done = 2; pg->rank = r + a.nshards; fflush(stdout); _exit(0); }
            }
            pg->done = 1;
            fflush(stdout);
            _exit(0);
        }
        // parent: watchdog
        uint64_t last_beats = ~0ull; auto last_change = std::chrono::steady_clock::now();
        int status = 0; bool hung = false;
        for (;;) {
            pid_t w = waitpid(pid, &status, WNOHANG);
            if (w == pid) break;
            if (pg->beats != last_beats) { last_beats = pg->beats; last_change = std::chrono::steady_clock::now(); }
            else if (std::chrono::duration<double>(std::chrono::steady_clock::now() - last_change).count() > timeout) {
                kill(pid, SIGKILL); waitpid(pid, &status, 0); hung = true; break;
            }
            usleep(2000);
        }
        uint64_t r = pg->rank;
        if (!hung && WIFEXITED(status) && WEXITSTATUS(status) == 0) {
            if (pg->done == 1) { if (retry_hang) { retry_hang = false; timeout = iso.case_timeout_s; next = r + a.nshards; continue; } break; }
            if (pg->done == 2) { complete = false; break; }
            if (retry_hang) { retry_hang = false; timeout = iso.case_timeout_s; next = r + a.nshards; continue; }
            break;
        }
        if (hung && !retry_hang) {      // re-run this case alone with a x10 limit before believing it
            retry_hang = true; timeout = iso.case_timeout_s * 10; next = r; continue;
        }
        std::string what;
        if (hung) what = "hang";
        else if (WIFSIGNALED(status)) what = "signal:" + std::to_string(WTERMSIG(status));
        else what = "exit:" + std::to_string(WEXITSTATUS(status));
        on_death(r, what, slurp(iso.stderr_path));
        retry_hang = false; timeout = iso.case_timeout_s;
        next = r + a.nshards;
    }
    unlink(iso.stderr_path.c_str());
    return complete;
}

// describe how a child died as a class-key fragment: asan kind+function, or the signal
inline std::string death_class(const std::string& what, const std::string& err) {
    std::string ac = asan_class(err);
    if (!ac.empty()) return "asan/" + ac;
    if (what == "signal:6") {
        size_t p = err.find("Assertion `");
        if (p != std::string::npos) {
            size_t e = err.find('\'', p + 11);
            return "assert/" + clean(err.substr(p + 11, e - p - 11), 120);
        }
        if (err.find("terminate called") != std::string::npos) return "terminate";
        return "abort";
    }
    if (what == "signal:11") return "sigsegv";
    if (what == "signal:7") return "sigbus";
    if (what == "signal:8") return "sigfpe";
    return what;
}

// ---------------------------------------------------------------------------------------------
// Small combinatorics with rank <-> case bijection.
struct Odometer {   // mixed-radix counter
    std::vector<uint32_t> radix, digit;
    explicit Odometer(std::vector<uint32_t> r) : radix(std::move(r)), digit(radix.size(), 0) {}
    uint64_t total() const { uint64_t t = 1; for (auto r : radix) t *= r; return t; }
    void set_rank(uint64_t rank) { for (size_t i = 0; i < radix.size(); ++i) { digit[i] = rank % radix[i]; rank /= radix[i]; } }
};

inline uint64_t ipow(uint64_t b, unsigned e) { uint64_t r = 1; while (e--) r *= b; return r; }

}  // namespace benum

#endif
