HOOKS = {
    "guard": "OSMIUM_VERIF_HOOKS",
    "enable": "harnesses are compiled from /repo's working tree with -I/repo/include -DOSMIUM_VERIF_HOOKS (header-only library)",
    "baseline_off_cmd": "cmake --build /repo/_build && ctest --test-dir /repo/_build -j8 --timeout 900",
    "source_commits": ["6ec57f2", "0c60619"],
    "add_only": True,
}
ENGINES = [
    {"name": "benum", "path": "engine/benum", "serves_properties": ["C13", "C16", "C17"],
     "kind_free_text": "bounded exhaustive enumeration runtime: rank<->case bijections, 16-way sharding, fork isolation with progress cell, line protocol to the driver"},
    {"name": "vsched", "path": "engine/vsched", "serves_properties": ["C19"],
     "kind_free_text": "cooperative scheduler by link-time interposition of pthread mutex/cond/create/join, futex syscall and clock_gettime + stateless DFS explorer with iterative deviation bounding, 16 forked workers sharing a work stack, determinism re-runs, deadlock/livelock/hang detection, replay of recorded choice sequences"},
    {"name": "driver", "path": "engine/driver", "serves_properties": ["C13"],
     "kind_free_text": "bin/check: builds harnesses from /repo's working tree (content-hash cache), runs tiers under a deadline, replays violations, applies known_findings.txt, writes evidence"},
]
NOTES = ("All checks decide by exhaustive enumeration inside stated bounds (see DESIGN.md). exit 2 from bin/check means the machinery "
         "failed (build or harness error) and is not a verdict.")
NOT_APPLICABLE = {}
CHECKS = {
    "C16": {
        "engine": "benum", "level": "exploration",
        "technique": "exhaustive enumeration of all pairs/triples of a boundary-heavy object grid and of all short (type,id) streams against a lexicographic-key reference",
        "text": "All triples over the full attribute grid are run through the real comparators (strict-weak-order axioms + agreement with an independent key), "
                "all id pairs/triples over a wide 64-bit id set through id_order, all streams up to length 4-5 through CheckOrder, all short sequences through "
                "ObjectPointerCollection::sort + CheckOrder; complete inside the grid, so a wrong comparison on any grid value combination is found.",
        "note": "Grid values are boundary values (zero/negative/positive ids up to +-2^63-1, version and timestamp extremes); values between grid points are not enumerated. Comparators using timestamps are judged only on objects with set timestamps, as the property states.",
    },
    "C17": {
        "engine": "benum", "level": "exploration",
        "technique": "exhaustive enumeration of node lists / areas over a location alphabet x options x output formats, decoded by independent WKB/WKT/GeoJSON readers; ASan-isolated sweep of (magnitude, precision 0..17) number formatting",
        "text": "Every node list up to length 5|7 over {A,B,C,undefined,invalid} and every area over a ring alphabet is exported through every factory (WKB, EWKB, hex, WKT, EWKT, GeoJSON) x unique/all x forward/backward x identity/Mercator "
                "and decoded by the harness's own readers; geometry, counts and cross-format agreement are compared with a reference model on each case; number text is compared with an exact 128-bit decimal reference for every precision 0..17 under ASan.",
        "note": "Trusts the harness's decoders and the library's lonlat_to_mercator values (C18's subject); structure sweeps use precision 7 and 3, the precision axis is covered by the separate number sweep.",
    },
    "C19": {
        "engine": "vsched", "level": "model_checking",
        "technique": "stateless model checking of the real Queue/Pool code: preemption-bounded (CHESS-style) and delay-bounded exhaustive schedule exploration under a controlled scheduler that owns all pthread/futex synchronisation",
        "text": "Closed 2-5 thread drivers on the real Queue<int> and Pool are executed under every schedule with at most k deviations (k iterated 0..2/3 with free switches at blocking "
                "points, 0..3/4 under delay bounding), including every notify_one waiter choice and timed-wait timeout; loss, duplication, per-producer FIFO, the size bound, "
                "shutdown wake-up, exactly-once task execution, future results and ~Pool joining are checked on each complete execution; deadlock/livelock/hang are detected by the scheduler.",
        "note": "Sequentially consistent scheduler (the only atomics are seq_cst flags with hooks; non-atomic sharing is policed by the separate TSan pass); no spurious wake-ups; schedules with more deviations than the completed bound are not covered; bounds capped by the deadline are reported as such.",
    },
    "C13": {
        "engine": "benum", "level": "exploration",
        "technique": "exhaustive finite-domain enumeration (all short strings over the coordinate alphabet, every exponent, all 2^32 coordinates/timestamps in thorough) against an exact decimal/calendar reference",
        "text": "Every case of the stated finite spaces is executed on the real conversion functions and compared with an exact digit-string reference; "
                "thorough covers all 2^32 coordinates and timestamps and all strings of length <= 7, so inside those spaces the verdict is complete, not sampled.",
        "note": "Trusts the harness's decimal/calendar reference (cross-checked by the round-trip sweeps); strings longer than the enumerated shapes are outside the bound.",
    },
}
