HOOKS = {
    "guard": "OSMIUM_VERIF_HOOKS",
    "enable": "harnesses are compiled from /repo's working tree with -I/repo/include -DOSMIUM_VERIF_HOOKS (header-only library)",
    "baseline_off_cmd": "cmake --build /repo/_build && ctest --test-dir /repo/_build -j8 --timeout 900",
    "source_commits": [],
    "add_only": True,
}
ENGINES = [
    {"name": "benum", "path": "engine/benum", "serves_properties": ["C13"],
     "kind_free_text": "bounded exhaustive enumeration runtime: rank<->case bijections, 16-way sharding, fork isolation with progress cell, line protocol to the driver"},
    {"name": "driver", "path": "engine/driver", "serves_properties": ["C13"],
     "kind_free_text": "bin/check: builds harnesses from /repo's working tree (content-hash cache), runs tiers under a deadline, replays violations, applies known_findings.txt, writes evidence"},
]
NOTES = ("All checks decide by exhaustive enumeration inside stated bounds (see DESIGN.md). exit 2 from bin/check means the machinery "
         "failed (build or harness error) and is not a verdict.")
NOT_APPLICABLE = {}
CHECKS = {
    "C13": {
        "engine": "benum", "level": "exploration",
        "technique": "exhaustive finite-domain enumeration (all short strings over the coordinate alphabet, every exponent, all 2^32 coordinates/timestamps in thorough) against an exact decimal/calendar reference",
        "text": "Every case of the stated finite spaces is executed on the real conversion functions and compared with an exact digit-string reference; "
                "thorough covers all 2^32 coordinates and timestamps and all strings of length <= 7, so inside those spaces the verdict is complete, not sampled.",
        "note": "Trusts the harness's decimal/calendar reference (cross-checked by the round-trip sweeps); strings longer than the enumerated shapes are outside the bound.",
    },
}
