HOOKS = {
    "guard": "OSMIUM_VERIF_HOOKS",
    "enable": "harnesses are compiled from /repo's working tree with -I/repo/include -DOSMIUM_VERIF_HOOKS (header-only library)",
    "baseline_off_cmd": "cmake --build /repo/_build && ctest --test-dir /repo/_build -j8 --timeout 900",
    "source_commits": ["6ec57f2", "0c60619", "9e3eb93", "6fc245f", "1884519", "bdf7d6e", "156ce09", "a53ea63", "b496666"],
    "add_only": True,
}
ENGINES = [
    {"name": "benum", "path": "engine/benum", "serves_properties": ["C01", "C02", "C03", "C04", "C06", "C08", "C09", "C10", "C11", "C12", "C13", "C14", "C15", "C16", "C17", "C18", "C20"],
     "kind_free_text": "bounded exhaustive enumeration runtime: rank<->case bijections, 16-way sharding, fork isolation with progress cell, line protocol to the driver"},
    {"name": "vsched", "path": "engine/vsched", "serves_properties": ["C05", "C07", "C08", "C19"],
     "kind_free_text": "cooperative scheduler by link-time interposition of pthread mutex/cond/create/join, futex syscall and clock_gettime + stateless DFS explorer with iterative deviation bounding, 16 forked workers sharing a work stack, determinism re-runs, deadlock/livelock/hang detection, replay of recorded choice sequences"},
    {"name": "spin", "path": "engine/spin", "serves_properties": ["C19"],
     "kind_free_text": "Promela model of thread::Queue at the granularity of vsched scheduling steps; Spin 6.5 explores all interleavings (safety), accepts every implementation schedule (impl->model) and emits every model path for scripted replay on the real code (model->impl); driver checks/C19/spin.py"},
    {"name": "driver", "path": "engine/driver", "serves_properties": ["C13"],
     "kind_free_text": "bin/check: builds harnesses from /repo's working tree (content-hash cache), runs tiers under a deadline, replays violations, applies known_findings.txt, writes evidence"},
]
NOTES = ("All checks decide by exhaustive enumeration inside stated bounds (see DESIGN.md). exit 2 from bin/check means the machinery "
         "failed (build or harness error) and is not a verdict.")
NOT_APPLICABLE = {}
CHECKS = {
    "C01": {
        "engine": "benum", "level": "exploration",
        "technique": "exhaustive enumeration of (data set, writer option vector) pairs - every boundary value of every field one factor at a time under all 7296 option vectors, reduced products, block-boundary and 32 MiB families, header boxes and an exhaustive sweep of the PBF header box conversion - written with the real Writer, checked by an independent PBF framing parser, read back with the real Reader and compared with a per-format carry() expectation; plus a sweep of every initial capacity (64..640|1280 step 8, hook H8) of the decoders' output buffers on the read side",
        "text": "Every boundary value of every field of nodes, ways, relations and changesets (ids up to +-2^63-1, uint32 extremes, undefined/valid/out-of-range locations, strings with structural characters and 1-4 byte UTF-8 up to 1024 bytes, 0..many tags/refs/members, discussions) is written under EVERY option vector {osm, osh, osc, pbf, osh.pbf, opl} x dense x blob compression x 32 metadata subsets x locations_on_ways x force_visible_flag x {none, gz, bz2} x pool threads and read back; plus 1-3 object products, 7999/8000/8001/16001-object blocks, blocks crossing 0.95 x 32 MiB and 32 MiB, 0..2 header boxes, and (thorough) every fixed-point coordinate through the PBF header box encoder/decoder. Read-back must equal carry(D, o); every blob must respect the format limits.",
        "note": "The data domain is unbounded: the check covers boundary alphabets and complete option products, not all object sequences. Objects a vector cannot express (deleted objects without a visible flag, changesets in PBF, XML-inexpressible strings) are dropped for that vector and counted; behaviours pinned by the repository's tests (PBF deleted-node location, XML changeset 2^32-1) are domain restrictions.",
    },
    "C02": {
        "engine": "benum", "level": "exploration",
        "technique": "exhaustive products / strength-3 covering arrays of finite menus of free encoding choices x small abstract data sets, produced by independent specification-derived Python encoders (PBF, o5m, XML, OPL), read by the real Reader and the format parser and compared byte for byte with the canonical text of the data the file denotes; reader-against-reader agreement",
        "text": "For each format a deterministic plan enumerates every combination of encoding choices (PBF: plain/dense/mixed groups, raw/zlib/lz4 blobs, granularity, offsets, date granularity, Info presence, unknown fields, index data, every BlobHeader size 1..65535, string-table layout, block layout; o5m: references vs inline, table wrap-around, 250-character limit, resets, sync/jump/unknown data sets, every file tail; XML: attribute orders, quoting, character references, change sections, bounds; OPL: field orders, optional fields, line endings) - full products where small, otherwise all single deviations + strength-3 covering arrays + full products of a core subset - on small data sets; the Reader's dump must equal the generator's object list and the four readers must agree.",
        "note": "Where the format descriptions are silent (251-character o5m strings, split packed fields, interleaved nd/tag children, blobs ending within 1-9 bytes of 32 MiB) the outcome is counted, not judged. The thorough XML plan omits the 9! attribute permutations.",
    },
    "C03": {
        "engine": "benum", "level": "exploration",
        "technique": "exhaustive enumeration of complete edit neighbourhoods (every truncation, every single-byte substitution/deletion/insertion, every length field x boundary values, every structural unit deleted/duplicated, every string slot overlong, all byte strings of length <= 2|3) of 39 small valid seed files in the four formats, each parsed under ASan in NDEBUG and assert builds in forked children with an explicit extent-checking traversal of every delivered item",
        "text": "For 39 spec-generated seeds (PBF raw/zlib/lz4, o5m/o5c, XML, OPL, gz/bz2 variants) every edit of the classes E1-E9 (truncations, byte substitutions with 17 | 255 values, deletions/insertions, pairs within 16 bytes (thorough), length fields and string-table indexes x 14 boundary values with and without recomputed framing, tiny files, overlong strings, deleted/duplicated structural units) is parsed through the real parsers and the Reader in two ASan builds; termination, exception type, sanitizer reports, aborts and the extents of every delivered item, sub-item and string are checked.",
        "note": "Coverage-guided mutation named in the property is sampling and is not used; inputs more than one or two edits away from a valid file are outside the enumerated neighbourhood. UBSan-type findings are not part of the oracle.",
    },
    "C04": {
        "engine": "benum", "level": "model_checking",
        "technique": "explicit-state breadth-first search over builder/buffer operation histories on the real Buffer for every initial capacity 64..640 step 8 x auto_grow {no,yes,internal}, canonical states from the buffer bytes, reference model compared after every operation (ASan, NDEBUG and assert builds, fork isolated)",
        "text": "Every history up to depth 2 over a 72-operation alphabet (object/changeset/list builders in three call styles with string lengths around every padding boundary, commit, rollback, clear, add_buffer, push_back, add_item, swap, move, set_removed, purge_removed with/without callback) "
                "and up to depth 3|4|5 over reduced alphabets is executed on real buffers of every capacity 64..640 step 8 in all three growth modes; after every operation the nested chain + committed + uncommitted bytes are walked and compared field by field with a model; "
                "plus all item sequences x removed masks for purge and all CallbackBuffer histories of length <= 5.",
        "note": "What purge_removed() does with uncommitted data or with top-level items that are not OSM entities, and the exact capacity after growth, are left open (counted). Histories deeper than the stated bounds are not covered.",
    },
    "C06": {
        "engine": "benum", "level": "exploration",
        "technique": "exhaustive enumeration of segmentations (every single cut, every pair of cuts, all uniform piece sizes, one-byte pieces around every position) of spec-generated seed files and all their truncations, delivered to the real parsers through a pre-filled input queue, a chunking decompressor under the full Reader, small input buffers, one short read(2) answer at every offset and read(2) answers capped at k bytes for every call; result compared with the one-piece baseline",
        "text": "46 seed files in OPL, XML, o5m/o5c and PBF (written by specification-derived encoders) and every proper prefix of two seeds per format are parsed under every single cut, every uniform piece size, one-byte pieces around every position and every pair of cuts (quick: pairs on the 30 small seeds; thorough: all seeds and prefixes), through four delivery paths (parser on a pre-filled queue, full Reader with a chunking decompressor, real plain/gzip/bzip2 files with input buffer sizes 1,2,3,5,7,64, short reads at every offset); header, object dump and error type/message must equal the unsplit baseline.",
        "note": "Three or more simultaneous cuts are only covered through the uniform and one-byte families; across the PBF fd path and queue path only header, objects and eof-or-error are compared (the error wording differs by design).",
    },
    "C08": {
        "engine": "benum", "level": "fault_enumeration",
        "technique": "exhaustive enumeration of OS fault plans on the real Writer (every byte offset via RLIMIT_FSIZE and interposed write/fwrite with ENOSPC/EIO, every n-th write/fsync/close/fwrite/fflush/fclose failing, EINTR once, every short-write length, encoder failure at every position) x formats x compressions x fsync x histories in forked children; plus stateless schedule exploration (vsched, <= 1|2 deviations) of the Writer with a failing mock compressor / encoder (every std::atomic of the library is a scheduling point); a close() of a descriptor number the library has already released is reported",
        "text": "{xml, opl, pbf} x {none, gz, bz2} x fsync {no, yes} x five write histories x queue/pool sizes x fast|paced producer: the first write reaching every byte offset of the output fails (kernel EFBIG through RLIMIT_FSIZE; ENOSPC/EIO through interposed write/fwrite), every n-th write/fsync/close/fwrite/fflush/fclose fails, EINTR once, short writes of every length, the OPL encoder throws at every way position; either a call throws or the file is complete (own inflate/bzip2 framing check + Reader decode equals the objects handed over) and close() returns its size; a fired injector followed by success is 'error-lost'; a Writer in error state must refuse data; threads must finish. The vsched harness explores all schedules with <= 1|2 deviations of Writer + failing mock compressor.",
        "note": "Encoder failure exists for OPL only (a tag value ending in an incomplete UTF-8 sequence; the XML and PBF encoders cannot throw on the data handed over). bzip2 gets ENOSPC/EIO at the stdio level only (write() inside glibc's stdio cannot be interposed; the kernel EFBIG fault covers that path); quick strides the offsets of the larger histories (boundaries +-1 always included), thorough enumerates every offset for the small histories. Descriptor/memory leaks on error paths are counted, not judged.",
    },
    "C09": {
        "engine": "benum", "level": "fault_enumeration",
        "technique": "exhaustive enumeration of stream splittings (1..3 concatenated streams at boundary-aligned positions), every truncation length and every single-byte corruption (8 bit flips | 255 values) of small compressed files, large-file truncations around every read-ahead size and trailer, x {gzip, bzip2} x {fd, memory buffer} x input buffer sizes {1 MiB, 4096, 7}; output compared with Python's gzip/bz2 as reference decompressor; valid files and truncations of the fd variants also through the real ReadThreadManager and input queue, compared with the direct run",
        "text": "Every small file (1-3 streams) under every truncation length and every byte position x 8 bit flips (thorough: 255 values); 2-3 stream files with every stream/file end placed on and around 4096, 5000n, 8192, 10240; 19 payload sizes x every splitting into 1..3 streams; large files truncated around every boundary; round trips of the library's own compressors - each through the real fd and memory-buffer decompressors: bytes equal to the reference, offset() <= file size, empty chunk only at the true end, truncated/corrupted streams never accepted as a proper prefix.",
        "note": "Corruptions for which the reference itself returns bytes, trailer truncations that still deliver the whole payload and the zero-length file are left open (counted). zlib's gzread policy of ignoring trailing garbage gives three known findings.",
    },
    "C10": {
        "engine": "benum", "level": "exploration",
        "technique": "exhaustive enumeration of segment arrangements on small lattices (all segment sets, all even-degree subgraphs, multisets, ring-catalogue subsets) x cuttings x member orders x way reversals x roles x affine images through the real Assembler, judged by an exact-integer geometry oracle",
        "text": "Every set of <= 6|8 of the 36 segments of a 3x3 lattice, every even-degree subgraph of the 4x3 lattice (2^18), every multiset with doubled/tripled segments and every subset of a catalogue of nested/touching rings is realised as OSM ways in several cuttings x member permutations x reversals x role assignments x 3 affine images "
                "and assembled by the real code; validity, ring closure, even-odd equality, nesting, attachment of inner rings to the innermost enclosing outer ring, orientation and invariance across realisations are checked on every case.",
        "note": "Inputs needing more than the lattice sizes enumerated, > 20 recursion levels or > 100 touching points are outside the bound; decomposition differences between affine images are only counted.",
    },
    "C11": {
        "engine": "benum", "level": "model_checking",
        "technique": "explicit-state enumeration of relation/member histories (all relation sets x interest predicates x member-stream subsets x feeding modes) replayed on the real RelationsManager/MultipolygonManager, set-based reference model compared after every handler call, canonical manager states hashed (ASan, NDEBUG and assert builds, and a build whose ItemStash buffer starts at 256 bytes - hook H9 - so that it moves within short histories)",
        "text": "1..3 relations with member lists of length <= 2|3 over two node, two way and two relation ids (duplicates, shared members, self references) x every new_relation/new_member predicate x every subset of the referenced ids as the sorted member stream x 4 feeding/flush modes x 7 type-flag sets and the multipolygon manager; "
                "completion exactly once at the last wanted member, member retrieval inside the callback, release afterwards (lookup gives nullptr), incomplete list, not-in-any-relation callbacks and stash size are compared with the model on every step; long families with > 10 000 removals trigger stash collection with live handles.",
        "note": "Relations of interest without any wanted member and the order of several completions in one step are left open (counted).",
    },
    "C12": {
        "engine": "benum", "level": "model_checking",
        "technique": "explicit-state search over insertion histories (all sequences of distinct boundary ids up to a length, all permutations around the hooked FlexMem threshold) replayed on every real index type and compared with a std::map on every probe; dump/reload and NodeLocationsForWays sub-spaces enumerated exhaustively",
        "text": "Every sequence of distinct ids (length <= 4 for in-memory types, <= 2 with expensive ids) over a boundary alphabet is inserted into each of the 8 factory map types, file-based types and FlexMem (forced dense, switching after every step, and with the threshold hooked to 7: all permutations of 7..9 ids) and get()/get_noexcept() are compared with a std::map on 90+ probes; "
                "dump_as_list/dump_as_array bytes and reloads, and all node streams of NodeLocationsForWays over {+-1,+-2,+-3,big} are compared with the model.",
        "note": "Dense types are only given ids <= 2^24+2; the real 0xffffff FlexMem threshold is crossed in four orders in the thorough tier only.",
    },
    "C15": {
        "engine": "benum", "level": "model_checking",
        "technique": "explicit-state breadth-first search over operation histories of IdSetDense/IdSetSmall/nwr_array/RelationsMapStash/ItemStash with canonical states read from private fields, std::set / pair-set / handle-list reference models driven in lock step",
        "text": "IdSetDense<uint32|uint64> with chunk_bits 1|2|13|22 (set/unset/check_and_set/clear/copy/assign/swap/move, ids around every chunk boundary and the end of the id range), IdSetSmall and nwr_array are explored to a fixed point or depth bound; every add-sequence over ids around 2^32 through each RelationsMapStash index builder; "
                "ItemStash BFS over item shapes plus long scripted histories making the automatic collection run with thousands of live handles; membership, size, exact ascending iteration, lookups in both directions and bytes behind every live handle are compared in every state.",
        "note": "IdSetSmall is only demanded exact where its documented precondition (sorted/unique) holds; a stand-alone non-entity item in the stash is outside the domain.",
    },
    "C20": {
        "engine": "benum", "level": "exploration",
        "technique": "exhaustive enumeration of item sequences x handler lists (template instantiations over 6-16 handler kinds, lengths 1..3|4) x entry points, and of all sorted version histories x buffer splits for the diff iterator, against a callback-sequence model",
        "text": "All item sequences of length <= 3 over all item types (incl. removed items) are applied through every entry point to every handler list of length 1..3 (thorough 4) and the logged callback sequence is compared with the model; "
                "every sorted history of <= 3 objects x 1..3 versions through DiffIterator / apply_diff with every split of the data into buffers (ASan, fork isolated).",
        "note": "Whether ChainHandler/DynamicHandler forward osm_object and sub-item callbacks to wrapped handlers is left open (counted); apply() over select<ConcreteType> ranges does not compile and is outside the space.",
    },
    "C05": {
        "engine": "vsched", "level": "model_checking",
        "technique": "stateless model checking of the real Reader pipeline (read thread, parser thread, pool workers, consumer) under a controlled scheduler: delay-bounded and preemption-bounded exhaustive schedule exploration x configuration product; every std::atomic of the library and zlib's uncompress() are scheduling points; sweep of every decoder buffer capacity 64..640 (hook H8)",
        "text": "The real Reader reads 11-object OPL/XML/PBF files delivered in 64-byte pieces into tiny parser buffers under every schedule with at most k deviations (k iterated 0,1,2(,3)) for a covering set of "
                "pool sizes, queue sizes, entity masks, buffers_type, read_meta and PBF pool on/off, plus the configuration product (all 16 masks with every format) at bound 0; the delivered object sequence is compared "
                "with the abstract object list on every complete execution and read() after end of data must throw.",
        "note": "Sequentially consistent scheduler, no spurious wake-ups; o5m is not part of this harness (no independent multi-block o5m source yet); schedules beyond the completed deviation bound and inputs other than the fixed 11-object data set are not covered.",
    },
    "C07": {
        "engine": "vsched", "level": "model_checking",
        "technique": "stateless model checking of the real Reader pipeline under a controlled scheduler, crossed with an exhaustive enumeration of consumer stop points and fault positions (fault-injecting decompressor, corrupted/truncated files)",
        "text": "Every pair of (consumer script: header yes/no x 0/1/2/all reads x close/destructor) and (fault: j-th decompressor read throws for every j, close throws, object n corrupt, truncation at every boundary / inside a block) "
                "runs on the real Reader for OPL, XML and PBF at deviation bound 0, and four scripts x every fault under every schedule with <= 1 (quick) | <= 2 (thorough) deviations; termination, thread and descriptor leaks, "
                "error reporting, no data after an error, no input read after close() and prefix delivery are checked on every execution.",
        "note": "Faults are injected at the decompressor seam and in the file bytes, not inside zlib/bzip2; sequentially consistent scheduler; a parser whose constructor throws is outside the enumerated fault set.",
    },
    "C14": {
        "engine": "benum", "level": "exploration",
        "technique": "exhaustive enumeration of every Unicode scalar value, every short sequence over a structural alphabet and every byte string of length <= 4 (guard page / ASan) through the real escape functions and parsers; every ordered pair of 20 strings in the same string slot of two objects of one buffer through the writers' output blocks (OPLOutputBlock -> opl_parse_line, XMLOutputBlock -> expat)",
        "text": "All 1 112 063 scalar values and all sequences up to length 4|5 over 22 structural symbols are escaped by the OPL and XML writers' functions and parsed back with opl_parse_string / expat; all byte strings of length 1-3 "
                "(and length 4 over a class-boundary alphabet; thorough: all 255^4) are escaped with the terminating NUL as the last readable byte (ASan and PROT_NONE guard page) - complete inside those spaces.",
        "note": "XML is parsed with expat directly (the library's own XML reader is not in the loop); strings longer than the enumerated lengths are covered only by deterministic families.",
    },
    "C16": {
        "engine": "benum", "level": "exploration",
        "technique": "exhaustive enumeration of all pairs/triples of a boundary-heavy object grid and of all short (type,id) streams against a lexicographic-key reference",
        "text": "All triples over the full attribute grid are run through the real comparators (strict-weak-order axioms + agreement with an independent key), "
                "all id pairs/triples over a wide 64-bit id set through id_order, all streams up to length 4-5 through CheckOrder, all short sequences through "
                "ObjectPointerCollection::sort + CheckOrder; complete inside the grid, so a wrong comparison on any grid value combination is found.",
        "note": "Grid values are boundary values (zero/negative/positive ids up to +-2^63-1, version and timestamp extremes); values between grid points are not enumerated. Comparators using timestamps are judged only on objects with set timestamps, as the property states.",
    },
    "C17": {
        "engine": "benum", "level": "exploration",
        "technique": "exhaustive enumeration of node lists / areas over a location alphabet x options x output formats, decoded by independent WKB/WKT/GeoJSON readers; ASan-isolated sweep of (magnitude, precision 0..17) number formatting",
        "text": "Every node list up to length 5|7 over {A,B,C,undefined,invalid} and every area over a ring alphabet is exported through every factory (WKB, EWKB, hex, WKT, EWKT, GeoJSON) x unique/all x forward/backward x identity/Mercator "
                "and decoded by the harness's own readers; geometry, counts and cross-format agreement are compared with a reference model on each case; number text is compared with an exact 128-bit decimal reference for every precision 0..17 under ASan.",
        "note": "Trusts the harness's decoders and the library's lonlat_to_mercator values (C18's subject); structure sweeps use precision 7 and 3, the precision axis is covered by the separate number sweep.",
    },
    "C18": {
        "engine": "benum", "level": "exploration",
        "technique": "exhaustive sweep of every fixed-point latitude (thorough: all 1.8e9, consecutive pairs) and dense longitude/boundary grids x zoom 0..30 through the real projection and tile functions",
        "text": "Every fixed-point latitude in [-90,90] (thorough) / every 37th plus +-10^4 steps around all special values (quick) is pushed through lat_to_y, lat_to_y_with_tan, the round trip and Tile for every zoom 0..30; "
                "accuracy (1 cm, quarter step), strict monotonicity between consecutive values, round trip, tile range, monotonicity and nesting are checked on every value.",
        "note": "The canonical formula is the library's own lat_to_y_with_tan as the property states (anchored additionally to a long-double spherical Mercator); longitudes are enumerated on a dense grid, not exhaustively (x is linear in lon).",
    },
    "C19": {
        "engine": "vsched", "level": "model_checking",
        "technique": "stateless model checking of the real Queue/Pool code: preemption-bounded (CHESS-style) and delay-bounded exhaustive schedule exploration under a controlled scheduler that owns all pthread/futex synchronisation and switches at every operation on a std::atomic of the library; Promela model of the Queue explored by Spin and bound to the code by two-way trace replay",
        "text": "Closed 2-5 thread drivers on the real Queue<int> and Pool are executed under every schedule with at most k deviations (k iterated 0..2/3 with free switches at blocking "
                "points, 0..3/4 under delay bounding), including every notify_one waiter choice and timed-wait timeout; loss, duplication, per-producer FIFO, the size bound, "
                "shutdown wake-up, exactly-once task execution, future results and ~Pool joining are checked on each complete execution; deadlock/livelock/hang are detected by the scheduler.",
        "note": "Sequentially consistent scheduler (the only atomics are seq_cst flags with hooks; non-atomic sharing is policed by the separate TSan pass); no spurious wake-ups; schedules with more deviations than the completed bound are not covered; bounds capped by the deadline are reported as such.",
    },
    "C13": {
        "engine": "benum", "level": "exploration",
        "technique": "exhaustive finite-domain enumeration (all short strings over the coordinate alphabet, every exponent, all 2^32 coordinates/timestamps in thorough) against an exact decimal/calendar reference",
        "text": "Every case of the stated finite spaces is executed on the real conversion functions and compared with an exact digit-string reference; "
                "thorough covers all 2^32 coordinates and timestamps and all strings of length <= 7, so inside those spaces the verdict is complete, not sampled.",
        "note": "Trusts the harness's decimal/calendar reference (cross-checked by the round-trip sweeps); strings longer than the enumerated shapes are outside the bound.",
    },
}
