// C03 - malformed or hostile input never causes memory errors, aborts or hangs.
//
// Exhaustive enumeration of complete edit neighbourhoods (E1..E9, see check.py RULE) of the small valid seed files
// produced by gen.py, plus all tiny files.  Every input is parsed in a forked child (ASan build; this source is built
// twice: -DNDEBUG and with assertions) through
//   P   the format's Parser driven synchronously on a pre-filled input queue (read_meta::yes, buffers_type::any)
//   P2  the same with read_meta::no, buffers_type::single and the input cut into 61-byte pieces
//   RB  the full osmium::io::Reader on a memory buffer          (E1, E5, E7..E9 and all gz/bz2 seeds)
//   RF  the full osmium::io::Reader on a file (memfd)           (E1, E5, E7..E9; gz/bz2 seeds in E1 and E2)
// ORACLE: the parse must terminate and either deliver buffers or throw something derived from std::exception; every
// delivered item is walked by walk_buffer() below, which checks *itself* that every sub-item, string and size field stays
// inside the extent of the item that owns it (a runaway iterator can stay inside the buffer's allocation for a long
// time without tripping ASan); only then the library's own accessors/iterators are run over the object (under ASan).
// Fail = sanitizer report, signal, abort/assert, non-std exception, extent violation, hang.
#include <benum/benum.hpp>

#include <osmium/io/any_input.hpp>
#include <osmium/io/reader.hpp>
#include <osmium/osm.hpp>

#include <cxxabi.h>
#include <sys/syscall.h>

#include <algorithm>
#include <cassert>
#include <fstream>
#include <sstream>

using benum::Args;
typedef const unsigned char uc;

// ------------------------------------------------------------------------------------------------ seeds
struct Fld { char kind; size_t off, width; uint64_t value; size_t cb, ce; bool framing; std::string label; };
struct Range { size_t a, b; std::string label; };
struct Seed {
    std::string name, fmt, data;
    std::vector<std::string> lab;     // one label per byte
    std::vector<Fld> flds;
    std::vector<Range> units, strs;
    bool structured() const { return fmt == "pbf" || fmt == "o5m"; }   // framed/nested modes available
};
struct Prefix { std::string fmt, name, pre, suf; int lf; };
static std::vector<Seed> SEEDS;
static std::vector<Prefix> PREFIXES;

#ifndef C03_DATA
#define C03_DATA "/verif/build/C03-data/seeds.txt"
#endif

static void load_data(const std::string& path) {
    std::ifstream in(path);
    if (!in) { fprintf(stderr, "cannot read %s\n", path.c_str()); exit(3); }
    std::string line;
    while (std::getline(in, line)) {
        std::istringstream s(line);
        std::string tag; s >> tag;
        if (tag == "SEED") { Seed sd; std::string hx; s >> sd.name >> sd.fmt >> hx; sd.data = benum::unhex(hx); sd.lab.resize(sd.data.size()); SEEDS.push_back(sd); }
        else if (tag == "LAB") { size_t a, b; std::string l; s >> a >> b >> l; for (size_t i = a; i < b; ++i) SEEDS.back().lab[i] = l; }
        else if (tag == "FLD") { Fld f; int fr; s >> f.kind >> f.off >> f.width >> f.value >> f.cb >> f.ce >> fr >> f.label; f.framing = fr; SEEDS.back().flds.push_back(f); }
        else if (tag == "UNIT") { Range r; s >> r.a >> r.b >> r.label; SEEDS.back().units.push_back(r); }
        else if (tag == "STR") { Range r; s >> r.a >> r.b >> r.label; SEEDS.back().strs.push_back(r); }
        else if (tag == "PFX") { Prefix p; std::string a, b; s >> p.fmt >> p.name >> a >> p.lf >> b; p.pre = a == "-" ? "" : benum::unhex(a); p.suf = b == "-" ? "" : benum::unhex(b); PREFIXES.push_back(p); }
    }
}

// ------------------------------------------------------------------------------------------------ edits
static std::string varint(uint64_t v) { std::string r; while (v > 0x7f) { r += static_cast<char>((v & 0x7f) | 0x80); v >>= 7; } r += static_cast<char>(v); return r; }
static std::string be32(uint64_t v) { std::string r; for (int i = 3; i >= 0; --i) r += static_cast<char>((v >> (8 * i)) & 0xff); return r; }
static std::string enc(char kind, uint64_t v) { return kind == 'b' ? be32(v) : varint(v); }

enum Mode { RAW = 0, FRAMED = 1, NESTED = 2 };
static const char* MODE_NAME[] = {"raw", "framed", "nested"};

// Replace bytes [a,b) of the seed by R.  FRAMED: every framing length field whose content encloses the edit is
// recomputed; NESTED: every length field.  A field whose own bytes are touched by the edit is left alone.  Width changes
// of re-encoded varints propagate to the fields enclosing them (fixpoint).  *fixed_framing / *fixed_other count the
// fields that received a new value (so the caller can drop cases identical to a weaker mode).
// [ea,eb) (default [a,b)) is the range whose enclosing fields are recomputed: a duplicated unit is a sibling of the original,
// so the fields enclosing the original count, not a child that happens to end where the copy is inserted.
static std::string apply_edit(const Seed& s, size_t a, size_t b, const std::string& R, Mode mode, int* fixed_framing = nullptr, int* fixed_other = nullptr,
                              size_t ea = ~size_t(0), size_t eb = ~size_t(0)) {
    if (ea == ~size_t(0)) { ea = a; eb = b; }
    struct Rep { size_t off, len; std::string bytes; };
    std::vector<Rep> reps;
    reps.push_back(Rep{a, b - a, R});
    int nf = 0, no = 0;
    if (mode != RAW) {
        const size_t n = s.flds.size();
        std::vector<uint64_t> nv(n); std::vector<size_t> nw(n); std::vector<char> elig(n);
        const int64_t d0 = static_cast<int64_t>(R.size()) - static_cast<int64_t>(b - a);
        for (size_t i = 0; i < n; ++i) {
            const Fld& f = s.flds[i];
            nv[i] = f.value; nw[i] = f.width;
            const bool touched = a < b ? (f.off < b && a < f.off + f.width) : (f.off < a && a < f.off + f.width);
            elig[i] = f.kind != 'i' && !touched && (mode == NESTED || f.framing);
        }
        for (int round = 0; round < 8; ++round) {
            bool changed = false;
            for (size_t i = 0; i < n; ++i) {
                if (!elig[i]) continue;
                const Fld& f = s.flds[i];
                int64_t delta = (f.cb <= ea && eb <= f.ce) ? d0 : 0;
                for (size_t j = 0; j < n; ++j) if (j != i && elig[j] && nw[j] != s.flds[j].width && f.cb <= s.flds[j].off && s.flds[j].off + s.flds[j].width <= f.ce)
                    delta += static_cast<int64_t>(nw[j]) - static_cast<int64_t>(s.flds[j].width);
                const uint64_t v = f.value + static_cast<uint64_t>(delta);
                const size_t w = enc(f.kind, v).size();
                if (v != nv[i] || w != nw[i]) { nv[i] = v; nw[i] = w; changed = true; }
            }
            if (!changed) break;
        }
        for (size_t i = 0; i < n; ++i) if (elig[i] && nv[i] != s.flds[i].value) {
            reps.push_back(Rep{s.flds[i].off, s.flds[i].width, enc(s.flds[i].kind, nv[i])});
            if (s.flds[i].framing) ++nf; else ++no;
        }
    }
    if (fixed_framing) *fixed_framing = nf;
    if (fixed_other) *fixed_other = no;
    std::stable_sort(reps.begin(), reps.end(), [](const Rep& x, const Rep& y) { return x.off < y.off; });
    std::string out; size_t pos = 0;
    for (const Rep& r : reps) {
        if (r.off < pos) continue;                       // a field swallowed by a deleted range
        out.append(s.data, pos, r.off - pos); out += r.bytes; pos = r.off + r.len;
    }
    out.append(s.data, pos, std::string::npos);
    return out;
}

// ------------------------------------------------------------------------------------------------ cases
enum { D_P = 1, D_RB = 2, D_RF = 4, D_P2 = 8 };
static const char* driver_name(int d) { return d == D_P ? "parser" : d == D_P2 ? "parser-nometa-single" : d == D_RB ? "reader-buffer" : "reader-file"; }

struct Case {
    bool skip = false;          // identical to the seed or to a case of another slot/mode
    std::string fmt;            // xml | pbf | o5m | opl [.gz|.bz2]
    std::string input;
    std::string cls;            // "<edit class>[-mode]/<field label>"
    std::string desc;           // human readable
    std::string gen;            // for inputs too long for a replay spec: "<seed>:<mode>:<a>:<b>:<fill length>" (regenerated from the seed)
    unsigned drivers = D_P;
    bool differs = true;
};

static const unsigned char INTERESTING[14] = {0x00, 0x01, 0x7f, 0x80, 0xff, '"', '<', '&', '%', ',', '=', '@', ' ', '\n'};
// slot 0..13 constants, 14: byte+1, 15: byte-1, 16: byte^0x80; returns -1 if the slot repeats an earlier value or the original
static int interesting_value(unsigned char orig, unsigned slot) {
    unsigned char v[17]; for (int i = 0; i < 14; ++i) v[i] = INTERESTING[i];
    v[14] = orig + 1; v[15] = orig - 1; v[16] = orig ^ 0x80;
    if (v[slot] == orig) return -1;
    for (unsigned i = 0; i < slot; ++i) if (v[i] == v[slot]) return -1;
    return v[slot];
}
static const int NLV = 14;
static bool length_value(const Fld& f, int idx, uint64_t* out) {
    const uint64_t L = f.value;
    const uint64_t v[NLV] = {0, 1, L - 1, L + 1, 1ull << 7, 1ull << 14, 1ull << 21, 1ull << 28, (1ull << 31) - 1, 1ull << 31, (1ull << 31) + 1, (1ull << 32) - 1, 1ull << 63, ~0ull};
    if (idx == 2 && L == 0) return false;
    if (v[idx] == L) return false;
    for (int i = 0; i < idx; ++i) if (v[i] == v[idx] && !(i == 2 && L == 0)) return false;
    if (f.kind == 'b' && v[idx] > 0xffffffffull) return false;
    *out = v[idx]; return true;
}
static const size_t LONGLEN[] = {1024, 1025, 65534, 65535, 65536, 65537};

enum Kind { K_TRUNC_RAW, K_TRUNC_FLD, K_SUB, K_DEL, K_INS, K_PAIR, K_LEN, K_TINY, K_LONG, K_UDEL, K_UDUP };
struct Block { Kind kind; int seed; Mode mode; int idx; uint64_t count, base; };
static std::vector<Block> BLOCKS;
static uint64_t TOTAL = 0;
static bool THOROUGH = false;
static void add_block(Kind k, int seed, Mode m, int idx, uint64_t count) { if (count) { BLOCKS.push_back(Block{k, seed, m, idx, count, TOTAL}); TOTAL += count; } }

static std::vector<Mode> modes_of(const Seed& s) { return s.structured() ? std::vector<Mode>{RAW, FRAMED, NESTED} : std::vector<Mode>{RAW}; }
static bool compressed(const Seed& s) { return s.fmt.find('.') != std::string::npos; }
static std::string base_fmt(const Seed& s) { return s.fmt == "pbfz" ? "pbf" : s.fmt; }

static std::string ONLY;      // debugging aid: restrict the enumeration to seeds/prefixes whose name contains this
static void build_blocks(const std::string& part) {
    BLOCKS.clear(); TOTAL = 0;
    for (int si = 0; si < static_cast<int>(SEEDS.size()); ++si) {
        const Seed& s = SEEDS[si];
        if (!ONLY.empty() && s.name.find(ONLY) == std::string::npos) continue;
        const size_t n = s.data.size();
        if (part == "E1") {
            add_block(K_TRUNC_RAW, si, RAW, 0, n);
            if (s.structured()) for (int fi = 0; fi < static_cast<int>(s.flds.size()); ++fi) if (s.flds[fi].kind != 'i')
                add_block(K_TRUNC_FLD, si, s.flds[fi].framing ? FRAMED : NESTED, fi, s.flds[fi].ce - s.flds[fi].cb);
        } else if (part == "E2") {
            add_block(K_SUB, si, RAW, 0, n * (THOROUGH ? 256 : 17));
        } else if (part == "E3") {
            for (Mode m : modes_of(s)) { add_block(K_DEL, si, m, 0, n); add_block(K_INS, si, m, 0, (n + 1) * 14); }
        } else if (part == "E4") {
            static const char* e4[] = {"pbf-dense", "pbf-way", "pbf-rel", "pbf-unknown", "pbf-sparse", "o5m-noinfo", "xml-ent", "xml-cs2", "xml-way",
                                       "opl-min", "opl-tabs", "opl-rel", "opl-esc"};       // the pair neighbourhood is 4335 x the seed length
            if (std::find(e4, e4 + sizeof(e4) / sizeof(e4[0]), s.name) != e4 + sizeof(e4) / sizeof(e4[0])) add_block(K_PAIR, si, RAW, 0, n * 15 * 289);
        } else if (part == "E5") {
            for (int fi = 0; fi < static_cast<int>(s.flds.size()); ++fi) { add_block(K_LEN, si, RAW, fi, NLV); if (s.structured()) add_block(K_LEN, si, NESTED, fi, NLV); }
        } else if (part == "E7") {
            for (int i = 0; i < static_cast<int>(s.strs.size()); ++i) add_block(K_LONG, si, s.structured() ? NESTED : RAW, i, sizeof(LONGLEN) / sizeof(LONGLEN[0]));
        } else if (part == "E8") {
            for (int i = 0; i < static_cast<int>(s.units.size()); ++i) { add_block(K_UDEL, si, s.structured() ? NESTED : RAW, i, 1); add_block(K_UDUP, si, s.structured() ? NESTED : RAW, i, 1); }
        }
    }
    if (part == "E6") {
        for (unsigned len = 0; len <= 3; ++len) for (int pi = 0; pi < static_cast<int>(PREFIXES.size()); ++pi) {
            const Prefix& p = PREFIXES[pi];
            unsigned maxlen = 2;
            if (THOROUGH && (p.name == "node-body" || p.name == "node-fields" || p.name == "data-blob")) maxlen = 3;
            if (len == 0 && p.name != "whole") continue;
            if (!ONLY.empty() && (p.fmt + "-" + p.name).find(ONLY) == std::string::npos) continue;
            if (len <= maxlen) add_block(K_TINY, pi, RAW, static_cast<int>(len), benum::ipow(256, len));
        }
    }
}

static std::string pbf_frame(const std::string& type, const std::string& payload) {
    std::string blob = "\x0a" + varint(payload.size()) + payload;
    std::string hdr = "\x0a" + varint(type.size()) + type + "\x18" + varint(blob.size());
    return be32(hdr.size()) + hdr + blob;
}

static Case make_case(uint64_t rank) {
    size_t lo = 0, hi = BLOCKS.size();
    while (hi - lo > 1) { size_t mid = (lo + hi) / 2; if (BLOCKS[mid].base <= rank) lo = mid; else hi = mid; }
    const Block& B = BLOCKS[lo];
    uint64_t k = rank - B.base;
    Case c;
    char buf[256];
    if (B.kind == K_TINY) {
        const Prefix& p = PREFIXES[B.seed];
        std::string body; for (int i = 0; i < B.idx; ++i) { body += static_cast<char>(k & 0xff); k >>= 8; }
        c.fmt = p.fmt;
        if (p.lf == -2) c.input = p.pre + pbf_frame("OSMData", body);
        else if (p.lf == -3) c.input = pbf_frame("OSMHeader", body);
        else { std::string pre = p.pre; if (p.lf >= 0) pre[p.lf] = static_cast<char>(pre.size() - p.lf - 1 + body.size() + p.suf.size()); c.input = pre + body + p.suf; }
        c.cls = "E6/" + p.name + "/len" + std::to_string(B.idx);
        c.desc = "tiny body " + benum::hex(body) + " after prefix '" + p.name + "'";
        return c;
    }
    const Seed& s = SEEDS[B.seed];
    const size_t n = s.data.size();
    c.fmt = base_fmt(s);
    const bool cheap_class = B.kind == K_TRUNC_RAW || B.kind == K_TRUNC_FLD || B.kind == K_LEN || B.kind == K_LONG || B.kind == K_UDEL || B.kind == K_UDUP;
    if (cheap_class) c.drivers |= D_RB | D_RF | D_P2;
    else if (compressed(s)) c.drivers |= (B.kind == K_SUB ? D_RB | D_RF : D_RB);     // both decompressor families in E1/E2, the buffer one in E3
    if (c.fmt == "pbf") c.drivers |= D_P2;
    int ff = 0, fo = 0;
    std::string ecl, label;
    auto lab_at = [&](size_t p) { return p < n ? s.lab[p] : std::string("eof"); };
    switch (B.kind) {
        case K_TRUNC_RAW:
            c.input = s.data.substr(0, k); ecl = "E1-raw"; label = lab_at(k);
            snprintf(buf, sizeof buf, "truncate file to %zu of %zu bytes", static_cast<size_t>(k), n); break;
        case K_TRUNC_FLD: {
            const Fld& f = s.flds[B.idx];
            c.input = apply_edit(s, f.cb + k, f.ce, "", B.mode, &ff, &fo); ecl = std::string("E1-") + MODE_NAME[B.mode]; label = f.label + ">" + lab_at(f.cb + k);
            snprintf(buf, sizeof buf, "truncate content of %s (field at %zu) to %zu of %zu bytes, lengths recomputed", f.label.c_str(), f.off, static_cast<size_t>(k), f.ce - f.cb); break; }
        case K_SUB: {
            const unsigned nv = THOROUGH ? 256 : 17;
            const size_t p = k / nv; const unsigned slot = k % nv;
            const unsigned char o = s.data[p];
            int v = THOROUGH ? (slot == o ? -1 : static_cast<int>(slot)) : interesting_value(o, slot);
            if (v < 0) { c.skip = true; return c; }
            c.input = s.data; c.input[p] = static_cast<char>(v); ecl = "E2"; label = lab_at(p);
            if (THOROUGH && compressed(s)) {      // the Reader drivers (threads) only for the interesting values, the rest through P (same decompressor code)
                bool interesting = false; for (unsigned sl = 0; sl < 17; ++sl) if (interesting_value(o, sl) == v) interesting = true;
                if (!interesting) c.drivers = D_P;
            }
            snprintf(buf, sizeof buf, "byte %zu: %02x -> %02x", p, o, v); break; }
        case K_DEL: {
            const size_t p = k;
            if (B.mode == RAW && p > 0 && s.data[p - 1] == s.data[p]) { c.skip = true; return c; }    // same file as deleting p-1
            c.input = apply_edit(s, p, p + 1, "", B.mode, &ff, &fo); ecl = std::string("E3del-") + MODE_NAME[B.mode]; label = lab_at(p);
            snprintf(buf, sizeof buf, "delete byte %zu (%02x)", p, static_cast<unsigned char>(s.data[p])); break; }
        case K_INS: {
            const size_t p = k / 14; const unsigned char v = INTERESTING[k % 14];
            if (B.mode == RAW && p > 0 && static_cast<unsigned char>(s.data[p - 1]) == v) { c.skip = true; return c; }
            c.input = apply_edit(s, p, p, std::string(1, static_cast<char>(v)), B.mode, &ff, &fo); ecl = std::string("E3ins-") + MODE_NAME[B.mode]; label = lab_at(p);
            snprintf(buf, sizeof buf, "insert %02x before byte %zu", v, p); break; }
        case K_PAIR: {
            const unsigned s2 = k % 17; k /= 17; const unsigned s1 = k % 17; k /= 17; const size_t d = k % 15 + 1; const size_t p1 = k / 15, p2 = p1 + d;
            if (p2 >= n) { c.skip = true; return c; }
            const int v1 = interesting_value(s.data[p1], s1), v2 = interesting_value(s.data[p2], s2);
            if (v1 < 0 || v2 < 0) { c.skip = true; return c; }
            c.input = s.data; c.input[p1] = static_cast<char>(v1); c.input[p2] = static_cast<char>(v2); ecl = "E4"; label = lab_at(p1) + "+" + lab_at(p2);
            snprintf(buf, sizeof buf, "byte %zu -> %02x and byte %zu -> %02x", p1, v1, p2, v2); break; }
        case K_LEN: {
            const Fld& f = s.flds[B.idx]; uint64_t v;
            if (!length_value(f, static_cast<int>(k), &v)) { c.skip = true; return c; }
            c.input = apply_edit(s, f.off, f.off + f.width, enc(f.kind, v), B.mode, &ff, &fo); ecl = std::string("E5-") + MODE_NAME[B.mode]; label = f.label;
            if (B.mode == NESTED && ff + fo == 0) { c.skip = true; return c; }
            snprintf(buf, sizeof buf, "%s field %s at %zu: %llu -> %llu", f.kind == 'i' ? "index" : "length", f.label.c_str(), f.off, static_cast<unsigned long long>(f.value), static_cast<unsigned long long>(v)); break; }
        case K_LONG: {
            const Range& r = s.strs[B.idx]; const size_t L = LONGLEN[k];
            c.input = apply_edit(s, r.a, r.b, std::string(L, 'A'), B.mode, &ff, &fo); ecl = std::string("E7-") + MODE_NAME[B.mode];
            c.gen = s.name + ":" + std::to_string(B.mode) + ":" + std::to_string(r.a) + ":" + std::to_string(r.b) + ":" + std::to_string(L); label = r.label + "#" + std::to_string(L);
            snprintf(buf, sizeof buf, "string at [%zu,%zu) (%s) replaced by %zu x 'A'", r.a, r.b, r.label.c_str(), L); break; }
        case K_UDEL: case K_UDUP: {
            const Range& r = s.units[B.idx];
            if (B.kind == K_UDEL) c.input = apply_edit(s, r.a, r.b, "", B.mode, &ff, &fo);
            else c.input = apply_edit(s, r.b, r.b, s.data.substr(r.a, r.b - r.a), B.mode, &ff, &fo, r.a, r.b);
            ecl = std::string(B.kind == K_UDEL ? "E8-" : "E9-") + MODE_NAME[B.mode]; label = r.label;
            snprintf(buf, sizeof buf, "%s unit %s [%zu,%zu)", B.kind == K_UDEL ? "delete" : "duplicate", r.label.c_str(), r.a, r.b); break; }
        default: break;
    }
    if ((B.kind == K_TRUNC_FLD || B.kind == K_DEL || B.kind == K_INS) && ((B.mode == FRAMED && ff == 0) || (B.mode == NESTED && fo == 0))) { c.skip = true; return c; }
    c.fmt = (s.fmt == "pbfz") ? "pbf" : s.fmt;
    c.cls = ecl + "/" + label;
    c.desc = "seed " + s.name + ": " + buf;
    c.differs = c.input != s.data;
    if (!c.differs) c.skip = true;
    return c;
}

// ------------------------------------------------------------------------------------------------ oracle: extent walk
static bool g_fail = false; static std::string g_what, g_detail;
static volatile uint64_t g_sink = 0;
static uint64_t g_objects = 0;
static bool xfail(const char* what, const std::string& detail) { if (!g_fail) { g_fail = true; g_what = std::string("extent/") + what; g_detail = detail; } return false; }
static size_t padded(size_t n) { return osmium::memory::padded_length(n); }
static std::string at(const char* t, uc* base, uc* p) { return std::string(t) + " at offset " + std::to_string(p - base) + " of its parent"; }

// a string of `size` bytes (including the terminator) at p must lie in [b,e) and end in NUL; `name` = the accessor that returns it
static bool chk_str(uc* b, uc* e, uc* p, size_t size, const std::string& name) {
    if (size < 1) return xfail((name + "-has-size-0").c_str(), "recorded string size 0 (no terminator belongs to the string)" + at("", b, p) + ": the accessor returns a pointer to whatever follows");
    if (p < b || p > e || size > static_cast<size_t>(e - p)) return xfail((name + "-outside-owner").c_str(), "string of recorded size " + std::to_string(size) + at("", b, p) + ", owner has " + std::to_string(e - b) + " bytes");
    if (p[size - 1] != 0) return xfail((name + "-unterminated").c_str(), "string of recorded size " + std::to_string(size) + " is not NUL-terminated inside its owner");
    g_sink += strlen(reinterpret_cast<const char*>(p));
    return true;
}
static bool walk_taglist(uc* b, uc* e) {          // [b,e) = the TagList item
    uc* p = b + sizeof(osmium::TagList);
    while (p < e) {
        uc* kz = static_cast<uc*>(memchr(p, 0, e - p));
        if (!kz) return xfail("Tag::key-unterminated-in-TagList", at("key", b, p));
        uc* v = kz + 1;
        if (v >= e) return xfail("Tag::value-outside-TagList", at("key", b, p) + " ends the list: the value would start at the list's end (tag list of " + std::to_string(e - b) + " bytes)");
        uc* vz = static_cast<uc*>(memchr(v, 0, e - v));
        if (!vz) return xfail("Tag::value-unterminated-in-TagList", at("value", b, v));
        g_sink += (kz - p) + (vz - v);
        p = vz + 1;
    }
    return true;
}
static bool walk_noderefs(uc* b, uc* e) {
    if ((e - b - sizeof(osmium::NodeRefList)) % sizeof(osmium::NodeRef) != 0) return xfail("NodeRefList-size-not-multiple-of-NodeRef", std::to_string(e - b) + " bytes");
    for (uc* p = b + sizeof(osmium::NodeRefList); p < e; p += sizeof(osmium::NodeRef)) g_sink += reinterpret_cast<const osmium::NodeRef*>(p)->ref();
    return true;
}
static bool walk_item(uc* p, uc* limit, int depth);
static bool walk_members(uc* b, uc* e, int depth) {
    uc* p = b + sizeof(osmium::RelationMemberList);
    while (p < e) {
        if (static_cast<size_t>(e - p) < sizeof(osmium::RelationMember)) return xfail("RelationMember-outside-list", at("member", b, p));
        const auto* m = reinterpret_cast<const osmium::RelationMember*>(p);
        if (!chk_str(p, e, p + sizeof(osmium::RelationMember), m->m_role_size, "RelationMember::role")) return false;
        uc* nx = p + padded(sizeof(osmium::RelationMember) + m->m_role_size);
        if (nx > e) return xfail("RelationMember-padding-outside-list", at("member", b, p));
        if (m->full_member()) {
            if (depth > 2 || !walk_item(nx, e, depth + 1)) return xfail("RelationMember::get_object-outside-list", at("member", b, p));
            nx += reinterpret_cast<const osmium::memory::Item*>(nx)->byte_size();
        }
        g_sink += m->ref();
        p = nx;
    }
    return true;
}
static bool walk_discussion(uc* b, uc* e) {
    uc* p = b + sizeof(osmium::ChangesetDiscussion);
    while (p < e) {
        if (static_cast<size_t>(e - p) < sizeof(osmium::ChangesetComment)) return xfail("ChangesetComment-outside-discussion", at("comment", b, p));
        const auto* c = reinterpret_cast<const osmium::ChangesetComment*>(p);
        uc* user = p + sizeof(osmium::ChangesetComment);
        if (!chk_str(p, e, user, c->m_user_size, "ChangesetComment::user")) return false;
        if (!chk_str(p, e, user + c->m_user_size, c->m_text_size, "ChangesetComment::text")) return false;
        uc* nx = p + padded(sizeof(osmium::ChangesetComment) + c->m_user_size + c->m_text_size);
        if (nx > e) return xfail("ChangesetComment-padding-outside-discussion", at("comment", b, p));
        p = nx;
    }
    return true;
}
static bool walk_subitems(uc* b, uc* p, uc* e, int depth) {
    while (p < e) {
        if (e - p < 8) return xfail("subitem-header-outside-parent", at("sub-item", b, p));
        const auto* it = reinterpret_cast<const osmium::memory::Item*>(p);
        const size_t sz = it->byte_size();
        if (sz < 8 || padded(sz) > static_cast<size_t>(e - p)) return xfail("subitem-outside-parent", std::string(osmium::item_type_to_name(it->type())) + " of " + std::to_string(sz) + " bytes" + at("", b, p) + " which has " + std::to_string(e - b) + " bytes");
        bool ok = true;
        switch (it->type()) {
            case osmium::item_type::tag_list: ok = walk_taglist(p, p + sz); break;
            case osmium::item_type::way_node_list: case osmium::item_type::outer_ring: case osmium::item_type::inner_ring: ok = walk_noderefs(p, p + sz); break;
            case osmium::item_type::relation_member_list: case osmium::item_type::relation_member_list_with_full_members: ok = walk_members(p, p + sz, depth); break;
            case osmium::item_type::changeset_discussion: ok = walk_discussion(p, p + sz); break;
            default: break;
        }
        if (!ok) return false;
        p += padded(sz);
    }
    return true;
}
// the library's own accessors and iterators, run only over an item whose layout passed the extent walk
static void api_walk(const osmium::memory::Item& item) {
    uint64_t h = 0;
    auto tags = [&](const osmium::TagList& tl) { for (const auto& t : tl) h += strlen(t.key()) + strlen(t.value()); h += tl.size(); };
    switch (item.type()) {
        case osmium::item_type::node: case osmium::item_type::way: case osmium::item_type::relation: case osmium::item_type::area: {
            const auto& o = static_cast<const osmium::OSMObject&>(item);
            h += o.id() + o.version() + o.uid() + o.changeset() + uint32_t(o.timestamp()) + o.visible() + strlen(o.user());
            tags(o.tags());
            for (const auto& sub : o) h += sub.byte_size();
            if (item.type() == osmium::item_type::node) h += static_cast<const osmium::Node&>(item).location().x();
            if (item.type() == osmium::item_type::way) for (const auto& nr : static_cast<const osmium::Way&>(item).nodes()) h += nr.ref() + nr.location().y();
            if (item.type() == osmium::item_type::relation) for (const auto& m : static_cast<const osmium::Relation&>(item).members()) {
                h += m.ref() + static_cast<int>(m.type()) + strlen(m.role());
                if (m.full_member()) h += m.get_object().id();
            }
            break; }
        case osmium::item_type::changeset: {
            const auto& c = static_cast<const osmium::Changeset&>(item);
            h += c.id() + c.uid() + c.num_changes() + c.num_comments() + strlen(c.user()) + uint32_t(c.created_at()) + uint32_t(c.closed_at()) + c.bounds().valid();
            tags(c.tags());
            for (const auto& cm : c.discussion()) h += strlen(cm.user()) + strlen(cm.text()) + cm.uid() + uint32_t(cm.date());
            h += c.discussion().size();
            break; }
        default: break;
    }
    g_sink += h;
}
static bool walk_item(uc* p, uc* limit, int depth) {
    if (limit - p < 8) return xfail("item-header-outside-buffer", "");
    const auto* it = reinterpret_cast<const osmium::memory::Item*>(p);
    const size_t sz = it->byte_size();
    if (sz < 8 || padded(sz) > static_cast<size_t>(limit - p)) return xfail("item-outside-buffer", std::string(osmium::item_type_to_name(it->type())) + " of " + std::to_string(sz) + " bytes, " + std::to_string(limit - p) + " left");
    uc* e = p + sz;
    switch (it->type()) {
        case osmium::item_type::node: case osmium::item_type::way: case osmium::item_type::relation: case osmium::item_type::area: {
            const auto& o = *reinterpret_cast<const osmium::OSMObject*>(p);
            const size_t so = o.sizeof_object();
            if (sz < so) return xfail("OSMObject-smaller-than-its-header", std::to_string(sz));
            if (!chk_str(p, e, p + so, o.user_size(), "OSMObject::user")) return false;
            uc* sub = p + padded(so + o.user_size());
            if (sub > e) return xfail("OSMObject::subitems-outside-object", "");
            if (!walk_subitems(p, sub, e, depth)) return false;
            break; }
        case osmium::item_type::changeset: {
            const auto& c = *reinterpret_cast<const osmium::Changeset*>(p);
            if (sz < sizeof(osmium::Changeset)) return xfail("Changeset-smaller-than-its-header", std::to_string(sz));
            if (!chk_str(p, e, p + sizeof(osmium::Changeset), c.m_user_size, "Changeset::user")) return false;
            uc* sub = p + padded(sizeof(osmium::Changeset) + c.m_user_size);
            if (sub > e) return xfail("Changeset::subitems-outside-changeset", "");
            if (!walk_subitems(p, sub, e, depth)) return false;
            break; }
        default: break;
    }
    api_walk(*it);
    return true;
}
static bool walk_buffer(const osmium::memory::Buffer& buf) {
    uc* p = buf.data(); uc* e = p + buf.committed();
    while (p < e) {
        if (!walk_item(p, e, 0)) return false;
        ++g_objects;
        p += padded(reinterpret_cast<const osmium::memory::Item*>(p)->byte_size());
    }
    return true;
}

// ------------------------------------------------------------------------------------------------ drivers
struct Outcome { bool threw = false; std::string extype; bool header_ok = false; uint64_t objects = 0; bool fail = false; std::string what, detail; };

static std::string demangle(const char* n) { int st = 0; char* d = abi::__cxa_demangle(n, nullptr, nullptr, &st); std::string r = (st == 0 && d) ? d : n; free(d); return r; }

template <class F>
static void guarded(Outcome& o, F f) {       // classify what escapes
    try { f(); }
    catch (const std::exception& e) { o.threw = true; o.extype = demangle(typeid(e).name()); }
    catch (...) { o.fail = true; o.what = "nonstd-exception"; o.detail = "something not derived from std::exception escaped"; }
}
static osmium::thread::Pool& my_pool() { static osmium::thread::Pool pool{1}; return pool; }

static int pool_env = -1;      // what OSMIUM_USE_POOL_THREADS_FOR_PBF_PARSING currently says (-1 unknown, 0 false, 1 unset)
static Outcome drive_parser(const std::string& fmt, const std::string& input, bool variant2) {
    using namespace osmium::io;
    using namespace osmium::io::detail;
    Outcome o;
    g_fail = false; g_objects = 0;
    static std::map<std::string, File> files;          // parsing the format string once per format, not once per case
    auto fit = files.find(fmt); if (fit == files.end()) fit = files.emplace(fmt, File{std::string{}, fmt}).first;
    const File& file = fit->second;
    std::vector<std::string> chunks; std::exception_ptr in_exc;
    if (file.compression() != file_compression::none) {        // what the Reader's read thread does
        try {
            auto d = CompressionFactory::instance().create_decompressor(file.compression(), input.data(), input.size());
            for (;;) { std::string s = d->read(); if (s.empty()) break; chunks.push_back(std::move(s)); }
            d->close();
        } catch (...) { in_exc = std::current_exception(); }
    } else if (!variant2) { if (!input.empty()) chunks.push_back(input); }
    else for (size_t p = 0; p < input.size(); p += 61) chunks.push_back(input.substr(p, 61));      // variant 2: input arrives in 61-byte pieces
    if (pool_env != 0) { setenv("OSMIUM_USE_POOL_THREADS_FOR_PBF_PARSING", "false", 1); pool_env = 0; }     // decode blobs inline: no threads in this driver
    future_string_queue_type inq{0, "in"};
    future_buffer_queue_type outq{0, "out"};
    std::promise<Header> hp; std::future<Header> hf = hp.get_future();
    std::atomic<std::size_t> off{0};
    parser_arguments args{my_pool(), -1, inq, outq, hp, &off, osmium::osm_entity_bits::all, variant2 ? read_meta::no : read_meta::yes,
                          variant2 ? buffers_type::single : buffers_type::any, false};
    for (auto& c : chunks) add_to_queue(inq, std::move(c));
    if (in_exc) add_to_queue<std::string>(inq, std::move(in_exc)); else add_end_of_data_to_queue(inq);
    guarded(o, [&]() {
        auto parser = ParserFactory::instance().get_creator_function(file)(args);
        parser->parse();                    // catches everything itself and hands it to the output queue
    });                                     // parser destroyed here (builder destructors run)
    if (o.fail) return o;
    Outcome ho; guarded(ho, [&]() { hf.get(); }); o.header_ok = !ho.threw && !ho.fail;
    if (ho.fail) return ho;
    guarded(o, [&]() {
        queue_wrapper<osmium::memory::Buffer> q{outq};
        for (;;) { osmium::memory::Buffer b = q.pop(); if (!b) break; if (!walk_buffer(b)) break; }
    });
    o.objects = g_objects;
    if (g_fail) { o.fail = true; o.what = g_what; o.detail = g_detail; }
    return o;
}

static Outcome drive_reader(const std::string& fmt, const std::string& input, bool from_file) {
    Outcome o;
    pool_env = 1;
    g_fail = false; g_objects = 0;
    unsetenv("OSMIUM_USE_POOL_THREADS_FOR_PBF_PARSING");       // the Reader runs as shipped: blobs are decoded in the pool
    int mfd = -1; char path[64] = "";
    if (from_file) {
        mfd = static_cast<int>(syscall(SYS_memfd_create, "c03", 0u));
        if (mfd < 0) { perror("memfd_create"); _exit(3); }
        size_t w = 0; while (w < input.size()) { ssize_t k = write(mfd, input.data() + w, input.size() - w); if (k <= 0) _exit(3); w += static_cast<size_t>(k); }
        snprintf(path, sizeof path, "/proc/self/fd/%d", mfd);
    }
    guarded(o, [&]() {
        const osmium::io::File file = from_file ? osmium::io::File{std::string{path}, fmt} : osmium::io::File{input.empty() ? "" : input.data(), input.size(), fmt};
        osmium::io::Reader reader{file};
        Outcome ho; guarded(ho, [&]() { reader.header(); }); o.header_ok = !ho.threw && !ho.fail;
        if (ho.fail) { o = ho; return; }
        while (osmium::memory::Buffer b = reader.read()) { if (!walk_buffer(b)) break; }
        reader.close();
    });
    if (mfd >= 0) close(mfd);
    o.objects = g_objects;
    if (g_fail) { o.fail = true; o.what = g_what; o.detail = g_detail; }
    return o;
}

// ------------------------------------------------------------------------------------------------ shared state, keys, reports
struct Shared {
    volatile int cur_driver;
    volatile int fail;
    char what[240]; char detail[1600];
    struct { uint64_t h; uint32_t n; } dedup[8192];
    uint64_t sets[4096];
};
static Shared* S;
static benum::Counters C;
static uint64_t fnv(const std::string& s) { uint64_t h = 1469598103934665603ull; for (unsigned char c : s) { h ^= c; h *= 1099511628211ull; } return h ? h : 1; }
static uint32_t dedup_bump(const std::string& key) {     // returns the count before the bump
    uint64_t h = fnv(key);
    for (size_t i = h % 8192, n = 0; n < 8192; i = (i + 1) % 8192, ++n) {
        if (S->dedup[i].h == 0) S->dedup[i].h = h;
        if (S->dedup[i].h == h) return S->dedup[i].n++;
    }
    return 0;
}
static uint32_t dedup_count(const std::string& key) {
    uint64_t h = fnv(key);
    for (size_t i = h % 8192, n = 0; n < 8192; i = (i + 1) % 8192, ++n) { if (S->dedup[i].h == 0) return 0; if (S->dedup[i].h == h) return S->dedup[i].n; }
    return 0;
}
static bool first_time(const std::string& v) {
    uint64_t h = fnv(v);
    for (size_t i = h % 4096, n = 0; n < 4096; i = (i + 1) % 4096, ++n) { if (S->sets[i] == h) return false; if (S->sets[i] == 0) { S->sets[i] = h; return true; } }
    return false;
}
static std::string keyify(std::string s) { std::string r; for (char c : s) { if (c == ' ' || c == '\t') r += '_'; else if (c == '"' || c == '\'' || c == '`') continue; else r += c; } return r.substr(0, 150); }

// what went wrong, from the way a child died: asan/<kind>@<innermost osmium function>, assert/<function>:<expression>, ...
static std::string classify_death(const std::string& what, const std::string& err) {
    std::string dc = benum::death_class(what, err);
    if (dc.compare(0, 7, "assert/") == 0) {
        size_t p = err.find(": Assertion `");
        std::string fn = "?";
        if (p != std::string::npos) {
            size_t ls = err.rfind('\n', p); ls = ls == std::string::npos ? 0 : ls + 1;
            std::string head = err.substr(ls, p - ls);               // prog: file:line: function
            size_t q = head.find(": ", head.find(": ") + 2);
            if (q != std::string::npos) {
                std::string sig = head.substr(q + 2); int depth = 0; std::string name;
                for (char ch : sig) { if (ch == '<') ++depth; else if (ch == '>') --depth; else if (ch == '(' && depth == 0) break; else if (ch == ' ' && depth == 0) name.clear(); else if (depth == 0) name += ch; }
                fn = name;
            }
        }
        std::string expr = dc.substr(7); size_t amp = expr.find(" && \""); if (amp != std::string::npos) expr = expr.substr(0, amp);
        return keyify("assert/" + fn + ":" + expr.substr(0, 70));
    }
    if (dc == "terminate") { size_t p = err.find("instance of '"); if (p != std::string::npos) { size_t e = err.find('\'', p + 13); return keyify("terminate/" + err.substr(p + 13, e - p - 13)); } }
    return keyify(dc);
}
// Class key: <what went wrong>/<format>/<edit class>[/<field>].  'what' of an assertion, an extent violation or a sanitizer report
// with a libosmium frame already names the library function and the broken invariant, so the field (element / message field /
// dataset field of the edited position, without sub-position) is only added for the kinds that do not (signals, hangs, ...).
static std::string coarse_label(const std::string& l) {
    std::string r;
    for (const std::string& part0 : std::vector<std::string>{l.substr(0, l.find('+')), l.find('+') == std::string::npos ? std::string() : l.substr(l.find('+') + 1)}) {
        if (part0.empty()) continue;
        std::string part = part0;
        size_t gt = part.rfind('>'); if (gt != std::string::npos) part = part.substr(gt + 1);
        part = part.substr(0, part.find_first_of(":#@/"));
        if (r.empty()) r = part; else if (r != part) r += "+" + part;
    }
    return r;
}
static std::string make_key(const std::string& what, const Case& c, int driver) {
    std::string ecl = c.cls.substr(0, c.cls.find('/'));
    ecl = ecl.substr(0, ecl.find('-'));
    const bool names_function = what.compare(0, 7, "assert/") == 0 || what.compare(0, 7, "extent/") == 0 ||
                                (what.compare(0, 5, "asan/") == 0 && what.find("@osmium::") != std::string::npos);
    std::string key = what + "/" + c.fmt + "/" + ecl;
    if (!names_function) key += "/" + coarse_label(c.cls.substr(c.cls.find('/') + 1));
    if (driver == D_RB || driver == D_RF) key += std::string("/") + driver_name(driver);
    return keyify(key);
}
static const size_t MAX_SPEC_INPUT = 1900;     // the protocol caps a spec at 4000 characters
static std::string make_spec(const Case& c) {
    return c.fmt + "|" + std::to_string(c.drivers) + "|" + c.cls + "|" + (c.input.size() <= MAX_SPEC_INPUT ? benum::hex(c.input) : "gen:" + c.gen);
}

// Run all drivers of one case; returns the first failure. Called inside a forked child only.
static Outcome run_case_body(const Case& c, std::string* outcome_text) {
    Outcome last;
    static const int order[] = {D_P, D_P2, D_RB, D_RF};
    for (int d : order) {
        if (!(c.drivers & d)) continue;
        S->cur_driver = d;
        auto t0 = std::chrono::steady_clock::now();
        Outcome o = (d == D_P || d == D_P2) ? drive_parser(c.fmt, c.input, d == D_P2) : drive_reader(c.fmt, c.input, d == D_RF);
        C[d == D_P ? "us_parser" : d == D_P2 ? "us_parser2" : d == D_RB ? "us_reader_buffer" : "us_reader_file"] += static_cast<uint64_t>(std::chrono::duration<double, std::micro>(std::chrono::steady_clock::now() - t0).count());
        ++C[d == D_P ? "runs_parser" : d == D_P2 ? "runs_parser2" : d == D_RB ? "runs_reader_buffer" : "runs_reader_file"];
        if (d == D_P) { last = o; if (outcome_text) *outcome_text = c.fmt + ":" + (o.threw ? o.extype : std::string("ok")) + (o.objects ? "+objects" : ""); }
        if (o.fail) return o;
    }
    last.fail = false;
    return last;
}

struct Alone { bool failed = false; std::string what, detail; int driver = 0; };
// one case alone in a fresh child: the verdict that is reported (and that --replay reproduces)
static Alone run_alone(const Case& c, double timeout_s) {
    Alone r;
    char errpath[96]; snprintf(errpath, sizeof errpath, "/dev/shm/c03-alone-%d.err", static_cast<int>(getpid()));
    fflush(stdout); fflush(stderr);
    S->fail = 0; S->cur_driver = 0;
    pid_t pid = fork();
    if (pid < 0) { perror("fork"); exit(3); }
    if (pid == 0) {
        int fd = open(errpath, O_WRONLY | O_CREAT | O_TRUNC, 0600); if (fd >= 0) { dup2(fd, 2); close(fd); }
        Outcome o = run_case_body(c, nullptr);
        if (o.fail) { snprintf(S->what, sizeof S->what, "%s", o.what.c_str()); snprintf(S->detail, sizeof S->detail, "%s", o.detail.c_str()); S->fail = 1; _exit(42); }
        _exit(0);
    }
    auto t0 = std::chrono::steady_clock::now(); int status = 0; bool hung = false;
    for (;;) {
        pid_t w = waitpid(pid, &status, WNOHANG);
        if (w == pid) break;
        if (std::chrono::duration<double>(std::chrono::steady_clock::now() - t0).count() > timeout_s) { kill(pid, SIGKILL); waitpid(pid, &status, 0); hung = true; break; }
        usleep(1000);
    }
    r.driver = S->cur_driver;
    std::string err = benum::slurp(errpath); unlink(errpath);
    if (hung) { r.failed = true; r.what = "hang"; r.detail = "no termination within " + std::to_string(static_cast<int>(timeout_s)) + " s (case run alone)"; }
    else if (WIFEXITED(status) && WEXITSTATUS(status) == 0) r.failed = false;
    else if (WIFEXITED(status) && WEXITSTATUS(status) == 42 && S->fail) { r.failed = true; r.what = S->what; r.detail = S->detail; }
    else {
        std::string what = WIFSIGNALED(status) ? "signal:" + std::to_string(WTERMSIG(status)) : "exit:" + std::to_string(WEXITSTATUS(status));
        r.failed = true; r.what = classify_death(what, err);
        size_t p = err.find("ERROR: AddressSanitizer"); if (p == std::string::npos) p = err.find("Assertion `"); if (p == std::string::npos) p = 0;
        r.detail = "child died (" + what + "): " + benum::clean(err.substr(p, 700), 900);
    }
    S->fail = 0;
    return r;
}

static void emit_violation(const Case& c, const Alone& r) {
    std::string key = make_key(r.what, c, r.driver);
    ++C["violating_cases"];
    if (dedup_bump(key) < 3) {
        std::string detail = "[" + std::string(driver_name(r.driver)) + ", " +
#ifdef NDEBUG
            "NDEBUG build"
#else
            "assert build"
#endif
            + "] " + c.desc + " (" + std::to_string(c.input.size()) + " bytes as " + c.fmt + "): " + r.detail;
        if (c.input.size() <= 160) detail += " | input=" + benum::hex(c.input);
        benum::viol(key, detail, (c.input.size() <= MAX_SPEC_INPUT || !c.gen.empty()) ? make_spec(c) : std::string());
    }
}

static const double CASE_TIMEOUT = 10.0;

// the enumeration of one part
static bool explore(const Args& a, const std::string& part) {
    // samples: one per process in three of the shards of the NDEBUG build (the driver keeps 24 over all parts), picked by a
    // hash of rank and seed so that they spread over seeds and edit positions
    unsigned n_samples = 0; const uint64_t smp_mod = std::max<uint64_t>(1, TOTAL / (a.nshards * 4ull));
#ifdef NDEBUG
    const bool sampling_shard = a.shard % 5 == 0 && a.shard < 15;
#else
    const bool sampling_shard = false;
#endif
    auto want_sample = [&](uint64_t rank) { return sampling_shard && n_samples < 1 && ((rank ^ (a.seed + 0x9e37u)) * 0x9E3779B97F4A7C15ull >> 20) % smp_mod == 0 && ++n_samples; };
    benum::Isolation iso; iso.case_timeout_s = CASE_TIMEOUT;
    auto body = [&](uint64_t rank) {
        Case c = make_case(rank);
        if (c.skip) { ++C["skipped_identical"]; return; }
        std::string text;
        Outcome o = run_case_body(c, &text);
        ++C["evaluations"];
        ++C[("cases_" + c.cls.substr(0, c.cls.find('/'))).c_str()];
        if (o.fail) {
            std::string key = make_key(o.what, c, S->cur_driver);
            if (dedup_count(key) >= 3) { dedup_bump(key); ++C["violating_cases"]; ++C["distinct_nontrivial"]; return; }   // already reported thrice: count only
            snprintf(S->what, sizeof S->what, "%s", o.what.c_str()); snprintf(S->detail, sizeof S->detail, "%s", o.detail.c_str()); S->fail = 1;
            fflush(stdout); _exit(42);                                                                              // let the parent confirm it alone
        }
        const bool nontrivial = c.differs && (o.objects > 0 || (c.fmt.compare(0, 3, "opl") != 0 && o.header_ok));
        if (nontrivial) ++C["distinct_nontrivial"];
        if (o.threw) ++C[o.objects ? "threw_after_delivering_objects" : "threw"]; else ++C["accepted"];
        C["objects_traversed"] += o.objects;
        if (first_time(text)) benum::setv("outcomes", text);
        if (want_sample(rank)) benum::sample(c.cls + " | " + c.desc + " -> " + text + " objects=" + std::to_string(o.objects) + (c.input.size() <= 48 ? " input=" + benum::hex(c.input) : ""));
    };
    auto on_death = [&](uint64_t rank, const std::string& what, const std::string& err) {
        Case c = make_case(rank);
        ++C["child_restarts"];
        if (what != "exit:42") { ++C["evaluations"]; ++C[("cases_" + c.cls.substr(0, c.cls.find('/'))).c_str()]; }   // exit 42: counted by the child
        ++C["distinct_nontrivial"];
        const int drv = S->cur_driver;
        std::string w = (what == "exit:42" && S->fail) ? std::string(S->what) : classify_death(what, err);
        S->fail = 0;
        if (what == "hang") {      // already re-run alone with a x10 limit by run_isolated
            Alone r; r.failed = true; r.what = "hang"; r.driver = drv; r.detail = "no termination within " + std::to_string(static_cast<int>(CASE_TIMEOUT * 10)) + " s when re-run alone";
            emit_violation(c, r); return;
        }
        std::string key = make_key(w, c, drv);
        if (dedup_count(key) >= 3) { dedup_bump(key); ++C["violating_cases"]; return; }
        Alone r = run_alone(c, CASE_TIMEOUT * 10);
        if (r.failed) { emit_violation(c, r); return; }
        // failed in sequence (heap state left by earlier cases) but not alone: reported without a replay spec
        ++C["unconfirmed_deaths"];
        std::string ukey = keyify("unconfirmed/" + key);
        if (dedup_bump(ukey) < 3) benum::viol(ukey, "failed after earlier cases in the same process but not when run alone: " + c.desc + ": " + what + " " + benum::clean(err.substr(0, 500), 600), "");
    };
    return benum::run_isolated(a, 0, TOTAL, body, on_death, iso);
}

static std::vector<std::string> split(const std::string& s, char sep) { std::vector<std::string> r; size_t p = 0; for (;;) { size_t q = s.find(sep, p); r.push_back(s.substr(p, q == std::string::npos ? q : q - p)); if (q == std::string::npos) break; p = q + 1; } return r; }

int main(int argc, char** argv) {
    Args a = benum::parse_args(argc, argv);
    S = static_cast<Shared*>(mmap(nullptr, sizeof(Shared), PROT_READ | PROT_WRITE, MAP_SHARED | MAP_ANONYMOUS, -1, 0));
    memset(S, 0, sizeof(Shared));
    THOROUGH = a.thorough;
    {   // the Reader drivers create 2-3 threads per case; 8 MiB default stacks cost ASan ~5 ms each to set up and tear down
        pthread_attr_t at; pthread_attr_init(&at); pthread_attr_setstacksize(&at, 512 * 1024); pthread_setattr_default_np(&at); pthread_attr_destroy(&at);
    }
    if (a.replay) {
        std::vector<std::string> f = split(a.replay_spec, '|');
        if (f.size() != 4) { fprintf(stderr, "bad spec\n"); return 3; }
        Case c; c.fmt = f[0]; c.drivers = static_cast<unsigned>(atoi(f[1].c_str())); c.cls = f[2]; c.desc = "replay";
        if (f[3].compare(0, 4, "gen:") == 0) {          // long input: regenerate it from the seed file
            std::vector<std::string> g = split(f[3].substr(4), ':');
            load_data(C03_DATA);
            for (const Seed& sd : SEEDS) if (g.size() == 5 && sd.name == g[0])
                c.input = apply_edit(sd, strtoull(g[2].c_str(), nullptr, 10), strtoull(g[3].c_str(), nullptr, 10), std::string(strtoull(g[4].c_str(), nullptr, 10), 'A'), static_cast<Mode>(atoi(g[1].c_str())));
            c.gen = f[3].substr(4); c.desc = "replay of " + c.gen;
        } else c.input = benum::unhex(f[3]);
        Alone r = run_alone(c, CASE_TIMEOUT * 10);
        if (r.failed) emit_violation(c, r); else benum::note("replay: case passes");
        return 0;
    }
    std::string part, data = C03_DATA;
    for (size_t i = 0; i + 1 < a.rest.size(); ++i) { if (a.rest[i] == "--part") part = a.rest[i + 1]; if (a.rest[i] == "--data") data = a.rest[i + 1]; if (a.rest[i] == "--only") ONLY = a.rest[i + 1]; }
    load_data(data);
    build_blocks(part);
    if (std::find(a.rest.begin(), a.rest.end(), "--count") != a.rest.end()) { printf("%s %llu\n", part.c_str(), static_cast<unsigned long long>(TOTAL)); return 0; }
    bool complete = explore(a, part);
    C.emit();
#ifdef NDEBUG
    const char* bm = "NDEBUG";
#else
    const char* bm = "assert";
#endif
    static const std::map<std::string, std::string> what = {
        {"E1", "E1 every truncation length of every seed (raw file; content of every framing/nested length field with lengths recomputed)"},
        {"E2", a.thorough ? "E2 every single-byte substitution, position x all 255 other values" : "E2 every single-byte substitution, position x 17 interesting values"},
        {"E3", "E3 every single-byte deletion and every insertion of 14 interesting bytes at every position (raw / framed / nested lengths recomputed)"},
        {"E4", "E4 every pair of interesting substitutions within a 16-byte window (13 seeds)"},
        {"E5", "E5 every length field and string-table index x 14 boundary values (raw / enclosing lengths recomputed)"},
        {"E6", a.thorough ? "E6 every byte string of length <= 2 as whole file of each format and after every prefix, <= 3 after 3 prefixes (o5m node dataset, OPL 'n1 ', PBF data blob payload)" : "E6 every byte string of length <= 2 as whole file of each format and after every prefix"},
        {"E7", "E7 every string slot x lengths {1024,1025,65534,65535,65536,65537}"},
        {"E8", "E8/E9 every structural unit (element, attribute, protobuf field, blob, dataset, line, OPL field) deleted / duplicated"}};
    benum::bound(what.at(part) + " [" + bm + " build, " + std::to_string(TOTAL) + " ranks]", complete);
    return 0;
}
