"""C03 - malformed or hostile input never causes memory errors, aborts or hangs (DESIGN.md section 5, C03)."""
import os
import subprocess
import sys

LEVEL = "exploration"
RULE = ("complete edit neighbourhoods of 39 small valid seed files (9 PBF with raw blobs, 2 PBF with zlib/lz4 blobs, 8 o5m/o5c, 8 XML, "
        "8 OPL, 6 gzip/bzip2-compressed of which two with two streams / members; gen.py) plus all tiny files, enumerated by rank<->case bijection: "
        "E1 every truncation length (file; for PBF/o5m also the content of every length field with the framing / all enclosing lengths recomputed); "
        "E2 every single-byte substitution (quick: position x 17 interesting values {00,01,7f,80,ff,\",<,&,%,comma,=,@,space,LF,b+1,b-1,b^80}; "
        "thorough: x all 255 other values); E3 every single-byte deletion and every insertion of the 14 interesting constants at every position "
        "(raw; PBF/o5m also with framing lengths / all enclosing lengths recomputed); E4 (thorough) every pair of interesting substitutions "
        "within a 16-byte window (13 of the seeds); E5 every length field (protobuf lengths, blob-header size, datasize, raw_size, o5m dataset and reference-section "
        "lengths) and every string-table index/reference x {0,1,len-1,len+1,2^7,2^14,2^21,2^28,2^31-1,2^31,2^31+1,2^32-1,2^63,2^64-1} (raw and with "
        "enclosing lengths recomputed); E6 every byte string of length <= 2 as a whole file per format and as body after 16 valid prefixes (thorough: "
        "length 3 after 3 of them); E7 every string slot replaced by 1024..65537 bytes; E8/E9 every structural unit (XML element/attribute, protobuf field, blob, "
        "o5m dataset, OPL line/field) deleted / duplicated. Every input runs in a forked child under ASan in two builds (-DNDEBUG and with "
        "assertions) through the format's Parser driven synchronously (two option sets) and, for E1/E5/E7/E8/E9 and compressed seeds, through "
        "osmium::io::Reader on a buffer and on a file; every delivered item is walked with explicit extent checks, then with the library's "
        "iterators. Cases are distinct within an edit class by construction (identical results of different slots/modes are skipped and counted "
        "as skipped_identical). Non-trivial = input differs from the seed and the parser got past the first framing check (header completed "
        "without error or >= 1 object delivered; for OPL >= 1 object) - plus every case that fails the oracle.")
DEADLINE = {"quick": 200, "thorough": 1500}

# parts in order of size (smallest first) with their relative cost (CPU seconds per shard, measured): a run may use three times
# its share of the time that is left (the machine is shared, wall time is noisy), unused time is passed on, and a run that
# reaches its limit stops cleanly with BOUND ... 0
PARTS = {"quick": [("E1", 3.0), ("E5", 1.5), ("E8", 0.5), ("E7", 1.5), ("E6", 3.0), ("E3", 7.0), ("E2", 5.5)],
         "thorough": [("E1", 3.0), ("E5", 1.5), ("E8", 0.5), ("E7", 1.5), ("E3", 7.0), ("E2", 80.0), ("E6", 80.0), ("E4", 85.0)]}
VERIF = os.path.dirname(os.path.dirname(os.path.dirname(os.path.abspath(__file__))))
DATA = os.path.join(VERIF, "build", "C03-data", "seeds.txt")


def gen_data():
    here = os.path.dirname(os.path.abspath(__file__))
    r = subprocess.run([sys.executable, "-B", os.path.join(here, "gen.py"), DATA], stdout=subprocess.PIPE, stderr=subprocess.STDOUT, text=True)
    if r.returncode != 0:
        raise RuntimeError("gen.py failed:\n" + r.stdout)


def build(ctx):
    gen_data()
    # H6: small initial parser buffers - buffers grow (and nested buffers are flushed) while builders are open, and a write or
    # a runaway iterator that leaves an object soon leaves the allocation, where ASan sees it
    flags = ["-fno-access-control", '-DC03_DATA="%s"' % DATA, "-DOSMIUM_VERIF_PARSER_BUFFER_SIZE=512", "-DOSMIUM_VERIF_PBF_BUFFER_SIZE=256",
             "-DOSMIUM_VERIF_INPUT_BUFFER_SIZE=64"]   # H5: file and decompressed data reach the parsers in 64-byte pieces
    n, d = ctx.build_many([dict(name="h03n", sources=["h03.cpp"], asan=True, ndebug=True, opt="-O2", flags=flags),
                           dict(name="h03d", sources=["h03.cpp"], asan=True, ndebug=False, opt="-O1", flags=flags)])
    return {"h03n": n, "h03d": d}


def run(ctx):
    exes = build(ctx)
    if getattr(ctx, "build_only", False):
        return
    runs = [(part, w, name) for part, w in PARTS[ctx.tier] for name in ("h03n", "h03d")]
    for i, (part, w, name) in enumerate(runs):
        share = w / sum(x[1] for x in runs[i:])
        budget = max(30, int((ctx.remaining() - 10) * min(1.0, share * 3.0)))
        ctx.run_harness(exes[name], ["--part", part, "--deadline", str(budget)], shards=16)
    ctx.assume("an input counts as handled when parsing terminates and throws any exception derived from std::exception or delivers buffers; "
               "whether a damaged file is rejected or accepted with other content is not judged here (C02/C09)")
    ctx.assume("signed-overflow / shift undefined behaviour is not part of the oracle (ASan only); reads of stale bytes inside a std::string's own "
               "capacity are not visible to ASan")
    ctx.assume("in-blob edits are applied to PBF seeds with raw blobs; seeds with zlib/lz4 blobs and gzip/bzip2 files are edited on the file bytes "
               "(plus raw_size in E5)")
