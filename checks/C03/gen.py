#!/usr/bin/env python3
"""C03 seed generator: small valid files for XML / PBF / o5m / OPL (+ gz/bz2 variants) together with a *structure map*
(which bytes are length fields / string-table indexes, which byte ranges are structural units, which are string slots,
and a field label for every byte).  The C++ harness (h03.cpp) enumerates the complete edit neighbourhoods from this.

Output (text, one record per line, seeds in fixed order -> deterministic):
    SEED <name> <fmt> <hex bytes>
    LAB  <begin> <end> <label>                                  label for bytes [begin,end)   (run-length coded)
    FLD  <kind> <off> <width> <value> <cb> <ce> <framing> <label>
         kind v = varint length/size field, b = 4 byte big-endian size, i = varint string-table index / reference
         [cb,ce) = the content the field measures (cb = ce = 0 for kind i), framing = 1 for file framing fields
    UNIT <begin> <end> <label>                                  structural unit (element / protobuf field / dataset / line)
    STR  <begin> <end> <label>                                  string slot (replaced by long strings in E7)
    PFX  <fmt> <name> <hex prefix> <lenfield: -1 | offset of a 1-byte length that measures the body> <hex suffix>

The walkers below are written from the format documents (like engine/spec), not from libosmium.  They are only used to
*aim* edits; a wrong map would give different (still valid) cases, never a wrong verdict.  Each map is self-checked:
fields must decode to the value/extent recorded, ranges must nest.
"""
import bz2
import gzip
import os
import struct
import sys

HERE = os.path.dirname(os.path.abspath(__file__))
sys.path.insert(0, os.path.join(os.path.dirname(os.path.dirname(HERE)), "engine", "spec"))
import pbf as P      # noqa: E402
import o5m as O      # noqa: E402


# ------------------------------------------------------------------------------------------------ helpers
def rd_varint(buf, p):
    v = 0
    s = 0
    q = p
    while True:
        b = buf[q]
        v |= (b & 0x7f) << s
        q += 1
        if b < 0x80:
            return v, q - p
        s += 7


class Map:
    def __init__(self, data):
        self.data = data
        self.lab = [None] * len(data)
        self.flds = []
        self.units = []
        self.strs = []

    def label(self, a, b, name, force=True):
        for i in range(a, b):
            if force or self.lab[i] is None:
                self.lab[i] = name

    def fld(self, kind, off, width, value, cb, ce, framing, label):
        self.flds.append((kind, off, width, value, cb, ce, framing, label))

    def check(self):
        d = self.data
        for kind, off, width, value, cb, ce, framing, label in self.flds:
            if kind == "b":
                assert struct.unpack(">I", d[off:off + 4])[0] == value and width == 4
            else:
                v, w = rd_varint(d, off)
                assert (v, w) == (value, width), (label, v, w, value, width)
            if kind != "i":
                assert ce - cb == value and 0 <= cb <= ce <= len(d), label
        for a, b, _ in self.units + self.strs:
            assert 0 <= a <= b <= len(d)
        assert all(x is not None for x in self.lab), [i for i, x in enumerate(self.lab) if x is None][:5]

    def dump(self, out, name, fmt):
        self.check()
        out.append("SEED %s %s %s" % (name, fmt, self.data.hex()))
        i = 0
        n = len(self.data)
        while i < n:
            j = i
            while j < n and self.lab[j] == self.lab[i]:
                j += 1
            out.append("LAB %d %d %s" % (i, j, self.lab[i]))
            i = j
        for f in self.flds:
            out.append("FLD %s %d %d %d %d %d %d %s" % f)
        for u in self.units:
            out.append("UNIT %d %d %s" % u)
        for s in self.strs:
            out.append("STR %d %d %s" % s)


# ------------------------------------------------------------------------------------------------ PBF walker
# (name, kind): kind int | idx | str | bytes | packed | packedidx | msg:<Type>
SCHEMA = {
    "BlobHeader": {1: ("type", "str"), 2: ("indexdata", "bytes"), 3: ("datasize", "int")},
    "Blob": {1: ("raw", "payload"), 2: ("raw_size", "int"), 3: ("zlib_data", "bytes"), 6: ("lz4_data", "bytes")},
    "HeaderBlock": {1: ("bbox", "msg:HeaderBBox"), 4: ("required_features", "str"), 5: ("optional_features", "str"),
                    16: ("writingprogram", "str"), 17: ("source", "str"), 32: ("repl_timestamp", "int"),
                    33: ("repl_seq", "int"), 34: ("repl_url", "str")},
    "HeaderBBox": {1: ("left", "int"), 2: ("right", "int"), 3: ("top", "int"), 4: ("bottom", "int")},
    "PrimitiveBlock": {1: ("stringtable", "msg:StringTable"), 2: ("primitivegroup", "msg:PrimitiveGroup"),
                       17: ("granularity", "int"), 18: ("date_granularity", "int"), 19: ("lat_offset", "int"),
                       20: ("lon_offset", "int")},
    "StringTable": {1: ("s", "str")},
    "PrimitiveGroup": {1: ("nodes", "msg:Node"), 2: ("dense", "msg:DenseNodes"), 3: ("ways", "msg:Way"),
                       4: ("relations", "msg:Relation")},
    "Node": {1: ("id", "int"), 2: ("keys", "packedidx"), 3: ("vals", "packedidx"), 4: ("info", "msg:Info"),
             8: ("lat", "int"), 9: ("lon", "int")},
    "Info": {1: ("version", "int"), 2: ("timestamp", "int"), 3: ("changeset", "int"), 4: ("uid", "int"),
             5: ("user_sid", "idx"), 6: ("visible", "int")},
    "DenseNodes": {1: ("id", "packed"), 5: ("denseinfo", "msg:DenseInfo"), 8: ("lat", "packed"), 9: ("lon", "packed"),
                   10: ("keys_vals", "packedidx")},
    "DenseInfo": {1: ("version", "packed"), 2: ("timestamp", "packed"), 3: ("changeset", "packed"), 4: ("uid", "packed"),
                  5: ("user_sid", "packedidx"), 6: ("visible", "packed")},
    "Way": {1: ("id", "int"), 2: ("keys", "packedidx"), 3: ("vals", "packedidx"), 4: ("info", "msg:Info"),
            8: ("refs", "packed"), 9: ("lat", "packed"), 10: ("lon", "packed")},
    "Relation": {1: ("id", "int"), 2: ("keys", "packedidx"), 3: ("vals", "packedidx"), 4: ("info", "msg:Info"),
                 8: ("roles_sid", "packedidx"), 9: ("memids", "packed"), 10: ("types", "packed")},
}


def walk_msg(m, mtype, a, b, payload_type=None, framing_len=False):
    """walk the protobuf message of type mtype in m.data[a:b]; returns {field name: (value offset, value)} of int fields"""
    d = m.data
    ints = {}
    p = a
    while p < b:
        k0 = p
        key, kw = rd_varint(d, p)
        p += kw
        fno, wt = key >> 3, key & 7
        name, kind = SCHEMA[mtype].get(fno, ("unknown%d" % fno, "unknown"))
        lab = "%s.%s" % (mtype, name) if kind != "unknown" else "%s.unknown" % mtype
        m.label(k0, p, lab + ":key")
        if wt == 0:
            v, w = rd_varint(d, p)
            m.label(p, p + w, lab)
            if kind == "idx":
                m.fld("i", p, w, v, 0, 0, 0, lab)
            ints[name] = (p, w, v)
            p += w
        elif wt == 1:
            m.label(p, p + 8, lab)
            p += 8
        elif wt == 5:
            m.label(p, p + 4, lab)
            p += 4
        elif wt == 2:
            ln, lw = rd_varint(d, p)
            m.label(p, p + lw, lab + ":len")
            cb, ce = p + lw, p + lw + ln
            m.fld("v", p, lw, ln, cb, ce, 1 if (framing_len and kind == "payload") else 0, lab)
            m.label(cb, ce, lab)
            if kind == "payload" and payload_type:
                walk_msg(m, payload_type, cb, ce)
            elif kind.startswith("msg:"):
                walk_msg(m, kind[4:], cb, ce)
            elif kind == "str":
                m.strs.append((cb, ce, lab))
            elif kind == "packedidx":
                q = cb
                while q < ce:
                    v, w = rd_varint(d, q)
                    m.fld("i", q, w, v, 0, 0, 0, lab)
                    q += w
            p = ce
        else:
            raise ValueError("wire type %d" % wt)
        m.units.append((k0, p, lab))
    assert p == b, (mtype, p, b)
    return ints


def map_pbf(data):
    m = Map(data)
    p = 0
    first = True
    while p < len(data):
        f0 = p
        hs = struct.unpack(">I", data[p:p + 4])[0]
        m.label(p, p + 4, "be32")
        m.fld("b", p, 4, hs, p + 4, p + 4 + hs, 1, "be32")
        ints = walk_msg(m, "BlobHeader", p + 4, p + 4 + hs)
        off, w, ds = ints["datasize"]
        bb = p + 4 + hs
        m.fld("v", off, w, ds, bb, bb + ds, 1, "BlobHeader.datasize")
        bints = walk_msg(m, "Blob", bb, bb + ds, "HeaderBlock" if first else "PrimitiveBlock", framing_len=True)
        if "raw_size" in bints:
            # raw_size measures the uncompressed payload; only a framing field when the payload is stored raw
            raw = [f for f in m.flds if f[7] == "Blob.raw" and bb <= f[1] < bb + ds]
            if raw:
                roff, rw, rv = bints["raw_size"]
                m.fld("v", roff, rw, rv, raw[0][4], raw[0][5], 1, "Blob.raw_size")
            else:
                roff, rw, rv = bints["raw_size"]
                m.fld("i", roff, rw, rv, 0, 0, 0, "Blob.raw_size")   # value-only field (compressed blob)
        p = bb + ds
        m.units.append((f0, p, "frame"))
        first = False
    return m


# ------------------------------------------------------------------------------------------------ o5m walker
def map_o5m(data):
    m = Map(data)
    d = data
    assert d[:7] in (b"\xff\xe0\x04o5m2", b"\xff\xe0\x04o5c2")
    m.label(0, 7, "magic")
    m.fld("v", 2, 1, 4, 3, 7, 1, "magic:len")
    m.units.append((0, 7, "magic"))
    p = 7
    ts = 0
    names = {0x10: "node", 0x11: "way", 0x12: "rel", 0xdb: "bbox", 0xdc: "filets"}

    def string(q, end, lab, pair, typed=False):
        """string or string pair at q: inline (0x00 s1 0x00 [s2 0x00]) or a table reference"""
        if d[q] != 0:
            v, w = rd_varint(d, q)
            m.label(q, q + w, lab + ":ref")
            m.fld("i", q, w, v, 0, 0, 0, lab + ":ref")
            return q + w
        s0 = q
        q += 1
        e1 = d.index(b"\x00", q)
        if pair:
            e2 = d.index(b"\x00", e1 + 1)
            m.strs.append((e1 + 1, e2, lab))
            if lab.endswith("tag"):
                m.strs.append((q, e1, lab))
            q = e2 + 1
        else:
            m.strs.append((q + (1 if typed else 0), e1, lab))
            q = e1 + 1
        assert q <= end
        m.label(s0, q, lab)
        return q

    while p < len(d):
        t = d[p]
        if t >= 0xf0:
            m.label(p, p + 1, "reset" if t == 0xff else "eof" if t == 0xfe else "ctl")
            m.units.append((p, p + 1, "reset" if t == 0xff else "eof"))
            if t == 0xff:
                ts = 0
            p += 1
            continue
        nm = names.get(t, "unknownds")
        m.label(p, p + 1, nm + ":type")
        ln, lw = rd_varint(d, p + 1)
        m.label(p + 1, p + 1 + lw, nm + ":len")
        cb, ce = p + 1 + lw, p + 1 + lw + ln
        m.fld("v", p + 1, lw, ln, cb, ce, 1, nm + ":len")
        m.units.append((p, ce, nm))
        m.label(cb, ce, nm + ".body")
        q = cb
        if t in (0x10, 0x11, 0x12):
            _, w = rd_varint(d, q)
            m.label(q, q + w, nm + ".id")
            q += w
            if d[q] == 0:
                m.label(q, q + 1, nm + ".noinfo")
                q += 1
            else:
                _, w = rd_varint(d, q)
                m.label(q, q + w, nm + ".version")
                q += w
                v, w = rd_varint(d, q)
                m.label(q, q + w, nm + ".timestamp")
                q += w
                ts += (v >> 1) ^ -(v & 1)
                if ts != 0:
                    _, w = rd_varint(d, q)
                    m.label(q, q + w, nm + ".changeset")
                    q += w
                    q = string(q, ce, nm + ".user", True)
            if q < ce:
                if t == 0x10:
                    for c in ("lon", "lat"):
                        _, w = rd_varint(d, q)
                        m.label(q, q + w, nm + "." + c)
                        q += w
                else:
                    rl, w = rd_varint(d, q)
                    m.label(q, q + w, nm + ".reflen")
                    m.fld("v", q, w, rl, q + w, q + w + rl, 0, nm + ".reflen")
                    q += w
                    re = q + rl
                    while q < re:
                        _, w = rd_varint(d, q)
                        m.label(q, q + w, nm + ".ref")
                        q += w
                        if t == 0x12:
                            q = string(q, re, nm + ".role", False, typed=True)
                    assert q == re
                while q < ce:
                    q = string(q, ce, nm + ".tag", True)
            assert q == ce, (nm, q, ce)
        p = ce
    return m


# ------------------------------------------------------------------------------------------------ XML tokenizer
def map_xml(data):
    m = Map(data)
    d = data
    n = len(d)
    p = 0
    stack = []          # (element name, offset of '<')

    def cur():
        return stack[-1][0].decode() if stack else "top"
    while p < n:
        if d.startswith(b"<?", p):
            e = d.index(b"?>", p) + 2
            m.label(p, e, "xmldecl")
            m.units.append((p, e, "xmldecl"))
            p = e
        elif d.startswith(b"<!--", p):
            e = d.index(b"-->", p) + 3
            m.label(p, e, "xmlcomment")
            m.units.append((p, e, "xmlcomment"))
            p = e
        elif d.startswith(b"</", p):
            e = d.index(b">", p) + 1
            name, start = stack.pop()
            assert d[p + 2:e - 1].strip() == name
            m.label(p, e, name.decode() + ":end")
            m.units.append((start, e, name.decode()))
            p = e
        elif d[p:p + 1] == b"<":
            q = p + 1
            while d[q:q + 1] not in (b" ", b"\t", b"\n", b"/", b">"):
                q += 1
            name = d[p + 1:q]
            el = name.decode()
            m.label(p, q, el + ":tag")
            while True:
                a0 = q
                while d[q:q + 1] in (b" ", b"\t", b"\n"):
                    q += 1
                if d[q:q + 1] == b">":
                    m.label(a0, q + 1, el + ":tag")
                    stack.append((name, p))
                    q += 1
                    break
                if d.startswith(b"/>", q):
                    m.label(a0, q + 2, el + ":tag")
                    q += 2
                    m.units.append((p, q, el))
                    break
                an0 = q
                while d[q:q + 1] != b"=":
                    q += 1
                an = d[an0:q].decode()
                quote = d[q + 1:q + 2]
                assert quote in (b'"', b"'")
                ve = d.index(quote, q + 2)
                lab = "%s@%s" % (el, an)
                m.label(a0, q + 2, lab + ":syn")
                m.label(q + 2, ve, lab)
                m.label(ve, ve + 1, lab + ":syn")
                m.strs.append((q + 2, ve, lab))
                m.units.append((a0, ve + 1, lab))
                q = ve + 1
            p = q
        else:
            e = d.find(b"<", p)
            if e < 0:
                e = n
            lab = cur() + ":text"
            m.label(p, e, lab)
            if cur() == "text":
                m.strs.append((p, e, lab))
            p = e
    assert not stack
    return m


# ------------------------------------------------------------------------------------------------ OPL tokenizer
def map_opl(data):
    m = Map(data)
    d = data
    p = 0
    n = len(d)
    while p < n:
        e = p
        while e < n and d[e:e + 1] not in (b"\n", b"\r"):
            e += 1
        le = e
        while le < n and d[le:le + 1] in (b"\n", b"\r"):
            le += 1
        m.label(e, le, "nl")
        if e > p:
            t = chr(d[p]) if chr(d[p]) in "nwrc#" else "x"
            if t == "#":
                m.label(p, e, "#")
            else:
                m.label(p, p + 1, t + ":type")
                q = p + 1
                f0 = q
                while q < e and d[q:q + 1] not in (b" ", b"\t"):
                    q += 1
                m.label(f0, q, t + ".id")
                while q < e:
                    s0 = q
                    while q < e and d[q:q + 1] in (b" ", b"\t"):
                        q += 1
                    m.label(s0, q, t + ":sep")
                    if q >= e:
                        break
                    c0 = q
                    letter = chr(d[q])
                    q += 1
                    while q < e and d[q:q + 1] not in (b" ", b"\t"):
                        q += 1
                    lab = "%s.%s" % (t, letter)
                    m.label(c0, q, lab)
                    m.units.append((s0, q, lab))
                    body = d[c0 + 1:q]
                    if letter == "u":
                        m.strs.append((c0 + 1, q, lab))
                    elif letter == "T" and body:
                        r = c0 + 1
                        for part in body.split(b","):
                            k, _, v = part.partition(b"=")
                            m.strs.append((r, r + len(k), lab))
                            m.strs.append((r + len(k) + 1, r + len(part), lab))
                            r += len(part) + 1
                    elif letter == "M" and body:
                        r = c0 + 1
                        for part in body.split(b","):
                            at = part.index(b"@")
                            m.strs.append((r + at + 1, r + len(part), lab))
                            r += len(part) + 1
        m.units.append((p, le, "line"))
        p = le
    return m


def map_flat(data, label):
    m = Map(data)
    m.label(0, len(data), label)
    return m


# ------------------------------------------------------------------------------------------------ data sets
def obj(t, i, version=1, ts=1577836800, cs=7, uid=3, user="u", tags=(), **kw):
    o = {"type": t, "id": i, "version": version, "timestamp": ts, "changeset": cs, "uid": uid, "user": user,
         "tags": list(tags)}
    o.update(kw)
    return o


N1 = obj("n", 11, tags=[("amenity", "pub"), ("name", "Zum Bär")], lat=515000000, lon=-1200000, user="alice")
N2 = obj("n", 12, version=2, ts=1577836900, cs=8, uid=3, user="alice", tags=[("amenity", "pub")], lat=515000100, lon=-1199000)
N3 = obj("n", 15, version=1, uid=4, user="bob", tags=[], lat=-100, lon=1800000000)
W1 = obj("w", 21, tags=[("highway", "path"), ("name", "x")], refs=[11, 12, 15, 11], user="alice")
R1 = obj("r", 31, tags=[("type", "route")], members=[("n", 11, "stop"), ("w", 21, ""), ("r", 30, "stop"), ("w", 22, "fwd")], user="bob", uid=4)
ND = obj("n", 12, version=3, ts=1577837000, cs=9, uid=4, user="bob", tags=[], lat=0, lon=0, visible=False)
WD = obj("w", 21, version=2, ts=1577837000, cs=9, uid=4, user="bob", tags=[], refs=[], visible=False)
RD = obj("r", 31, version=2, ts=1577837000, cs=9, uid=4, user="bob", tags=[], members=[], visible=False)
ANON = obj("n", 17, version=1, ts=1577836800, cs=5, uid=0, user="", tags=[("k", "v")], lat=1, lon=2)
NOINFO = obj("n", 18, version=0, ts=0, cs=0, uid=0, user="", tags=[("k", "v")], lat=3, lon=4)
VONLY = obj("w", 23, version=5, ts=0, cs=0, uid=0, user="", tags=[("k", "v")], refs=[18, 17])
HDR = {"boxes": [(-1800000000, -900000000, 1800000000, 900000000)], "generator": "gen", "timestamp": 1577836800}
PMIN = {"header": "min"}


def way_with_locations():
    """a PrimitiveBlock whose Way carries node locations (fields 9/10, 'LocationsOnWays'), built from the low-level API"""
    c = P.resolve({})
    st = P.message([(1, P.f_bytes(1, s)) for s in (b"", b"highway", b"path", b"alice")], c)
    info = P.message([(1, P.f_varint(1, 1)), (2, P.f_varint(2, 1577836800)), (3, P.f_varint(3, 7)), (4, P.f_varint(4, 3)),
                      (5, P.f_varint(5, 3))], c)
    way = P.message([(1, P.f_varint(1, 21)), (2, P.f_packed(2, [1])), (3, P.f_packed(3, [2])), (4, P.f_bytes(4, info)),
                     (8, P.f_packed(8, [11, 1, 3], signed=True)), (9, P.f_packed(9, [515000000, 100, -200], signed=True)),
                     (10, P.f_packed(10, [-1200000, 1000, 5], signed=True))], c)
    grp = P.message([(3, P.f_bytes(3, way))], c)
    blk = P.message([(1, P.f_bytes(1, st)), (2, P.f_bytes(2, grp))], c)
    hdr = P.message([(4, P.f_bytes(4, "OsmSchema-V0.6")), (5, P.f_bytes(5, "LocationsOnWays"))], c)
    return P.frame("OSMHeader", hdr, c) + P.frame("OSMData", blk, c)


def unknown_fields():
    """unknown fields of all four wire types at block, group, node and blob-header level (skipped by a conforming reader)"""
    c = P.resolve({})
    st = P.message([(1, P.f_bytes(1, b"")), (1, P.f_bytes(1, b"k")), (1, P.f_bytes(1, b"v")), (41, P.f_bytes(41, b"u\x00\xff"))], c)
    node = P.message([(1, P.f_sint(1, 19)), (43, P.f_fixed32(43, 0xdeadbeef)), (2, P.f_packed(2, [1])), (3, P.f_packed(3, [2])),
                      (8, P.f_sint(8, 5)), (9, P.f_sint(9, -6)), (40, P.f_varint(40, 300))], c)
    grp = P.message([(42, P.f_fixed64(42, 0x0102030405060708)), (1, P.f_bytes(1, node)), (41, P.f_bytes(41, b""))], c)
    blk = P.message([(40, P.f_varint(40, 1)), (1, P.f_bytes(1, st)), (2, P.f_bytes(2, grp)), (42, P.f_fixed64(42, 7))], c)
    hdr = P.message([(4, P.f_bytes(4, "OsmSchema-V0.6")), (40, P.f_varint(40, 2))], c)
    return P.frame("OSMHeader", hdr, c) + P.frame("OSMData", blk, dict(c, hdrsize=24))


def pbf_seeds():
    s = []
    s.append(("pbf-dense", P.encode({"objects": [N1, N2, N3]}, PMIN)))
    s.append(("pbf-plain", P.encode({"objects": [N1, N3]}, dict(PMIN, nodes="plain"))))
    s.append(("pbf-way", P.encode({"objects": [W1]}, PMIN)))
    s.append(("pbf-rel", P.encode({"objects": [R1]}, PMIN)))
    s.append(("pbf-hist", P.encode({"objects": [N2, ND, WD], "history": True}, dict(PMIN, info="full"))))
    s.append(("pbf-rich", P.encode({"objects": [N3], "header": HDR},
                                   {"header": "rich", "defaults": "explicit", "blob": "raw+size",
                                    "nodes": "plain", "granularity": 1000, "offset": "plus"})))
    s.append(("pbf-unknown", unknown_fields()))
    s.append(("pbf-wayloc", way_with_locations()))
    s.append(("pbf-sparse", P.encode({"objects": [NOINFO, ANON, VONLY]}, dict(PMIN, info="sparse", empty="groups", dense_kv="always"))))
    z = []
    z.append(("pbf-zlib", P.encode({"objects": [N1, N2, W1]}, dict(PMIN, blob="zlib"))))
    z.append(("pbf-lz4", P.encode({"objects": [N1, N2, W1]}, dict(PMIN, blob="lz4"))))
    return s, z


def o5m_seeds():
    s = []
    s.append(("o5m-node", O.encode({"objects": [N1, N2, N3]}, {"header": "none"})))
    s.append(("o5m-way", O.encode({"objects": [N1, W1]}, {"header": "none"})))
    s.append(("o5m-rel", O.encode({"objects": [R1]}, {"header": "none", "end": "none"})))
    s.append(("o5m-hdr", O.encode({"objects": [N3], "header": HDR}, {"extras": "sync_jump"})))
    s.append(("o5c-hist", O.encode({"objects": [N2, ND, W1, WD, R1, RD], "history": True}, {"filetype": "o5c", "header": "none"})))
    s.append(("o5m-noinfo", O.encode({"objects": [NOINFO, ANON, VONLY]}, {"header": "none", "reset": "start"})))
    s.append(("o5m-unknown", O.encode({"objects": [N1, N2]}, {"header": "ts_first", "extras": "unknown", "reset": "every", "strings": "inline"})))
    s.append(("o5m-mixed", O.encode({"objects": [N1, N2, W1, R1]}, {"header": "none", "strings": "mixed", "reset": "start"})))
    return s


XML = {
    "xml-node": b"""<?xml version='1.0' encoding='UTF-8'?>
<osm version="0.6" generator="g" upload="false">
 <bounds minlat="1.5" minlon="-2" maxlat="3" maxlon="4e0"/>
 <node id="11" version="1" timestamp="2020-01-01T00:00:00Z" uid="3" user="alice" changeset="7" visible="true" lat="51.5" lon="-0.12">
  <tag k="amenity" v="pub"/>
  <tag k="name" v="Zum B\xc3\xa4r"/>
 </node>
 <node id="12" lat="0" lon="180"/>
</osm>
""",
    "xml-way": b"""<osm version="0.6">
 <way id="21" version="2" timestamp="2020-01-01T00:00:00.5Z" uid="3" user="al" changeset="7">
  <nd ref="11"/>
  <nd ref="12" lat="1.0" lon="2.0"/>
  <tag k="highway" v="path"/>
  <bbox/>
 </way>
</osm>
""",
    "xml-rel": b"""<osm version="0.6">
 <relation id="31" version="1" changeset="7" uid="4" user="bob">
  <member type="node" ref="11" role="stop"/>
  <member type="way" ref="21" role=""/>
  <member type="relation" ref="-30" role="x"/>
  <tag k="type" v="route"/>
 </relation>
</osm>
""",
    "xml-cs": b"""<osm version="0.6">
 <changeset id="7" created_at="2020-01-01T00:00:00Z" closed_at="2020-01-01T01:00:00Z" open="false" user="alice" uid="3" min_lat="1" min_lon="2" max_lat="3" max_lon="4" num_changes="2" comments_count="2">
  <tag k="comment" v="fix"/>
  <discussion>
   <comment uid="4" user="bob" date="2020-01-02T00:00:00Z">
    <text>first &amp; best</text>
   </comment>
   <comment uid="3" user="alice" date="2020-01-03T00:00:00Z">
    <text>ok</text>
   </comment>
  </discussion>
 </changeset>
</osm>
""",
    "xml-change": b"""<osmChange version="0.6" generator="g">
 <create><node id="-1" version="1" lat="1" lon="2"><tag k="a" v="b"/></node></create>
 <modify><way id="21" version="3"><nd ref="-1"/></way></modify>
 <delete><relation id="31" version="2"/><node id="12" version="3"/></delete>
</osmChange>
""",
    "xml-ent": b"""<?xml version="1.0"?>
<!-- c -->
<osm version='0.6'>
 <node id='13' lat='-1.5e1' lon='&#49;' user='&lt;&#x263a;&gt;'>
  <tag k='a&quot;b' v='&#10;&amp;'/>
 </node>
 <other><x/></other>
</osm>
""",
    "xml-hist": b"""<osm version="0.6">
 <node id="12" version="2" visible="true" lat="1" lon="2" user="a" uid="1" changeset="1" timestamp="2020-01-01T00:00:00Z"/>
 <node id="12" version="3" visible="false" user="b" uid="2" changeset="2" timestamp="2020-01-02T00:00:00Z"/>
 <way id="21" version="2" visible="false"/>
 <relation id="31" version="2" visible="false"/>
</osm>
""",
    "xml-cs2": b"""<osm version="0.6"><changeset id="8" open="true" user="" uid="0"><discussion><comment uid="1" user="u" date="2020-01-02T00:00:00Z"><text/></comment></discussion><tag k="k" v="v"/></changeset><changeset id="9"/></osm>""",
}

OPL = {
    "opl-node": b"n11 v1 dV c7 t2020-01-01T00:00:00Z i3 ualice Tamenity=pub,name=Zum%20%B%e4%r x-0.12 y51.5\nn12 v2 dV c8 t2020-01-01T00:01:40Z i3 ualice T x180 y-90\n",
    "opl-way": b"w21 v1 dV c7 t2020-01-01T00:00:00Z i3 ualice Thighway=path,name=x Nn11,n12,n15,n11\nw22 v1 dV c7 t i0 u T Nn1x1.5y2.5,n2x-3y4\n",
    "opl-rel": b"r31 v1 dV c7 t2020-01-01T00:00:00Z i4 ubob Ttype=route Mn11@stop,w21@,r30@in%20%ner,w22@fwd\n",
    "opl-cs": b"c7 k2 s2020-01-01T00:00:00Z e2020-01-01T01:00:00Z d1 i3 ualice x2 y1 X4 Y3 Tcomment=fix,source=a%2c%b\nc8 k0 s2020-01-01T00:00:00Z e d0 i0 u x y X Y T\n",
    "opl-esc": b"n13 v1 dV c1 t2020-01-01T00:00:00Z i1 u%263a%%20%x Ta%3d%b=%%,%1f600%=%a% x1 y2\nr32 Mn1@%40%,w2@a%2c%b\n",
    "opl-del": b"# comment\n\nn12 v3 dD c9 t2020-01-01T00:16:40Z i4 ubob T x y\r\nw21 v2 dD c9 t2020-01-01T00:16:40Z i4 ubob T N\r\nr31 v2 dD c9 t2020-01-01T00:16:40Z i4 ubob T M\r\n",
    "opl-min": b"n1\nw2 Nn1\nr3 Mw2@\nc4",
    "opl-tabs": b"n1\tv1\tx1\ty2\tTk=v\nw2\tNn1\tTk=v\nr3\tMn1@r\tTk=v\nc4\tk1\tTk=v\n",
}


def main(outpath):
    out = []
    pbfs, pbfz = pbf_seeds()
    for name, data in pbfs:
        map_pbf(data).dump(out, name, "pbf")
    for name, data in pbfz:
        map_pbf(data).dump(out, name, "pbfz")          # compressed blobs: edited on the file bytes only
    for name, data in o5m_seeds():
        map_o5m(data).dump(out, name, "o5m")
    for name, data in XML.items():
        map_xml(data).dump(out, name, "xml")
    for name, data in OPL.items():
        map_opl(data).dump(out, name, "opl")
    # compressed variants: edits on the compressed bytes (mtime/filename-free gzip header -> deterministic)
    comp = [("xml-node.gz", "xml.gz", gzip.compress(XML["xml-node"], 6, mtime=0)),
            ("opl-rel.bz2", "opl.bz2", bz2.compress(OPL["opl-rel"], 9)),
            ("o5m-way.gz", "o5m.gz", gzip.compress(dict(o5m_seeds())["o5m-way"], 6, mtime=0)),
            ("pbf-way.bz2", "pbf.bz2", bz2.compress(dict(pbfs)["pbf-way"], 9)),
            # several streams / members in one file (pbzip2, `cat a.bz2 b.bz2`): the decompressors restart at each boundary
            ("opl-rel-2streams.bz2", "opl.bz2", bz2.compress(OPL["opl-rel"][:len(OPL["opl-rel"]) // 2], 9) + bz2.compress(OPL["opl-rel"][len(OPL["opl-rel"]) // 2:], 9)),
            ("xml-node-2members.gz", "xml.gz", gzip.compress(XML["xml-node"][:len(XML["xml-node"]) // 2], 6, mtime=0) + gzip.compress(XML["xml-node"][len(XML["xml-node"]) // 2:], 6, mtime=0))]
    for name, fmt, data in comp:
        map_flat(data, fmt.split(".")[1]).dump(out, name, fmt)
    # prefixes for the tiny-body enumeration E6 (body = every byte string up to the bound)
    c = P.resolve({})
    hdr = P.frame("OSMHeader", P.message([(4, P.f_bytes(4, "OsmSchema-V0.6"))], c), c)
    pf = [("xml", "whole", b"", -1, b""), ("pbf", "whole", b"", -1, b""), ("o5m", "whole", b"", -1, b""), ("opl", "whole", b"", -1, b""),
          ("o5m", "after-magic", b"\xff\xe0\x04o5m2", -1, b""),
          ("o5m", "node-body", b"\xff\xe0\x04o5m2\x10\x00", 8, b""),
          ("o5m", "way-body", b"\xff\xe0\x04o5m2\x11\x00", 8, b""),
          ("o5m", "rel-body", b"\xff\xe0\x04o5m2\x12\x00", 8, b""),
          ("o5m", "way-refs", b"\xff\xe0\x04o5m2\x11\x00\x02\x00", 8, b""),
          ("o5m", "rel-refs", b"\xff\xe0\x04o5m2\x12\x00\x02\x00", 8, b""),
          ("opl", "node-fields", b"n1 ", -1, b""), ("opl", "node-tags", b"n1 T", -1, b""),
          ("opl", "way-nodes", b"w1 N", -1, b""), ("opl", "rel-members", b"r1 M", -1, b""),
          ("opl", "cs-fields", b"c1 ", -1, b""), ("opl", "line2", b"n1\n", -1, b""),
          ("xml", "in-osm", b"<osm version=\"0.6\">", -1, b""),
          ("xml", "node-attr", b"<osm version=\"0.6\"><node ", -1, b"/></osm>"),
          ("pbf", "data-blob", hdr, -2, b""), ("pbf", "header-blob", b"", -3, b"")]
    for fmt, name, pre, lf, suf in pf:
        out.append("PFX %s %s %s %d %s" % (fmt, name, pre.hex() or "-", lf, suf.hex() or "-"))
    os.makedirs(os.path.dirname(outpath), exist_ok=True)
    tmp = outpath + ".tmp%d" % os.getpid()
    with open(tmp, "w") as fh:
        fh.write("\n".join(out) + "\n")
    os.rename(tmp, outpath)


if __name__ == "__main__":
    main(sys.argv[1])
