// C05 - Reader delivers each selected object exactly once and in file order, under every schedule
// with <= k deviations, for every configuration of a covering set. Real Reader/Pool/Queue code under
// vsched. Inputs are small multi-chunk files (hook H5 makes the read thread deliver 64-byte pieces,
// hook H6 makes parser buffers a few hundred bytes so nested buffers occur).
#define OSMIUM_TEST_RUNNER
#include <cstdlib>
#include <map>
#include <string>
namespace osmium { namespace detail {
    static std::map<std::string, std::string> g_env;
    inline const char* getenv_wrapper(const char* var) noexcept {
        auto it = g_env.find(var);
        return it == g_env.end() ? nullptr : it->second.c_str();
    }
} }

#include <vsched/vsched.hpp>

#include <osmium/builder/osm_object_builder.hpp>
#include <osmium/io/any_input.hpp>
#include <osmium/io/pbf_output.hpp>
#include <osmium/io/writer.hpp>
#include <osmium/osm.hpp>
#include <osmium/thread/pool.hpp>

#include <fcntl.h>
#include <sys/stat.h>
#include <unistd.h>

#include <cstdio>
#include <functional>
#include <sstream>
#include <tuple>
#include <vector>

namespace {

struct Obj {
    char type; int64_t id; uint32_t version, changeset, uid, ts; std::string user;
    std::vector<std::pair<std::string, std::string>> tags;
    int32_t x = 0, y = 0;                                         // nodes (fixed point 1e-7)
    std::vector<int64_t> refs;                                    // ways
    std::vector<std::tuple<char, int64_t, std::string>> members;  // relations
};

std::string fix(int32_t v) {
    std::string s;
    osmium::detail::append_location_coordinate_to_string(std::back_inserter(s), v);
    return s;
}

// canonical text of an abstract object / of a delivered object (same format; metadata optional)
std::string canon(const Obj& o, bool meta) {
    std::ostringstream s;
    s << o.type << o.id;
    if (meta) s << " v" << o.version << " c" << o.changeset << " t" << o.ts << " i" << o.uid << " u" << o.user;
    s << " T";
    for (auto& t : o.tags) s << t.first << "=" << t.second << ",";
    if (o.type == 'n') s << " x" << o.x << " y" << o.y;
    if (o.type == 'w') { s << " N"; for (auto r : o.refs) s << r << ","; }
    if (o.type == 'r') { s << " M"; for (auto& m : o.members) s << std::get<0>(m) << std::get<1>(m) << "@" << std::get<2>(m) << ","; }
    return s.str();
}

std::string canon(const osmium::OSMObject& o, bool meta) {
    std::ostringstream s;
    s << osmium::item_type_to_char(o.type()) << o.id();
    if (meta) s << " v" << o.version() << " c" << o.changeset() << " t" << static_cast<uint32_t>(o.timestamp()) << " i" << o.uid() << " u" << o.user();
    s << " T";
    for (const auto& t : o.tags()) s << t.key() << "=" << t.value() << ",";
    if (o.type() == osmium::item_type::node) { const auto& n = static_cast<const osmium::Node&>(o); s << " x" << n.location().x() << " y" << n.location().y(); }
    if (o.type() == osmium::item_type::way) { s << " N"; for (const auto& nr : static_cast<const osmium::Way&>(o).nodes()) s << nr.ref() << ","; }
    if (o.type() == osmium::item_type::relation) { s << " M"; for (const auto& m : static_cast<const osmium::Relation&>(o).members()) s << osmium::item_type_to_char(m.type()) << m.ref() << "@" << m.role() << ","; }
    return s.str();
}

// the abstract data set: 4 nodes, 4 ways, 3 relations, sorted by type and id
std::vector<Obj> dataset() {
    std::vector<Obj> d;
    for (int i = 1; i <= 4; ++i) {
        Obj o{'n', i * 10, static_cast<uint32_t>(i), 100u + i, 7u + i, 1420070400u + i, "user" + std::to_string(i), {}};
        if (i != 2) o.tags.push_back({"k" + std::to_string(i), "value number " + std::to_string(i)});
        if (i == 3) o.tags.push_back({"name", "x y"});
        o.x = 10000000 * i + 1; o.y = -5000000 * i - 3;
        d.push_back(o);
    }
    for (int i = 1; i <= 4; ++i) {
        Obj o{'w', i * 7, 1u, 200u + i, 9u, 1420080000u + i, "w", {}};
        o.tags.push_back({"highway", i % 2 ? "primary" : "secondary"});
        for (int k = 0; k < i + 1; ++k) o.refs.push_back(10 * (1 + k % 4));
        d.push_back(o);
    }
    for (int i = 1; i <= 3; ++i) {
        Obj o{'r', i * 3, 2u, 300u + i, 11u, 1420090000u + i, "rel", {}};
        o.tags.push_back({"type", "multipolygon"});
        o.members.emplace_back('w', 7 * i, "outer");
        o.members.emplace_back('n', 10 * i, "");
        if (i == 2) o.members.emplace_back('r', 3, "sub");
        d.push_back(o);
    }
    return d;
}

std::string iso(uint32_t t) { return osmium::Timestamp{t}.to_iso(); }

std::string to_opl(const std::vector<Obj>& d) {
    std::ostringstream s;
    for (auto& o : d) {
        s << o.type << o.id << " v" << o.version << " dV c" << o.changeset << " t" << iso(o.ts) << " i" << o.uid << " u" << o.user << " T";
        for (size_t i = 0; i < o.tags.size(); ++i) {
            std::string e;
            for (char ch : o.tags[i].second) { if (ch == ' ') e += "%20%"; else e += ch; }
            s << (i ? "," : "") << o.tags[i].first << "=" << e;
        }
        if (o.type == 'n') s << " x" << fix(o.x) << " y" << fix(o.y);
        if (o.type == 'w') { s << " N"; for (size_t i = 0; i < o.refs.size(); ++i) s << (i ? "," : "") << "n" << o.refs[i]; }
        if (o.type == 'r') { s << " M"; for (size_t i = 0; i < o.members.size(); ++i) s << (i ? "," : "") << std::get<0>(o.members[i]) << std::get<1>(o.members[i]) << "@" << std::get<2>(o.members[i]); }
        s << "\n";
    }
    return s.str();
}

std::string to_xml(const std::vector<Obj>& d) {
    std::ostringstream s;
    s << "<?xml version='1.0' encoding='UTF-8'?>\n<osm version=\"0.6\" generator=\"verif\">\n";
    for (auto& o : d) {
        const char* el = o.type == 'n' ? "node" : o.type == 'w' ? "way" : "relation";
        s << " <" << el << " id=\"" << o.id << "\" version=\"" << o.version << "\" timestamp=\"" << iso(o.ts) << "\" uid=\"" << o.uid << "\" user=\"" << o.user << "\" changeset=\"" << o.changeset << "\"";
        if (o.type == 'n') s << " lat=\"" << fix(o.y) << "\" lon=\"" << fix(o.x) << "\"";
        s << ">\n";
        for (auto r : o.refs) s << "  <nd ref=\"" << r << "\"/>\n";
        for (auto& m : o.members) s << "  <member type=\"" << (std::get<0>(m) == 'n' ? "node" : std::get<0>(m) == 'w' ? "way" : "relation") << "\" ref=\"" << std::get<1>(m) << "\" role=\"" << std::get<2>(m) << "\"/>\n";
        for (auto& t : o.tags) s << "  <tag k=\"" << t.first << "\" v=\"" << t.second << "\"/>\n";
        s << " </" << el << ">\n";
    }
    s << "</osm>\n";
    return s.str();
}

void build_object(osmium::memory::Buffer& buf, const Obj& o) {
    using namespace osmium::builder;
    auto common = [&](auto& b) {
        b.set_id(o.id).set_version(o.version).set_changeset(o.changeset).set_uid(o.uid).set_timestamp(o.ts).set_visible(true);
        b.set_user(o.user);
    };
    auto tags = [&](Builder& parent) { if (!o.tags.empty()) { TagListBuilder tb{parent}; for (auto& t : o.tags) tb.add_tag(t.first, t.second); } };
    if (o.type == 'n') { NodeBuilder b{buf}; common(b); b.set_location(osmium::Location{o.x, o.y}); tags(b); }
    if (o.type == 'w') { WayBuilder b{buf}; common(b); tags(b); { WayNodeListBuilder wb{b}; for (auto r : o.refs) wb.add_node_ref(r); } }
    if (o.type == 'r') { RelationBuilder b{buf}; common(b); tags(b); { RelationMemberListBuilder mb{b}; for (auto& m : o.members) mb.add_member(osmium::char_to_item_type(std::get<0>(m)), std::get<1>(m), std::get<2>(m).c_str()); } }
    buf.commit();
}

// PBF through the library's own Writer (run before any exploration, on real threads): one block per call
void write_pbf(const std::string& path, const std::vector<Obj>& d, bool dense) {
    osmium::io::File f{path, "pbf"};
    f.set("pbf_dense_nodes", dense);
    f.set("pbf_compression", "none");
    osmium::io::Writer w{f, osmium::io::overwrite::allow};
    for (size_t i = 0; i < d.size(); i += 2) {
        osmium::memory::Buffer buf{4096, osmium::memory::Buffer::auto_grow::yes};
        for (size_t k = i; k < std::min(d.size(), i + 2); ++k) build_object(buf, d[k]);
        w(std::move(buf));
        w.flush();
    }
    w.close();
}

void write_file(const std::string& path, const std::string& data) {
    FILE* f = fopen(path.c_str(), "wb");
    fwrite(data.data(), 1, data.size(), f);
    fclose(f);
}

struct Cfg {
    std::string fmt;   // opl, osm, pbf
    int pool;
    std::string qsize; // "" = default, else value for all three OSMIUM_MAX_*_QUEUE_SIZE
    int mask;          // osm_entity_bits (node 1, way 2, relation 4, changeset 8)
    bool single, meta, pbf_pool, call_header;
    std::string name() const {
        std::ostringstream s;
        s << fmt << ",pool=" << pool << ",q=" << (qsize.empty() ? "def" : qsize) << ",mask=" << mask << (single ? ",single" : ",any") << (meta ? ",meta" : ",nometa") << (pbf_pool ? "" : ",pbfpool=off") << (call_header ? ",header" : "");
        return s.str();
    }
};

std::string g_dir;
std::vector<Obj> g_data;

void body(const Cfg& c) {
    auto& env = osmium::detail::g_env;
    env.clear();
    if (!c.qsize.empty()) { env["OSMIUM_MAX_INPUT_QUEUE_SIZE"] = c.qsize; env["OSMIUM_MAX_OSMDATA_QUEUE_SIZE"] = c.qsize; env["OSMIUM_MAX_WORK_QUEUE_SIZE"] = c.qsize; }
    if (!c.pbf_pool) env["OSMIUM_USE_POOL_THREADS_FOR_PBF_PARSING"] = "off";
    std::vector<std::string> got;
    std::string err;
    bool after_eof_threw = false, after_eof_data = false;
    size_t nbuffers = 0, mixed_buffers = 0;
    {
        osmium::thread::Pool pool{c.pool, 0};
        osmium::io::File file{g_dir + "/in." + c.fmt};
        try {
            osmium::io::Reader reader{file, pool, static_cast<osmium::osm_entity_bits::type>(c.mask),
                                      c.meta ? osmium::io::read_meta::yes : osmium::io::read_meta::no,
                                      c.single ? osmium::io::buffers_type::single : osmium::io::buffers_type::any};
            if (c.call_header) reader.header();
            while (osmium::memory::Buffer b = reader.read()) {
                ++nbuffers;
                osmium::item_type first = osmium::item_type::undefined;
                for (const auto& o : b.select<osmium::OSMObject>()) {
                    got.push_back(canon(o, c.meta));
                    if (first == osmium::item_type::undefined) first = o.type(); else if (first != o.type()) { ++mixed_buffers; first = o.type(); }
                }
            }
            try { osmium::memory::Buffer b = reader.read(); if (b && b.committed() > 0) after_eof_data = true; }
            catch (const osmium::io_error&) { after_eof_threw = true; }
            reader.close();
        } catch (const std::exception& e) {
            err = e.what();
        }
    }
    std::vector<std::string> want;
    for (auto& o : g_data) {
        int bit = o.type == 'n' ? 1 : o.type == 'w' ? 2 : 4;
        if (c.mask & bit) want.push_back(canon(o, c.meta));
    }
    if (!err.empty()) vsched::fail("reader/exception-on-valid-file/" + c.fmt, err);
    else {
        if (got != want) {
            std::string d;
            size_t i = 0; while (i < got.size() && i < want.size() && got[i] == want[i]) ++i;
            d = "first difference at position " + std::to_string(i) + ": got " + (i < got.size() ? got[i] : "<end>") + " expected " + (i < want.size() ? want[i] : "<end>") + " (" + std::to_string(got.size()) + " vs " + std::to_string(want.size()) + " objects)";
            std::string kind = got.size() < want.size() ? "objects-missing" : got.size() > want.size() ? "objects-duplicated-or-extra" : "order-or-content-differs";
            vsched::fail("reader/" + kind + "/" + c.fmt, d);
        }
        if (after_eof_data) vsched::fail("reader/read-after-eof-returned-data/" + c.fmt, "");
        else if (!after_eof_threw && c.mask != 0) vsched::fail("reader/read-after-eof-did-not-throw/" + c.fmt, "");
    }
    vsched::observe("objects=" + std::to_string(got.size()) + " buffers=" + std::to_string(nbuffers) + (mixed_buffers ? " mixed" : ""));
}

}  // namespace

int main(int argc, char** argv) {
    vsched::Main m(argc, argv);
    const bool T = m.thorough();
    g_data = dataset();
    char tmpl[] = "/dev/shm/verif-c05-XXXXXX";
    g_dir = mkdtemp(tmpl);
    write_file(g_dir + "/in.opl", to_opl(g_data));
    write_file(g_dir + "/in.osm", to_xml(g_data));
    write_pbf(g_dir + "/in.pbf", g_data, true);

    struct Job { Cfg c; vsched::Options o; };
    std::vector<Job> jobs;
    auto add = [&](const Cfg& c, int kmax, bool delay, int workers) {
        vsched::Options o; o.max_bound = kmax; o.delay_bounded = delay; o.workers = workers; o.unlock_points = false;
        jobs.push_back({c, o});
    };
    const char* fmts[] = {"opl", "osm", "pbf"};
    // (1) covering subset: each option value with each pool size, per format; deeper bounds
    for (auto fmt : fmts) for (int pool : {1, 2}) {
        std::vector<Cfg> cover = {
            {fmt, pool, "2", 7, false, true, true, false},
            {fmt, pool, "3", 7, true, true, true, true},
            {fmt, pool, "", 5, false, false, true, false},
        };
        if (std::string(fmt) == "pbf") cover.push_back({fmt, pool, "2", 7, false, true, false, true});
        for (auto& c : cover) add(c, T ? 3 : 2, true, 16);
    }
    // (2) preemption bounding (free switches at blocking points) on one small configuration per format
    for (auto fmt : fmts) add({fmt, 1, "2", 7, false, true, true, false}, T ? 1 : 0, false, 16);
    size_t n_deep = jobs.size();
    // (3) configuration product at bound 0: thorough = the full product (also at bound 1); quick = every value of every
    //     option with every format and entity mask (other options rotated), one worker process each
    for (auto fmt : fmts) for (int mask = 0; mask < 16; ++mask) {
        if (T) {
            for (int pool : {1, 2, 3}) for (const char* q : {"2", "3", ""}) for (int single = 0; single < 2; ++single) for (int meta = 0; meta < 2; ++meta) for (int pp = 0; pp < 2; ++pp) {
                if (pp == 0 && std::string(fmt) != "pbf") continue;
                add(Cfg{fmt, pool, q, mask, single != 0, meta != 0, pp != 0, (mask + pool) % 2 == 0}, 1, true, 2);
            }
        } else {
            static const char* qs[] = {"2", "3", ""};
            for (int v = 0; v < 3; ++v)
                add(Cfg{fmt, 1 + (mask + v) % 3, qs[(mask / 2 + v) % 3], mask, ((mask + v) & 1) != 0, ((mask / 4 + v) & 1) != 0, std::string(fmt) != "pbf" || v != 2, v == 1}, 0, true, 1);
        }
    }
    add({"opl", 32, "", 7, false, true, true, false}, 0, true, 1);
    add({"pbf", 32, "", 7, false, true, true, false}, 0, true, 1);

    auto run_job = [&](Job& j, int b) {
        std::string name = std::string(j.o.delay_bounded ? "D:" : "P:") + j.c.name();
        vsched::Options o = j.o; o.min_bound = b; o.max_bound = b;
        m.run(name, [&] { body(j.c); }, o);
    };
    if (m.replay_mode()) {
        for (auto& j : jobs) m.run(std::string(j.o.delay_bounded ? "D:" : "P:") + j.c.name(), [&] { body(j.c); }, j.o);
    } else {
        for (int b = 0; b <= 1; ++b) for (size_t i = 0; i < n_deep; ++i) if (b <= jobs[i].o.max_bound) run_job(jobs[i], b);
        for (size_t i = n_deep; i < jobs.size(); ++i) run_job(jobs[i], 0);
        for (int b = 2; b <= 4; ++b) for (size_t i = 0; i < n_deep; ++i) if (b <= jobs[i].o.max_bound) run_job(jobs[i], b);
        if (T) for (size_t i = n_deep; i < jobs.size(); ++i) if (jobs[i].o.max_bound >= 1) run_job(jobs[i], 1);
    }
    int rc = m.finish();
    for (auto f : {"/in.opl", "/in.osm", "/in.pbf"}) unlink((g_dir + f).c_str());
    rmdir(g_dir.c_str());
    return rc;
}
