// C05 - Reader delivers each selected object exactly once and in file order, under every schedule
// with <= k deviations, for every configuration of a covering set. Real Reader/Pool/Queue code under
// vsched. Inputs are small multi-chunk files (hook H5 makes the read thread deliver 64-byte pieces,
// hook H6 makes parser buffers a few hundred bytes so nested buffers occur).
#define OSMIUM_TEST_RUNNER
#include <cstdlib>
#include <map>
#include <string>
namespace osmium { namespace detail {
    static std::map<std::string, std::string> g_env;
    inline const char* getenv_wrapper(const char* var) noexcept {
        auto it = g_env.find(var);
        return it == g_env.end() ? nullptr : it->second.c_str();
    }
} }

#include <vsched/vsched.hpp>

// hook H8 (build h05cap): the parsers' initial buffer capacity is chosen per execution
static std::size_t g_cap = 0;
#ifdef OSMIUM_VERIF_DYNAMIC_BUFFER_SIZE
extern "C" std::size_t osmium_verif_dynamic_buffer_size(std::size_t compiled_in_size) { return g_cap ? g_cap : compiled_in_size; }
#endif

#include <ref/osmdata.hpp>

#include <osmium/builder/osm_object_builder.hpp>
#include <osmium/io/any_input.hpp>
#include <osmium/io/pbf_output.hpp>
#include <osmium/io/writer.hpp>
#include <osmium/osm.hpp>
#include <osmium/thread/pool.hpp>

#include <fcntl.h>
#include <sys/stat.h>
#include <unistd.h>

#include <cstdio>
#include <functional>
#include <sstream>
#include <tuple>
#include <vector>

namespace {

using namespace osmdata;

struct Cfg {
    std::string fmt;   // opl, osm, pbf, o5m
    int pool;
    std::string qsize; // "" = default, else value for all three OSMIUM_MAX_*_QUEUE_SIZE
    int mask;          // osm_entity_bits (node 1, way 2, relation 4, changeset 8)
    bool single, meta, pbf_pool, call_header;
    int cap = 0;         // > 0: initial capacity of the parsers' buffers (hook H8, build h05cap)
    bool big = false;    // the data set with objects larger than the parser buffers (first in their blocks)
    bool slow = false;   // slow consumer: before every read() it waits until no other thread can run (queues full, back-pressure everywhere)
    std::string name() const {
        std::ostringstream s;
        s << fmt << ",pool=" << pool << ",q=" << (qsize.empty() ? "def" : qsize) << ",mask=" << mask << (single ? ",single" : ",any") << (meta ? ",meta" : ",nometa") << (pbf_pool ? "" : ",pbfpool=off") << (call_header ? ",header" : "") << (slow ? ",slow" : "") << (big ? ",big" : "") << (cap ? ",cap=" + std::to_string(cap) : std::string());
        return s.str();
    }
};

std::string g_dir;
std::vector<Obj> g_data, g_data_big;

void body(const Cfg& c) {
    auto& env = osmium::detail::g_env;
    env.clear();
    g_cap = static_cast<std::size_t>(c.cap);
    if (!c.qsize.empty()) { env["OSMIUM_MAX_INPUT_QUEUE_SIZE"] = c.qsize; env["OSMIUM_MAX_OSMDATA_QUEUE_SIZE"] = c.qsize; env["OSMIUM_MAX_WORK_QUEUE_SIZE"] = c.qsize; }
    if (!c.pbf_pool) env["OSMIUM_USE_POOL_THREADS_FOR_PBF_PARSING"] = "off";
    std::vector<std::string> got;
    std::string err;
    bool after_eof_threw = false, after_eof_data = false;
    size_t nbuffers = 0, mixed_buffers = 0;
    {
        osmium::thread::Pool pool{c.pool, 0};
        osmium::io::File file{c.fmt == "pbfz" ? g_dir + "/inz.pbf" : g_dir + (c.big ? "/inbig." : "/in.") + c.fmt};      // pbfz: zlib-compressed blobs (the decoders decompress)
        try {
            osmium::io::Reader reader{file, pool, static_cast<osmium::osm_entity_bits::type>(c.mask),
                                      c.meta ? osmium::io::read_meta::yes : osmium::io::read_meta::no,
                                      c.single ? osmium::io::buffers_type::single : osmium::io::buffers_type::any};
            if (c.call_header) reader.header();
            while (true) {
                if (c.slow) vsched::quiesce();
                osmium::memory::Buffer b = reader.read();
                if (!b) break;
                ++nbuffers;
                osmium::item_type first = osmium::item_type::undefined;
                for (const auto& o : b.select<osmium::OSMObject>()) {
                    got.push_back(canon(o, c.meta));
                    if (first == osmium::item_type::undefined) first = o.type(); else if (first != o.type()) { ++mixed_buffers; first = o.type(); }
                }
            }
            try { osmium::memory::Buffer b = reader.read(); if (b && b.committed() > 0) after_eof_data = true; }
            catch (const osmium::io_error&) { after_eof_threw = true; }
            reader.close();
        } catch (const std::exception& e) {
            err = e.what();
        }
    }
    std::vector<std::string> want;
    for (auto& o : (c.big ? g_data_big : g_data)) {
        int bit = o.type == 'n' ? 1 : o.type == 'w' ? 2 : 4;
        if (c.mask & bit) want.push_back(canon(o, c.meta));
    }
    if (!err.empty()) vsched::fail("reader/exception-on-valid-file/" + c.fmt, err);
    else {
        if (got != want) {
            std::string d;
            size_t i = 0; while (i < got.size() && i < want.size() && got[i] == want[i]) ++i;
            d = "first difference at position " + std::to_string(i) + ": got " + (i < got.size() ? got[i] : "<end>") + " expected " + (i < want.size() ? want[i] : "<end>") + " (" + std::to_string(got.size()) + " vs " + std::to_string(want.size()) + " objects)";
            std::string kind = got.size() < want.size() ? "objects-missing" : got.size() > want.size() ? "objects-duplicated-or-extra" : "order-or-content-differs";
            vsched::fail("reader/" + kind + "/" + c.fmt, d);
        }
        if (after_eof_data) vsched::fail("reader/read-after-eof-returned-data/" + c.fmt, "");
        else if (!after_eof_threw && c.mask != 0) vsched::fail("reader/read-after-eof-did-not-throw/" + c.fmt, "");
    }
    vsched::observe("objects=" + std::to_string(got.size()) + " buffers=" + std::to_string(nbuffers) + (mixed_buffers ? " mixed" : ""));
}

}  // namespace

int main(int argc, char** argv) {
    vsched::Main m(argc, argv);
    const bool T = m.thorough();
    g_data = dataset();
    char tmpl[] = "/dev/shm/verif-c05-XXXXXX";
    g_dir = mkdtemp(tmpl);
    write_file(g_dir + "/in.opl", to_opl(g_data));
    write_file(g_dir + "/in.osm", to_xml(g_data));
    write_pbf(g_dir + "/in.pbf", g_data, true);
    write_file(g_dir + "/in.o5m", to_o5m(g_data));
    write_pbf(g_dir + "/inz.pbf", g_data, true, "zlib", true);      // zlib blobs, header declares Sort.Type_then_ID
    g_data_big = dataset_big();
    write_file(g_dir + "/inbig.opl", to_opl(g_data_big));
    write_file(g_dir + "/inbig.osm", to_xml(g_data_big));
    write_pbf(g_dir + "/inbig.pbf", g_data_big, true);
    write_file(g_dir + "/inbig.o5m", to_o5m(g_data_big));

    bool capsweep = false;
    for (auto& x : m.rest()) if (x == "--capsweep") capsweep = true;
    struct Job { Cfg c; vsched::Options o; };
    std::vector<Job> jobs;
    auto add = [&](const Cfg& c, int kmax, bool delay, int workers) {
        vsched::Options o; o.max_bound = kmax; o.delay_bounded = delay; o.workers = workers; o.unlock_points = false;
        jobs.push_back({c, o});
    };
    const char* fmts[] = {"opl", "osm", "pbf", "o5m"};
    if (capsweep || m.replay_mode()) {      // (a replayed artefact names its configuration; the sweep's configurations are offered too)
        // every initial capacity of the parsers' buffers from 64 to 640 bytes in steps of 8 (so that for some capacity every builder
        // call of the decoders is the one at which the buffer grows / a nested buffer starts), deterministic schedule
        for (auto fmt : fmts) for (int cap = 64; cap <= 640; cap += 8) {
            Cfg c{fmt, 1 + (cap / 8) % 2, (cap / 16) % 2 ? "2" : "", 7, (cap / 32) % 2 != 0, true, true, (cap / 64) % 2 != 0};
            c.cap = cap;
            add(c, 0, true, 1);
            if (cap % 24 == 16 || T) { Cfg b = c; b.big = true; add(b, 0, true, 1); }
        }
        for (auto& j : jobs) { std::string name = "D:" + j.c.name(); if (m.replay_mode()) m.run(name, [&] { body(j.c); }, j.o); else { vsched::Options o = j.o; o.min_bound = 0; o.max_bound = 0; m.run(name, [&] { body(j.c); }, o); } }
        if (capsweep) {
            int rc2 = m.finish();
            for (auto f : {"/inz.pbf", "/in.opl", "/in.osm", "/in.pbf", "/in.o5m", "/inbig.opl", "/inbig.osm", "/inbig.pbf", "/inbig.o5m"}) unlink((g_dir + f).c_str());
            rmdir(g_dir.c_str());
            return rc2;
        }
        jobs.clear();
    }
    // (1) covering subset: each option value with each pool size, per format; deeper bounds
    for (auto fmt : fmts) for (int pool : {1, 2}) {
        std::vector<Cfg> cover = {
            {fmt, pool, "2", 7, false, true, true, false},
            {fmt, pool, "3", 7, true, true, true, true},
            {fmt, pool, "", 5, false, false, true, false},
        };
        if (std::string(fmt) == "pbf") cover.push_back({fmt, pool, "2", 7, false, true, false, true});
        if (std::string(fmt) == "pbf" && pool == 2) cover.push_back({"pbfz", pool, "2", 7, false, true, true, false});      // zlib blobs: two workers decompress at the same time (uncompress() is a scheduling point)
        if (std::string(fmt) == "pbf" && pool == 2) cover.push_back({"pbfz", 3, "2", 2, false, true, true, false});         // three workers, ways only, sorted file: blobs of unselected types come back empty and may finish in any order (seed C05f)
        { Cfg sc{fmt, pool, "2", 7, false, true, true, false}; sc.slow = true; cover.push_back(sc); }
        { Cfg bc{fmt, pool, "2", 7, false, true, true, false}; bc.big = true; cover.push_back(bc); }       // objects larger than the parser buffers
        { Cfg bc{fmt, pool, "3", 6, true, true, true, true}; bc.big = true; cover.push_back(bc); }         // ... with buffers_type::single and the node-less mask (a big way is the first selected object)      // pipeline ahead of the consumer: every queue full before each read()
        // quick: bound 2 where an execution has few decision points (PBF ~120, o5m ~165; OPL ~230 on one configuration); the XML
        // reader has ~450 decision points per execution (~10^5 schedules per configuration at bound 2): bound <= 1 in quick
        for (auto& c : cover) {
            const std::string f = fmt;
            const int kq = (c.big || c.slow) ? 1 : (f == "pbf" || f == "o5m" || c.fmt == "pbfz") ? 2 : (f == "opl" && pool == 2 && c.qsize == "2") ? 2 : 1;
            add(c, T ? 3 : kq, true, 16);
        }
    }
    // (2) preemption bounding (free switches at blocking points) on one small configuration per format
    for (auto fmt : fmts) add({fmt, 1, "2", 7, false, true, true, false}, T ? 1 : 0, false, 16);
    size_t n_deep = jobs.size();
    // (3) configuration product at bound 0: thorough = the full product (also at bound 1); quick = every value of every
    //     option with every format and entity mask (other options rotated), one worker process each
    for (auto fmt : fmts) for (int mask = 0; mask < 16; ++mask) {
        if (T) {
            for (int pool : {1, 2, 3}) for (const char* q : {"2", ""}) for (int single = 0; single < 2; ++single) for (int meta = 0; meta < 2; ++meta) for (int pp = 0; pp < 2; ++pp) {
                if (pool == 3 && (single != (mask & 1) || meta != ((mask >> 1) & 1))) continue;      // pool 3: one (single, meta) combination per mask
                if (pp == 0 && std::string(fmt) != "pbf") continue;
                add(Cfg{fmt, pool, q, mask, single != 0, meta != 0, pp != 0, (mask + pool) % 2 == 0}, 1, true, 2);
            }
        } else {
            static const char* qs[] = {"2", "3", ""};
            for (int v = 0; v < 3; ++v)
                add(Cfg{fmt, 1 + (mask + v) % 3, qs[(mask / 2 + v) % 3], mask, ((mask + v) & 1) != 0, ((mask / 4 + v) & 1) != 0, std::string(fmt) != "pbf" || v != 2, v == 1}, 0, true, 1);
        }
    }
    add({"opl", 32, "", 7, false, true, true, false}, 0, true, 1);
    add({"pbf", 32, "", 7, false, true, true, false}, 0, true, 1);

    std::string only;      // --only <substring of a configuration name>: targeted runs while developing
    for (size_t i = 0; i + 1 < m.rest().size(); ++i) if (m.rest()[i] == "--only") only = m.rest()[i + 1];
    auto run_job = [&](Job& j, int b) {
        std::string name = std::string(j.o.delay_bounded ? "D:" : "P:") + j.c.name();
        if (!only.empty() && name.find(only) == std::string::npos) return;
        vsched::Options o = j.o; o.min_bound = b; o.max_bound = b;
        m.run(name, [&] { body(j.c); }, o);
    };
    if (m.replay_mode()) {
        for (auto& j : jobs) m.run(std::string(j.o.delay_bounded ? "D:" : "P:") + j.c.name(), [&] { body(j.c); }, j.o);
    } else {
        // smallest bounds first everywhere; thorough: the cover set to bound 2 before the configuration product, bound 3 after it
        for (int b = 0; b <= (T ? 2 : 1); ++b) for (size_t i = 0; i < n_deep; ++i) if (b <= jobs[i].o.max_bound) run_job(jobs[i], b);
        for (size_t i = n_deep; i < jobs.size(); ++i) run_job(jobs[i], 0);
        // the highest bounds: configurations with the fewest decision points per execution first (PBF ~120, o5m ~165, OPL ~230, XML ~450),
        // so that a deadline cuts the most expensive ones
        for (int b = (T ? 3 : 2); b <= 4; ++b) for (const char* f : {"pbfz", "pbf", "o5m", "opl", "osm"}) for (size_t i = 0; i < n_deep; ++i) if (jobs[i].c.fmt == f && b <= jobs[i].o.max_bound) run_job(jobs[i], b);
        if (T) for (size_t i = n_deep; i < jobs.size(); ++i) if (jobs[i].o.max_bound >= 1) run_job(jobs[i], 1);
    }
    int rc = m.finish();
    for (auto f : {"/inz.pbf", "/in.opl", "/in.osm", "/in.pbf", "/in.o5m", "/inbig.opl", "/inbig.osm", "/inbig.pbf", "/inbig.o5m"}) unlink((g_dir + f).c_str());
    rmdir(g_dir.c_str());
    return rc;
}
