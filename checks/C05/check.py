"""C05 - Reader delivers each selected object exactly once, in file order, under every schedule with <= k deviations."""
LEVEL = "model_checking"
RULE = ("stateless exploration of the real Reader pipeline (read thread -> input queue -> parser thread -> pool workers -> osmdata queue -> "
        "consumer) under the vsched scheduler: every schedule with at most k deviations from the deterministic lowest-id-first scheduler "
        "(delay bounding; plus preemption bounding with free switches on one configuration per format), k iterated smallest first across "
        "all configurations. Inputs: 11-object OPL/XML/PBF/o5m files (OPL, XML and o5m from hand-written encoders independent of the library) delivered in 64-byte pieces (hook H5) into 512/256-byte parser buffers "
        "(hook H6, so nested buffers and back-pressure occur); plus, through hook H8, every initial capacity 64..640 step 8 of the parsers' "
        "buffers for all four formats at the deterministic schedule (for some capacity every builder call of a decoder is the one at which the "
        "buffer grows). Oracle: the delivered (type,id,version,metadata,tags,location/refs/members) "
        "sequence equals the abstract object list filtered by the entity mask; read() after end of data throws. evaluations = complete "
        "schedules; distinct_nontrivial = schedules deviating from the default schedule (distinct by choice sequence).")
DEADLINE = {"quick": 220, "thorough": 1500}
FLAGS = ["-fno-access-control", "-DOSMIUM_VERIF_INPUT_BUFFER_SIZE=64", "-DOSMIUM_VERIF_PARSER_BUFFER_SIZE=512",
         "-DOSMIUM_VERIF_PBF_BUFFER_SIZE=256"]


def build(ctx):
    vs = ctx.vsched_obj()
    return {"h05": ctx.build("h05", ["h05.cpp"], flags=FLAGS + ctx.atomic_points(), opt="-O1", objects=[vs]),
            "h05tsan": ctx.build_tsan_free("h05tsan", ["h05.cpp"], flags=FLAGS),
            "h05cap": ctx.build("h05cap", ["h05.cpp"], flags=["-fno-access-control", "-DOSMIUM_VERIF_INPUT_BUFFER_SIZE=64", "-DOSMIUM_VERIF_DYNAMIC_BUFFER_SIZE"] + ctx.atomic_points(), opt="-O1", objects=[vs])}


def run(ctx):
    exes = build(ctx)
    exe = exes["h05"]
    if getattr(ctx, "build_only", False):
        return
    # free-running ThreadSanitizer companion (real threads, no scheduler): guards the assumption that scheduling points at the
    # synchronisation operations and the atomic-flag hooks are sufficient, i.e. that the pipeline has no unsynchronised sharing
    import os
    ctx.run_harness(exes["h05tsan"], ["--iterations", "5" if ctx.tier == "quick" else "40", "--deadline", "40" if ctx.tier == "quick" else "300"],
                    env={"TSAN_OPTIONS": "halt_on_error=0:exitcode=66:suppressions=" + os.path.join(os.path.dirname(os.path.dirname(ctx.checkdir)), "engine", "vsched", "tsan.supp")}, timeout=120 if ctx.tier == "quick" else 500)
    # hook H8: the same pipeline with every initial capacity 64..640 (step 8) of the parsers' buffers, all four formats
    ctx.run_harness(exes["h05cap"], ["--capsweep"])
    ctx.run_harness(exe, [])
    ctx.assume("sequentially consistent scheduler; no spurious wake-ups; PBF test file written by the library's own Writer "
               "(the expectation is the abstract object list, not the Writer's output)")
