"""C17 - geometry exports encode exactly the object's coordinates in every output format (DESIGN.md section 5, C17)."""
LEVEL = "exploration"
RULE = ("finite-domain enumeration with rank<->case bijection, every case distinct by construction: (points) 6 location symbols x "
        "{Location,Node,NodeRef}; (lines) every node list of length 0..5|7 over {A,B,C,Undefined,Invalid} and of length 6..7|8..10 over "
        "{A,B,C} x {linestring,polygon} x {Way,WayNodeList} x {unique,all} x {forward,backward}; (areas) every area with 0..2|3 outer rings "
        "x 0..2|3 inner rings each over a ring alphabet (plain, duplicate runs at start/middle/end, undefined/invalid location "
        "first/middle/last, short, empty); each x {identity, Web-Mercator} x 9 format configurations (WKB, EWKB, hex WKB, hex EWKB, WKT p7, "
        "WKT p3, EWKT, GeoJSON p7, GeoJSON p3), each evaluated on a fresh factory and again on the same factory after a complete and "
        "after an aborted multipolygon; (numbers) coordinates of every decimal magnitude a projection produces x precision 0..17 in an "
        "ASan build, every death attributed to its case by fork isolation. Oracle: reference model (iteration order, reject bad "
        "locations anywhere, drop consecutive duplicates, group rings) compared with what the harness's own WKB/WKT/GeoJSON readers "
        "recover; numbers against exact 128-bit decimal arithmetic (less than one unit of the last requested decimal off). evaluations = (case, projection, format) oracle evaluations; "
        "non-trivial = node list with >= 2 locations / area with >= 1 ring / non-zero number.")
DEADLINE = {"quick": 150, "thorough": 1200}


def build(ctx):
    fast, asan = ctx.build_many([
        dict(name="h17", sources=["h17.cpp"], opt="-O2"),
        dict(name="h17asan", sources=["h17.cpp"], opt="-O1", asan=True),
    ])
    return {"h17": fast, "h17asan": asan}


def merge_number_failures(ctx, asan):
    """Failing (coordinate, precision) cases of the ASan 'numbers' sweep - wrong text or dead child - arrive as
    SET num_bad 'L|K|p|z|spec|class' (L untrimmed '%.*f' length, K characters before the point, z=1: precision 0 and the
    rounded integer ends in 0). Two merged findings are recognised, each with one class key and a replay that re-runs the
    class and its neighbours: (z=1) every such case fails and no other precision-0 case does; (z=0) the failures are
    exactly the cases with L >= Lmin. Anything that does not fit keeps one key per (class, precision)."""
    bad = [d.split("|", 5) for d in sorted(ctx.sets.get("num_bad", ()))]
    ok_L = [int(x) for x in ctx.sets.get("num_ok_L", ())]
    ctx.extra["number_failures_merged"] = len(bad)

    def fine(d):
        cfg = ("precision=0,integer-ends-in-0" if d[3] == "1" else "precision=%s" % d[2] if d[5] == "wrong-text"
               else "int-chars=%s,precision=%s" % (d[1], d[2]))
        ctx.violation("number/%s/%s" % (d[5], cfg), "failing case " + d[4], harness=asan, spec=d[4])

    def what_of(ds):
        w = sorted(set(d[5] for d in ds if d[5] != "wrong-text"))
        return None if len(w) > 1 else (w[0] if w else "wrong-text")

    z1 = [d for d in bad if d[3] == "1"]
    z0 = [d for d in bad if d[3] == "0"]
    if z1:
        what = what_of(z1)
        if what and not ctx.sets.get("num_ok_p0_ends0") and not any(d[2] == "0" for d in z0):
            ndead = sum(1 for d in z1 if d[5] != "wrong-text")
            ctx.violation("number/%s/precision=0,integer-ends-in-0" % what,
                          "all %d enumerated cases with precision 0 whose rounded integer ends in 0 fail (trailing zeros of the integer "
                          "are stripped: 10 -> '1', 180 -> '18', -0 -> '-'): %d wrong texts, %d dead ASan children (value rounds to "
                          "'0', read before the buffer). First: %s" % (len(z1), len(z1) - ndead, ndead, z1[0][4]),
                          harness=asan, spec="nump0")
        else:
            for d in z1:
                fine(d)
    if z0:
        lmin = min(int(d[0]) for d in z0)
        what = what_of([d for d in z0 if int(d[0]) <= lmin + 1])
        per_k = {}
        for d in z0:
            per_k[int(d[1])] = min(per_k.get(int(d[1]), 99), int(d[2]))
        ctx.extra["number_smallest_failing_precision_by_integer_part_width"] = {str(k): per_k[k] for k in sorted(per_k)}
        if what and (not ok_L or max(ok_L) < lmin):
            table = ", ".join("%d chars before the point: precision >= %d" % (k, per_k[k]) for k in sorted(per_k))
            nwrong = sum(1 for d in z0 if d[5] == "wrong-text")
            first = min(z0, key=lambda d: (int(d[0]), int(d[2]), d[4]))
            ctx.violation("number/%s/untrimmed-length>=%d" % (what, lmin),
                          "%d enumerated (coordinate, precision) cases fail: exactly those whose '%%.*f' text needs >= %d characters "
                          "(every exact case needs <= %d): %d returned a wrong text (truncated, embedded NUL), %d killed the ASan child (%s). "
                          "Smallest failing precision by width of the integer part incl. sign: %s. First: %s"
                          % (len(z0), lmin, max(ok_L) if ok_L else -1, nwrong, len(z0) - nwrong, what, table, first[4]),
                          harness=asan, spec="numthr:%d" % lmin)
        else:
            for d in z0:
                fine(d)


def run(ctx):
    exes = build(ctx)
    if getattr(ctx, "build_only", False):
        return
    fast, asan = exes["h17"], exes["h17asan"]
    # smallest first: points, the ASan number sweep, then the structure sweeps
    ctx.run_harness(fast, ["--part", "points"], shards=1)
    ctx.run_harness(asan, ["--part", "numbers"], shards=16)
    merge_number_failures(ctx, asan)
    ctx.run_harness(asan, ["--part", "points"], shards=4)
    ctx.run_harness(asan, ["--part", "lines", "--maxlen", "4" if ctx.tier == "quick" else "5", "--alphabet", "ABUI" if ctx.tier == "quick" else "ABCUI"], shards=16)
    ctx.run_harness(asan, ["--part", "areas", "--level", "0"], shards=16)
    ctx.run_harness(fast, ["--part", "lines"], shards=16)
    ctx.run_harness(fast, ["--part", "areas"], shards=16)
    ctx.assume("the Web-Mercator values themselves are taken from osmium::geom::lonlat_to_mercator (their correctness is C18); "
               "Mercator inputs stay inside its documented domain |lat| <= 85.0511288")
    ctx.assume("a number text is exact to precision p when it is the exact binary value rounded down or up to p decimals (128-bit integer arithmetic; not-nearest results are counted, none seen); trailing zeros may or may not be trimmed; a sign on a zero is ignored")
    ctx.assume("rings of an area with fewer than four points are left open by the statement (either rejected, or encoded exactly); "
               "rings without any point are not compared when accepted")
    ctx.assume("EWKB members of a multipolygon may repeat the collection's SRID (PostGIS reads both forms)")
