// C17 - geometry exports encode exactly the object's coordinates in every output format.
//
// Exhaustive enumeration (rank <-> case bijection) against an independent reference model; every library
// output is read back by the harness's own WKB/EWKB(+hex) / WKT/EWKT / GeoJSON decoders (no libosmium code).
// Sub-spaces (--part):
//   points   every location symbol x {Location, Node, NodeRef} x {identity, Web-Mercator} x 9 format configurations
//   lines    every node list of length 0..5|7 over {A,B,C,U(ndefined),I(nvalid)} and of length 6..7|8..10 over {A,B,C}
//            x {linestring, polygon} x {Way, WayNodeList} x {unique, all} x {forward, backward} x 2 projections
//            x 9 format configurations
//   areas    every area built from a ring alphabet (1..k outer rings each with 0..m inner rings; no rings)
//            x 2 projections x 9 format configurations
//   numbers  single coordinates of every magnitude a projection can produce x precision 0..17 (ASan build,
//            every case attributed to its rank by fork isolation) - exact decimal oracle (128 bit integers)
// The same source is compiled twice: plain (fast structure sweeps) and with ASan (numbers + small structure
// sweeps, every rank inside benum::run_isolated).
#include <benum/benum.hpp>

#include <osmium/builder/osm_object_builder.hpp>
#include <osmium/geom/coordinates.hpp>
#include <osmium/geom/factory.hpp>
#include <osmium/geom/geojson.hpp>
#include <osmium/geom/mercator_projection.hpp>
#include <osmium/geom/wkb.hpp>
#include <osmium/geom/wkt.hpp>
#include <osmium/memory/buffer.hpp>
#include <osmium/osm/area.hpp>
#include <osmium/osm/node.hpp>
#include <osmium/osm/way.hpp>

#include <algorithm>
#include <cmath>
#include <cstring>
#include <set>
#include <string>
#include <utility>
#include <vector>

#if defined(__SANITIZE_ADDRESS__)
static const bool ISOLATE = true;
#else
static const bool ISOLATE = false;
#endif

using benum::Args;
typedef unsigned __int128 u128;
static benum::Counters C;
static benum::Violations V;
static std::set<std::string> OUTCOMES;     // diversity of observed (kind, outcome, input class)
static bool SAMPLING = false;             // every 5th shard (offset chosen by the seed) prints samples
static unsigned SHARD = 0;
static bool want_sample(const char* slot, unsigned cap) { if (!SAMPLING || C[slot] >= cap) return false; ++C[slot]; return true; }

// ================================================================================================
// decoded geometry (shared by all decoders). A point is polys[0][0][0], a linestring polys[0][0],
// a polygon polys[0]. Binary decoders fill x,y; text decoders fill tx,ty (the number tokens).
struct Pt { double x = 0, y = 0; std::string tx, ty; };
typedef std::vector<Pt> Ring;
typedef std::vector<Ring> Poly;
struct Geom { int kind = 0; bool has_srid = false; long srid = 0; std::vector<Poly> polys; };
enum { POINT = 1, LINESTRING = 2, POLYGON = 3, MULTIPOLYGON = 6 };
static const char* kind_name(int k) { return k == POINT ? "point" : k == LINESTRING ? "linestring" : k == POLYGON ? "polygon" : k == MULTIPOLYGON ? "multipolygon" : "unknown"; }

// ---- WKB / EWKB reader (OGC SFS 1.1 + PostGIS SRID flag), either byte order -----------------------
struct Rd {
    const std::string& b; size_t i; bool le; std::string err;
    explicit Rd(const std::string& s) : b(s), i(0), le(true) {}
    bool need(size_t n) { if (!err.empty()) return false; if (b.size() - i >= n) return true; err = "data ends inside an element (count fields too large)"; return false; }
    uint64_t un(int n) { if (!need(n)) return 0; uint64_t v = 0; for (int k = 0; k < n; ++k) v |= static_cast<uint64_t>(static_cast<unsigned char>(b[i + (le ? k : n - 1 - k)])) << (8 * k); i += n; return v; }
    uint32_t u32() { return static_cast<uint32_t>(un(4)); }
    double f64() { uint64_t v = un(8); double d; memcpy(&d, &v, 8); return d; }
};
static bool wkb_header(Rd& r, uint32_t& base, bool& has_srid, long& srid) {
    if (!r.need(1)) return false;
    unsigned char bo = static_cast<unsigned char>(r.b[r.i++]);
    if (bo > 1) { r.err = "bad byte order mark"; return false; }
    r.le = bo == 1;
    uint32_t t = r.u32();
    has_srid = (t & 0x20000000u) != 0; base = t & ~0x20000000u;
    if (has_srid) srid = static_cast<int32_t>(r.u32());
    return r.err.empty();
}
static void wkb_points(Rd& r, Ring& ring) {
    uint32_t n = r.u32();
    if (!r.err.empty()) return;
    if ((r.b.size() - r.i) / 16 < n) { r.err = "point count " + std::to_string(n) + " exceeds the encoded points"; return; }
    for (uint32_t k = 0; k < n; ++k) { Pt p; p.x = r.f64(); p.y = r.f64(); ring.push_back(p); }
}
static void wkb_rings(Rd& r, Poly& poly) {
    uint32_t n = r.u32();
    if (!r.err.empty()) return;
    if ((r.b.size() - r.i) / 4 < n) { r.err = "ring count " + std::to_string(n) + " exceeds the encoded rings"; return; }
    for (uint32_t k = 0; k < n && r.err.empty(); ++k) { Ring ring; wkb_points(r, ring); poly.push_back(ring); }
}
static std::string decode_wkb(const std::string& bytes, Geom& g) {
    Rd r(bytes); uint32_t base = 0;
    if (!wkb_header(r, base, g.has_srid, g.srid)) return r.err;
    g.kind = static_cast<int>(base);
    if (base == POINT) { Pt p; p.x = r.f64(); p.y = r.f64(); g.polys = {Poly{Ring{p}}}; }
    else if (base == LINESTRING) { Ring ring; wkb_points(r, ring); g.polys = {Poly{ring}}; }
    else if (base == POLYGON) { Poly poly; wkb_rings(r, poly); g.polys = {poly}; }
    else if (base == MULTIPOLYGON) {
        uint32_t n = r.u32();
        if (r.err.empty() && (bytes.size() - r.i) / 9 < n) r.err = "polygon count " + std::to_string(n) + " exceeds the encoded polygons";
        for (uint32_t k = 0; k < n && r.err.empty(); ++k) {
            uint32_t b2 = 0; bool hs = false; long s2 = 0;
            if (!wkb_header(r, b2, hs, s2)) break;
            if (b2 != POLYGON) { r.err = "multipolygon member " + std::to_string(k) + " has geometry type " + std::to_string(b2); break; }
            if (hs && (!g.has_srid || s2 != g.srid)) { r.err = "member SRID differs from the collection"; break; }
            Poly poly; wkb_rings(r, poly); g.polys.push_back(poly);
        }
    } else r.err = "geometry type " + std::to_string(base);
    if (r.err.empty() && r.i != bytes.size()) r.err = std::to_string(bytes.size() - r.i) + " bytes left after the geometry (count fields too small)";
    return r.err;
}
static std::string decode_hex(const std::string& h, std::string& bytes) {
    if (h.size() % 2) return "odd number of hex digits";
    auto v = [](char c) { return c >= '0' && c <= '9' ? c - '0' : c >= 'A' && c <= 'F' ? c - 'A' + 10 : c >= 'a' && c <= 'f' ? c - 'a' + 10 : -1; };
    for (size_t i = 0; i < h.size(); i += 2) { int a = v(h[i]), b = v(h[i + 1]); if (a < 0 || b < 0) return "not a hex digit"; bytes += static_cast<char>(a * 16 + b); }
    return "";
}

// ---- text cursor, WKT/EWKT reader -------------------------------------------------------------------
struct Tx {
    const std::string& s; size_t i; std::string err;
    explicit Tx(const std::string& str) : s(str), i(0) {}
    bool lit(const char* l) { size_t n = strlen(l); if (err.empty() && s.compare(i, n, l) == 0) { i += n; return true; } return false; }
    bool expect(const char* l) { if (lit(l)) return true; if (err.empty()) err = std::string("expected '") + l + "' at offset " + std::to_string(i); return false; }
    bool digits() { size_t st = i; while (i < s.size() && s[i] >= '0' && s[i] <= '9') ++i; return i > st; }
    bool number(std::string& out) {   // -?digits(.digits)?
        if (!err.empty()) return false;
        size_t st = i;
        if (i < s.size() && s[i] == '-') ++i;
        bool ok = digits();
        if (ok && i < s.size() && s[i] == '.') { ++i; ok = digits(); }
        if (!ok) { err = "expected a number at offset " + std::to_string(st); return false; }
        out = s.substr(st, i - st); return true;
    }
};
static bool wkt_ptlist(Tx& t, Ring& r) {
    if (!t.expect("(")) return false;
    do { Pt p; if (!(t.number(p.tx) && t.expect(" ") && t.number(p.ty))) return false; r.push_back(p); } while (t.lit(","));
    return t.expect(")");
}
static bool wkt_rings(Tx& t, Poly& poly) {
    if (!t.expect("(")) return false;
    do { Ring r; if (!wkt_ptlist(t, r)) return false; poly.push_back(r); } while (t.lit(","));
    return t.expect(")");
}
static std::string decode_wkt(const std::string& s, Geom& g) {
    Tx t(s);
    if (t.lit("SRID=")) { size_t st = t.i; if (!t.digits()) return "SRID without number"; g.has_srid = true; g.srid = atol(s.substr(st, t.i - st).c_str()); if (!t.expect(";")) return t.err; }
    if (t.lit("POINT")) { g.kind = POINT; Ring r; wkt_ptlist(t, r); if (t.err.empty() && r.size() != 1) t.err = "POINT with several positions"; g.polys = {Poly{r}}; }
    else if (t.lit("LINESTRING")) { g.kind = LINESTRING; Ring r; wkt_ptlist(t, r); g.polys = {Poly{r}}; }
    else if (t.lit("POLYGON")) { g.kind = POLYGON; Poly p; wkt_rings(t, p); g.polys = {p}; }
    else if (t.lit("MULTIPOLYGON")) {
        g.kind = MULTIPOLYGON;
        if (t.expect("(")) { do { Poly p; if (!wkt_rings(t, p)) break; g.polys.push_back(p); } while (t.lit(",")); t.expect(")"); }
    } else return "unknown geometry keyword";
    if (t.err.empty() && t.i != s.size()) t.err = "text left after the geometry at offset " + std::to_string(t.i);
    return t.err;
}

// ---- minimal JSON reader (RFC 8259 grammar) + GeoJSON (RFC 7946) geometry interpretation ------------
struct J { char t = 0; std::string s; std::vector<J> a; std::vector<std::pair<std::string, J> > o; };   // t: o a s n l
static void json_ws(Tx& t) { while (t.i < t.s.size() && (t.s[t.i] == ' ' || t.s[t.i] == '\n' || t.s[t.i] == '\t' || t.s[t.i] == '\r')) ++t.i; }
static bool json_string(Tx& t, std::string& out) {
    if (!t.expect("\"")) return false;
    while (t.i < t.s.size() && t.s[t.i] != '"') {
        unsigned char c = static_cast<unsigned char>(t.s[t.i]);
        if (c < 0x20) { t.err = "control character in string"; return false; }
        if (c == '\\') { if (t.i + 1 >= t.s.size() || !strchr("\"\\/bfnrtu", t.s[t.i + 1])) { t.err = "bad escape"; return false; } out += t.s[t.i++]; }
        out += t.s[t.i++];
    }
    return t.expect("\"");
}
static bool json_value(Tx& t, J& j, int depth) {
    if (depth > 16) { t.err = "nesting too deep"; return false; }
    json_ws(t);
    if (t.i >= t.s.size()) { t.err = "unexpected end of JSON text"; return false; }
    char c = t.s[t.i];
    if (c == '{') {
        j.t = 'o'; ++t.i; json_ws(t);
        if (t.lit("}")) return true;
        do { json_ws(t); std::string k; J v; if (!json_string(t, k)) return false; json_ws(t); if (!t.expect(":")) return false; if (!json_value(t, v, depth + 1)) return false; j.o.push_back(std::make_pair(k, v)); json_ws(t); } while (t.lit(","));
        return t.expect("}");
    }
    if (c == '[') {
        j.t = 'a'; ++t.i; json_ws(t);
        if (t.lit("]")) return true;
        do { J v; if (!json_value(t, v, depth + 1)) return false; j.a.push_back(v); json_ws(t); } while (t.lit(","));
        return t.expect("]");
    }
    if (c == '"') { j.t = 's'; return json_string(t, j.s); }
    if (t.lit("true") || t.lit("false") || t.lit("null")) { j.t = 'l'; return true; }
    // number: -?(0|[1-9][0-9]*)(.[0-9]+)?([eE][+-]?[0-9]+)?
    size_t st = t.i; bool ok = true;
    if (t.i < t.s.size() && t.s[t.i] == '-') ++t.i;
    if (t.i < t.s.size() && t.s[t.i] == '0') ++t.i; else if (t.i < t.s.size() && t.s[t.i] >= '1' && t.s[t.i] <= '9') t.digits(); else ok = false;
    if (ok && t.i < t.s.size() && t.s[t.i] == '.') { ++t.i; ok = t.digits(); }
    if (ok && t.i < t.s.size() && (t.s[t.i] == 'e' || t.s[t.i] == 'E')) { ++t.i; if (t.i < t.s.size() && (t.s[t.i] == '+' || t.s[t.i] == '-')) ++t.i; ok = t.digits(); }
    if (!ok) { t.err = "not a JSON value at offset " + std::to_string(st); return false; }
    j.t = 'n'; j.s = t.s.substr(st, t.i - st); return true;
}
static bool gj_position(const J& j, Pt& p, std::string& err) {
    if (j.t != 'a' || j.a.size() != 2 || j.a[0].t != 'n' || j.a[1].t != 'n') { err = "position is not an array of two numbers"; return false; }
    p.tx = j.a[0].s; p.ty = j.a[1].s; return true;
}
static bool gj_ring(const J& j, Ring& r, std::string& err) {
    if (j.t != 'a') { err = "coordinate list is not an array"; return false; }
    for (const J& e : j.a) { Pt p; if (!gj_position(e, p, err)) return false; r.push_back(p); }
    return true;
}
static bool gj_poly(const J& j, Poly& poly, std::string& err) {
    if (j.t != 'a') { err = "ring list is not an array"; return false; }
    for (const J& e : j.a) { Ring r; if (!gj_ring(e, r, err)) return false; poly.push_back(r); }
    return true;
}
static std::string decode_geojson(const std::string& s, Geom& g) {
    Tx t(s); J root;
    if (!json_value(t, root, 0)) return t.err;
    json_ws(t);
    if (t.i != s.size()) return "text left after the JSON value at offset " + std::to_string(t.i);
    if (root.t != 'o' || root.o.size() != 2) return "geometry object must have exactly the members type and coordinates";
    const J* type = nullptr; const J* co = nullptr;
    for (const auto& kv : root.o) { if (kv.first == "type") type = &kv.second; else if (kv.first == "coordinates") co = &kv.second; }
    if (!type || !co || type->t != 's') return "geometry object lacks type or coordinates";
    std::string err;
    if (type->s == "Point") { g.kind = POINT; Pt p; if (gj_position(*co, p, err)) g.polys = {Poly{Ring{p}}}; }
    else if (type->s == "LineString") { g.kind = LINESTRING; Ring r; if (gj_ring(*co, r, err)) g.polys = {Poly{r}}; }
    else if (type->s == "Polygon") { g.kind = POLYGON; Poly p; if (gj_poly(*co, p, err)) g.polys = {p}; }
    else if (type->s == "MultiPolygon") {
        g.kind = MULTIPOLYGON;
        if (co->t != 'a') err = "polygon list is not an array";
        else for (const J& e : co->a) { Poly p; if (!gj_poly(e, p, err)) break; g.polys.push_back(p); }
    } else err = "unknown geometry type '" + type->s + "'";
    return err;
}

// ================================================================================================
// exact decimal reference for "%.*f": |v| = M * 2^-k exactly, q = round(|v| * 10^p) in 128 bit integers
// q: |v|*10^p rounded to nearest (half-even, what printf does); qlo: rounded down; exact: |v|*10^p is an integer; tie: half way
struct RefNum { bool ok = false, neg = false, tie = false, exact = true; u128 q = 0, qlo = 0; int K = 0, L = 0; std::string text; };
static u128 pow10u(int p) { u128 r = 1; while (p-- > 0) r *= 10; return r; }
static std::string dec(u128 v) { if (v == 0) return "0"; std::string s; while (v > 0) { s += static_cast<char>('0' + static_cast<int>(v % 10)); v /= 10; } std::reverse(s.begin(), s.end()); return s; }
static RefNum ref_number(double v, int p) {
    RefNum r;
    if (!std::isfinite(v) || p < 0 || p > 17 || std::fabs(v) >= 1e15) return r;
    r.neg = std::signbit(v);
    int ex = 0; double m = std::frexp(std::fabs(v), &ex);            // |v| = m * 2^ex, m in [0.5,1)
    uint64_t M = static_cast<uint64_t>(std::ldexp(m, 53)); int k = 53 - ex;   // |v| = M * 2^-k, M < 2^53
    if (M == 0) { r.q = r.qlo = 0; }
    else if (k <= 0) { r.q = r.qlo = (static_cast<u128>(M) << -k) * pow10u(p); }      // integer value (ex <= 50 by the 1e15 guard)
    else if (k > 120) { r.q = r.qlo = 0; r.exact = false; }                                  // M*10^p < 2^110 < 2^(k-1): rounds to zero
    else {
        u128 P = static_cast<u128>(M) * pow10u(p);                  // < 2^53 * 2^57
        u128 half = static_cast<u128>(1) << (k - 1), rem = P & ((half << 1) - 1);
        r.q = r.qlo = P >> k; r.exact = rem == 0;
        if (rem > half) ++r.q;
        else if (rem == half) { r.tie = true; if (r.q & 1) ++r.q; }
    }
    std::string d = dec(r.q);
    if (static_cast<int>(d.size()) < p + 1) d.insert(0, p + 1 - d.size(), '0');
    std::string ip = d.substr(0, d.size() - p), fp = d.substr(d.size() - p);
    r.text = (r.neg ? "-" : "") + ip + (p > 0 ? "." + fp : "");
    r.K = static_cast<int>(ip.size()) + (r.neg ? 1 : 0);
    r.L = static_cast<int>(r.text.size());
    r.ok = true;
    return r;
}
// does the number token t denote v rounded to p decimals? "" = yes, else what is wrong
static std::string check_num(const std::string& t, double v, int p) {
    RefNum r = ref_number(v, p);
    if (!r.ok) return "";   // outside the reference's domain (never enumerated)
    size_t i = 0; bool neg = false;
    if (i < t.size() && t[i] == '-') { neg = true; ++i; }
    size_t is = i; while (i < t.size() && isdigit(static_cast<unsigned char>(t[i]))) ++i;
    size_t ni = i - is, nf = 0;
    std::string digs = t.substr(is, ni);
    if (i < t.size() && t[i] == '.') { ++i; size_t fs = i; while (i < t.size() && isdigit(static_cast<unsigned char>(t[i]))) ++i; nf = i - fs; digs += t.substr(fs, nf); if (nf == 0) return "not a plain decimal number"; }
    if (ni == 0 || i != t.size()) return "not a plain decimal number";
    if (static_cast<int>(nf) > p) return "more fraction digits than the precision";
    if (digs.size() + (p - nf) > 36) return "wrong value";
    u128 N = 0; for (char c : digs) N = N * 10 + static_cast<unsigned>(c - '0');
    N *= pow10u(p - static_cast<int>(nf));
    // "exact to the requested precision": less than one unit of the last requested decimal away from the exact value,
    // i.e. the exact value rounded down or up. (Not being the nearest of the two is only counted.)
    if (!(N == r.qlo || (!r.exact && N == r.qlo + 1))) return "wrong value";
    if (N != r.q && !r.tie) ++C["numbers_within_one_unit_but_not_nearest"];
    if (N != 0 && neg != r.neg) return "wrong sign";
    return "";
}

// ================================================================================================
// location alphabet and projection model
struct Sym { char c; int32_t x, y; };
static const Sym SYMS[] = {
    {'A', -1791234567, -850511287}, {'B', 1, 0}, {'C', 1005000000, 452500000}, {'D', 1800000000, 850511287},
    {'U', 2147483647, 2147483647},   // undefined
    {'I', 2000000000, 0},            // defined but invalid: lon 200
};
static const Sym& sym(char c) { for (const Sym& s : SYMS) if (s.c == c) return s; fprintf(stderr, "bad symbol %c\n", c); exit(2); }
static osmium::Location loc_of(char c) { const Sym& s = sym(c); return osmium::Location{s.x, s.y}; }
static bool bad_sym(char c) { return c == 'U' || c == 'I'; }

// expected coordinates. identity: fixed point / 10^7. Mercator: the library's free function
// lonlat_to_mercator (its numerical correctness is property C18, not C17; the factories reach the
// projection through a different entry point, the MercatorProjection functor).
static Pt project(int proj, int32_t x, int32_t y) {
    Pt p; p.x = static_cast<double>(x) / 10000000.0; p.y = static_cast<double>(y) / 10000000.0;
    if (proj == 1) { osmium::geom::Coordinates c = osmium::geom::lonlat_to_mercator(osmium::geom::Coordinates{p.x, p.y}); p.x = c.x; p.y = c.y; }
    return p;
}
static const char* proj_name(int proj) { return proj ? "mercator" : "identity"; }

// ================================================================================================
// format configurations
struct Fmt { const char* name; int family; bool ext; bool hex; int precision; };   // family 0 WKB, 1 WKT, 2 GeoJSON
static const Fmt FMTS[] = {
    {"wkb", 0, false, false, 0}, {"ewkb", 0, true, false, 0}, {"wkb-hex", 0, false, true, 0}, {"ewkb-hex", 0, true, true, 0},
    {"wkt", 1, false, false, 7}, {"wkt", 1, false, false, 3}, {"ewkt", 1, true, false, 7}, {"geojson", 2, false, false, 7}, {"geojson", 2, false, false, 3},
};
static const int NFMT = 9;

template <class Proj, class Fn>
static void with_factory(int fmt, Fn fn) {
    using namespace osmium::geom;
    switch (fmt) {
        case 0: { WKBFactory<Proj> f{wkb_type::wkb, out_type::binary}; fn(f); break; }
        case 1: { WKBFactory<Proj> f{wkb_type::ewkb, out_type::binary}; fn(f); break; }
        case 2: { WKBFactory<Proj> f{wkb_type::wkb, out_type::hex}; fn(f); break; }
        case 3: { WKBFactory<Proj> f{wkb_type::ewkb, out_type::hex}; fn(f); break; }
        case 4: { WKTFactory<Proj> f{7}; fn(f); break; }
        case 5: { WKTFactory<Proj> f{3}; fn(f); break; }
        case 6: { WKTFactory<Proj> f{7, wkt_type::ewkt}; fn(f); break; }
        case 7: { GeoJSONFactory<Proj> f{7}; fn(f); break; }
        case 8: { GeoJSONFactory<Proj> f{3}; fn(f); break; }
    }
}

static std::string show(const Fmt& f, const std::string& out) {
    if (f.family == 0 && !f.hex) return "0x" + benum::hex(out.substr(0, 400));
    return "'" + out.substr(0, 800) + "'";
}

static std::string decode(const Fmt& f, const std::string& out, Geom& g) {
    if (f.family == 0) {
        if (!f.hex) return decode_wkb(out, g);
        std::string bytes, e = decode_hex(out, bytes);
        return e.empty() ? decode_wkb(bytes, g) : e;
    }
    return f.family == 1 ? decode_wkt(out, g) : decode_geojson(out, g);
}

// compare decoded geometry with the reference. returns (class-key fragment, detail) or ("","")
static std::pair<std::string, std::string> compare(const Geom& want, const Geom& got, const Fmt& f, int proj) {
    typedef std::pair<std::string, std::string> R;
    if (got.kind != want.kind) return R("wrong-geometry-type", std::string("decoded a ") + kind_name(got.kind));
    long epsg = proj ? 3857 : 4326;
    bool want_srid = f.ext && f.family != 2;
    if (got.has_srid != want_srid) return R("srid-presence", got.has_srid ? "unexpected SRID" : "SRID missing");
    if (want_srid && got.srid != epsg) return R("srid-value", "SRID " + std::to_string(got.srid));
    if (got.polys.size() != want.polys.size()) return R("polygon-count", "decoded " + std::to_string(got.polys.size()) + " polygons, the object has " + std::to_string(want.polys.size()));
    for (size_t a = 0; a < want.polys.size(); ++a) {
        if (got.polys[a].size() != want.polys[a].size()) return R("ring-grouping", "polygon " + std::to_string(a) + ": decoded " + std::to_string(got.polys[a].size()) + " rings, the object has " + std::to_string(want.polys[a].size()));
        for (size_t b = 0; b < want.polys[a].size(); ++b) {
            const Ring& w = want.polys[a][b]; const Ring& g = got.polys[a][b];
            if (g.size() != w.size()) return R("point-count", "polygon " + std::to_string(a) + " ring " + std::to_string(b) + ": decoded " + std::to_string(g.size()) + " points, expected " + std::to_string(w.size()));
            for (size_t c = 0; c < w.size(); ++c) {
                std::string at = "polygon " + std::to_string(a) + " ring " + std::to_string(b) + " point " + std::to_string(c);
                if (f.family == 0) {
                    if (memcmp(&g[c].x, &w[c].x, 8) != 0 || memcmp(&g[c].y, &w[c].y, 8) != 0) {
                        char buf[200]; snprintf(buf, sizeof buf, "%s: decoded (%.17g %.17g), expected (%.17g %.17g)", at.c_str(), g[c].x, g[c].y, w[c].x, w[c].y);
                        return R("coordinate-sequence", buf);
                    }
                } else {
                    std::string ex = check_num(g[c].tx, w[c].x, f.precision), ey = check_num(g[c].ty, w[c].y, f.precision);
                    if (!ex.empty() || !ey.empty()) {
                        char buf[300]; snprintf(buf, sizeof buf, "%s: text (%s %s) does not denote (%.17g %.17g) at precision %d: %s", at.c_str(), g[c].tx.c_str(), g[c].ty.c_str(), w[c].x, w[c].y, f.precision, (ex.empty() ? ey : ex).c_str());
                        return R("coordinate-sequence", buf);
                    }
                }
            }
        }
    }
    return R("", "");
}

// ================================================================================================
// library invocation
struct Out { int status = 0; std::string s, what; bool operator==(const Out& o) const { return status == o.status && s == o.s; } };
static const char* STATUS[] = {"accepted", "geometry_error", "invalid_location", "other-exception"};
template <class F, class Call>
static Out invoke(F& f, Call& call) {
    Out o; ++C["library_calls"];
    try { o.s = call(f); }
    catch (const osmium::geometry_error& e) { o.status = 1; o.what = e.what(); }
    catch (const osmium::invalid_location& e) { o.status = 2; o.what = e.what(); }
    catch (const std::exception& e) { o.status = 3; o.what = e.what(); }
    return o;
}

struct RingSpec { bool outer; std::string seq; };
static void build_area(osmium::memory::Buffer& buf, const std::vector<RingSpec>& rings) {
    buf.clear();
    {
        osmium::builder::AreaBuilder ab{buf};
        ab.set_id(34);
        osmium::object_id_type id = 1;
        for (const RingSpec& r : rings) {
            if (r.outer) { osmium::builder::OuterRingBuilder rb{ab}; for (char c : r.seq) rb.add_node_ref(id++, loc_of(c)); }
            else { osmium::builder::InnerRingBuilder rb{ab}; for (char c : r.seq) rb.add_node_ref(id++, loc_of(c)); }
        }
    }
    buf.commit();
}
static void build_way(osmium::memory::Buffer& buf, const std::string& seq) {
    buf.clear();
    {
        osmium::builder::WayBuilder wb{buf};
        wb.set_id(17);
        osmium::builder::WayNodeListBuilder nb{wb};
        osmium::object_id_type id = 1;
        for (char c : seq) nb.add_node_ref(id++, loc_of(c));
    }
    buf.commit();
}

// fixed objects used to dirty a factory between two evaluations of the same case: a complete multipolygon (2 polygons,
// the first with 2 inner rings) and one that is aborted by an invalid location inside the inner ring of its second polygon.
// One-point rings keep them cheap; the factories do not look at ring sizes.
struct Poison {
    osmium::memory::Buffer a{4096}, b{4096};
    Poison() {
        build_area(a, {{true, "A"}, {false, "B"}, {false, "C"}, {true, "D"}});
        build_area(b, {{true, "A"}, {true, "D"}, {false, "BI"}});
    }
};
static Poison& poison() { static Poison p; return p; }

struct Expect { bool must_reject = false, open = false, unchecked = false, nontrivial = false; std::string cls; Geom g; };
struct CaseInfo { int kind; int proj; std::string cfg, rejcfg, spec, text; bool sample_ok = false; };   // cfg: key suffix for encoding mismatches; rejcfg: for acceptance mismatches

static void judge(const Out& o, int fmt, const Expect& ex, const CaseInfo& ci) {
    const Fmt& f = FMTS[fmt];
    ++C["evaluations"];
    if (ex.nontrivial) ++C["distinct_nontrivial"];
    std::string kn = kind_name(ci.kind);
    std::string where = ci.text + " " + proj_name(ci.proj) + " " + f.name + (f.family ? "(precision " + std::to_string(f.precision) + ")" : "");
    if (!ISOLATE) OUTCOMES.insert(kn + ":" + STATUS[o.status] + ":" + (ex.must_reject ? ex.cls : ex.open ? "degenerate-ring(open)" : "valid"));
    if (o.status == 3) { V.report(kn + "/unexpected-exception-type" + ci.rejcfg, where + " threw " + o.what, ci.spec); return; }
    if (ex.must_reject) {
        if (o.status == 0) V.report(kn + "/degenerate-input-accepted/" + ex.cls + ci.rejcfg, where + " returned " + show(f, o.s) + " instead of throwing geometry_error or invalid_location", ci.spec);
        else ++C[o.status == 1 ? "rejected_with_geometry_error" : "rejected_with_invalid_location"];
        return;
    }
    if (o.status != 0) {
        if (ex.open) { ++C["open_degenerate_ring_rejected"]; return; }
        V.report(kn + "/valid-geometry-rejected" + ci.cfg, where + " threw " + STATUS[o.status] + ": " + o.what, ci.spec);
        return;
    }
    if (ex.unchecked) { ++C["open_empty_ring_accepted_unchecked"]; return; }
    if (ex.open) ++C["open_short_ring_accepted_and_checked"];
    Geom got;
    std::string err = decode(f, o.s, got);
    if (!err.empty()) { V.report(std::string(f.name) + "/" + kn + "/undecodable" + ci.cfg, where + " -> " + show(f, o.s) + ": " + err, ci.spec); return; }
    std::pair<std::string, std::string> m = compare(ex.g, got, f, ci.proj);
    if (!m.first.empty()) { V.report(std::string(f.name) + "/" + kn + "/" + m.first + ci.cfg, where + " -> " + show(f, o.s) + ": " + m.second, ci.spec); return; }
    ++C["decoded_equal"];
    static const int rot[] = {4, 2, 7, 6, 1, 8};   // rotate through wkt, wkb-hex, geojson, ewkt, ewkb, geojson p3
    if (!ISOLATE && ci.sample_ok && fmt == rot[(SHARD / 5 + C[(std::string("samples_") + kn).c_str()]) % 6] && want_sample((std::string("samples_") + kn).c_str(), ci.kind == POINT ? 2 : 1)) benum::sample(where + " -> " + show(f, o.s));
}

// one case through all 9 format configurations; each on a fresh factory, then again on the same
// factory after a complete multipolygon and after an aborted one (stale state must not leak)
template <class Proj, class Call>
static void eval_case(Call call, const Expect& ex, const CaseInfo& ci) {
    for (int fmt = 0; fmt < NFMT; ++fmt) {
        with_factory<Proj>(fmt, [&](auto& f) {
            Out o1 = invoke(f, call);
            judge(o1, fmt, ex, ci);
            try { (void)f.create_multipolygon(poison().a.template get<osmium::Area>(0)); } catch (const std::exception&) {}
            Out o2 = invoke(f, call);
            try { (void)f.create_multipolygon(poison().b.template get<osmium::Area>(0)); } catch (const std::exception&) {}
            Out o3 = invoke(f, call);
            std::string kn = kind_name(ci.kind);
            if (!(o2 == o1)) V.report(std::string(FMTS[fmt].name) + "/" + kn + "/factory-reuse/differs-after-complete-multipolygon", ci.text + " " + proj_name(ci.proj) + ": fresh factory " + STATUS[o1.status] + " " + show(FMTS[fmt], o1.s) + ", reused factory " + STATUS[o2.status] + " " + show(FMTS[fmt], o2.s), ci.spec);
            if (!(o3 == o1)) V.report(std::string(FMTS[fmt].name) + "/" + kn + "/factory-reuse/differs-after-aborted-geometry", ci.text + " " + proj_name(ci.proj) + ": fresh factory " + STATUS[o1.status] + " " + show(FMTS[fmt], o1.s) + ", reused factory " + STATUS[o3.status] + " " + show(FMTS[fmt], o3.s), ci.spec);
        });
    }
}

// classify the position of the bad (undefined/invalid) locations in iteration order
static std::string bad_class(const std::string& s) {
    size_t first = s.find_first_of("UI");
    size_t lead = s.find_first_not_of('U'); if (lead == std::string::npos) lead = s.size();
    if (lead > 0 && s.find_first_of("UI", lead) == std::string::npos) return "leading-undefined";
    return std::string(s[first] == 'U' ? "undefined" : "invalid") + "@" + (first == 0 ? "first" : first + 1 == s.size() ? "last" : "middle");
}

// ================================================================================================
// part: lines
struct LineCase { std::string seq; int kind; bool via_way, unique, backward; int proj; };
static std::string line_spec(const LineCase& c) {
    return std::string("line:") + (c.kind == LINESTRING ? 'l' : 'p') + ":" + (c.via_way ? 'w' : 'n') + ":" + (c.unique ? 'u' : 'a') + ":" + (c.backward ? 'b' : 'f') + ":" + (c.proj ? 'm' : 'i') + ":" + (c.seq.empty() ? "-" : c.seq);
}
static void run_line(const LineCase& c) {
    static osmium::memory::Buffer buf{1 << 14};
    build_way(buf, c.seq);
    const osmium::Way& way = buf.get<osmium::Way>(0);
    // reference model: iteration order, reject on any bad location, drop consecutive duplicates if requested
    Expect ex;
    std::string s = c.seq; if (c.backward) std::reverse(s.begin(), s.end());
    ex.nontrivial = s.size() >= 2;
    std::string pts;
    for (char ch : s) { if (c.unique && !pts.empty() && pts.back() == ch) continue; pts += ch; }
    if (s.find_first_of("UI") != std::string::npos) { ex.must_reject = true; ex.cls = bad_class(s); }
    else if (pts.size() < (c.kind == LINESTRING ? 2u : 4u)) { ex.must_reject = true; ex.cls = "too-few-points"; }
    else { ex.g.kind = c.kind; Ring r; for (char ch : pts) r.push_back(project(c.proj, sym(ch).x, sym(ch).y)); ex.g.polys = {Poly{r}}; }
    CaseInfo ci; ci.kind = c.kind; ci.proj = c.proj;
    ci.cfg = std::string("/") + (c.unique ? "unique" : "all") + "," + (c.backward ? "backward" : "forward");
    ci.rejcfg = std::string("/") + (c.unique ? "unique" : "all");
    ci.spec = line_spec(c);
    ci.text = std::string(kind_name(c.kind)) + " of " + (c.via_way ? "Way" : "WayNodeList") + " [" + c.seq + "] " + (c.unique ? "unique" : "all") + " " + (c.backward ? "backward" : "forward");
    ci.sample_ok = pts.size() >= 3 && s.size() >= 4 && (pts.size() < s.size() || !c.unique);
    const auto un = c.unique ? osmium::geom::use_nodes::unique : osmium::geom::use_nodes::all;
    const auto dir = c.backward ? osmium::geom::direction::backward : osmium::geom::direction::forward;
    auto call = [&](auto& f) -> std::string {
        if (c.kind == LINESTRING) return c.via_way ? f.create_linestring(way, un, dir) : f.create_linestring(way.nodes(), un, dir);
        return c.via_way ? f.create_polygon(way, un, dir) : f.create_polygon(way.nodes(), un, dir);
    };
    if (c.proj) eval_case<osmium::geom::MercatorProjection>(call, ex, ci); else eval_case<osmium::geom::IdentityProjection>(call, ex, ci);
}

template <class Body, class SpecOf>
static bool sweep(const Args& a, uint64_t total, const char* part, Body body, SpecOf spec_of) {
    if (ISOLATE) {
        return benum::run_isolated(a, 0, total, body, [&](uint64_t r, const std::string& what, const std::string& err) {
            ++C["child_deaths"];
            V.report(std::string("crash/") + benum::death_class(what, err) + "/" + part, "child died (" + what + ") on case " + spec_of(r) + ": " + benum::clean(err.substr(0, 300)), spec_of(r));
        });
    }
    uint64_t n = 0;
    for (uint64_t r = a.shard; r < total; r += a.nshards) { if ((++n & 0x1ff) == 0 && a.expired()) return false; body(r); }
    return true;
}

static LineCase line_of_rank(uint64_t r, int len, const std::string& alpha) {
    LineCase c;
    c.proj = r & 1; c.backward = (r >> 1) & 1; c.unique = (r >> 2) & 1; c.via_way = (r >> 3) & 1; c.kind = ((r >> 4) & 1) ? POLYGON : LINESTRING;
    r >>= 5;
    for (int i = 0; i < len; ++i) { c.seq += alpha[r % alpha.size()]; r /= alpha.size(); }
    return c;
}
static void part_lines(const Args& a, int maxlen, int extra, const std::string& alpha) {
    bool complete = true;
    for (int len = 0; len <= maxlen && complete; ++len) {
        uint64_t total = benum::ipow(alpha.size(), len) * 32;
        complete = sweep(a, total, "lines", [&](uint64_t r) { run_line(line_of_rank(r, len, alpha)); }, [&](uint64_t r) { return line_spec(line_of_rank(r, len, alpha)); });
        benum::bound("lines: every node list of length " + std::to_string(len) + " over {" + alpha + "} x {linestring,polygon} x {Way,WayNodeList} x {unique,all} x {forward,backward} x 2 projections x 9 formats" + (ISOLATE ? " [ASan]" : ""), complete);
    }
    // longer lists over the valid locations only (duplicate runs of every length at every position)
    const std::string valid = "ABC";
    for (int len = maxlen + 1; len <= maxlen + extra && complete; ++len) {
        uint64_t total = benum::ipow(valid.size(), len) * 32;
        complete = sweep(a, total, "lines", [&](uint64_t r) { run_line(line_of_rank(r, len, valid)); }, [&](uint64_t r) { return line_spec(line_of_rank(r, len, valid)); });
        benum::bound("lines: every node list of length " + std::to_string(len) + " over {" + valid + "} x {linestring,polygon} x {Way,WayNodeList} x {unique,all} x {forward,backward} x 2 projections x 9 formats" + (ISOLATE ? " [ASan]" : ""), complete);
    }
}

// ================================================================================================
// part: areas. ring alphabet: letter -> node list
static std::string ring_seq(char c) {
    switch (c) {
        case 'a': return "ABCA";        // plain
        case 'b': return "CCDBBBCC";    // duplicate runs at the start, in the middle and at the end -> C D B C
        case 'c': return "BDACB";
        case 'd': return "DABD";
        case 'u': return "UABCA";       // undefined location first
        case 'v': return "ABUCA";       // undefined in the middle
        case 'w': return "ABCAU";       // undefined last
        case 'i': return "AICA";        // invalid location
        case 'j': return "IABA";        // invalid location first
        case 's': return "ABA";         // fewer than four points (left open by the property for area rings)
        case 't': return "AAAA";        // one distinct point
        case 'e': return "";            // no points at all
    }
    fprintf(stderr, "bad ring %c\n", c); exit(2);
}
// area description: polygons separated by '/', each the outer ring letter followed by its inner ring letters; "-" = no rings
static std::string area_spec(const std::string& desc, int proj) { return std::string("area:") + (proj ? 'm' : 'i') + ":" + (desc.empty() ? "-" : desc); }
static void run_area(const std::string& desc, int proj) {
    static osmium::memory::Buffer buf{1 << 16};
    std::vector<RingSpec> rings;
    Expect ex; ex.g.kind = MULTIPOLYGON;
    bool bad = false, small = false, empty = false; std::string cls;
    size_t npoly = 0, ninner = 0;
    bool outer = true;
    for (char ch : desc) {
        if (ch == '/') { outer = true; continue; }
        std::string seq = ring_seq(ch);
        rings.push_back(RingSpec{outer, seq});
        if (outer) { ex.g.polys.push_back(Poly()); ++npoly; } else ++ninner;
        outer = false;
        if (seq.find_first_of("UI") != std::string::npos && !bad) { bad = true; cls = bad_class(seq); }
        std::string pts; for (char p : seq) { if (!pts.empty() && pts.back() == p) continue; pts += p; }   // areas always drop consecutive duplicates
        if (pts.size() < 4) small = true;
        if (pts.empty()) empty = true;
        Ring r; for (char p : pts) if (!bad_sym(p)) r.push_back(project(proj, sym(p).x, sym(p).y));
        ex.g.polys.back().push_back(r);
    }
    ex.nontrivial = !rings.empty();
    if (rings.empty()) { ex.must_reject = true; ex.cls = "area-without-rings"; }
    else if (bad) { ex.must_reject = true; ex.cls = cls; }
    else if (small) { ex.open = true; ex.unchecked = empty; }   // the statement names too-few-points for node lists; for rings of an area it is left open
    build_area(buf, rings);
    const osmium::Area& area = buf.get<osmium::Area>(0);
    CaseInfo ci; ci.kind = MULTIPOLYGON; ci.proj = proj;
    ci.cfg = "/polygons=" + std::string(npoly >= 2 ? ">=2" : "1") + ",inner-rings=" + (ninner ? ">=1" : "0");
    ci.rejcfg = "";
    ci.spec = area_spec(desc, proj);
    ci.text = "multipolygon of area [" + desc + "]";
    ci.sample_ok = npoly >= 2 && ninner >= 1;
    auto call = [&](auto& f) -> std::string { return f.create_multipolygon(area); };
    if (proj) eval_case<osmium::geom::MercatorProjection>(call, ex, ci); else eval_case<osmium::geom::IdentityProjection>(call, ex, ci);
}
// polygon index -> "outer + inners" over alphabet al with 0..m inner rings; count = r * (1 + r + .. + r^m)
static uint64_t poly_count(size_t r, int m) { uint64_t t = 0; for (int n = 0; n <= m; ++n) t += benum::ipow(r, n); return t * r; }
static std::string poly_of(uint64_t idx, const std::string& al, int m) {
    std::string s(1, al[idx % al.size()]); idx /= al.size();
    for (int n = 0; n <= m; ++n) {
        uint64_t cnt = benum::ipow(al.size(), n);
        if (idx < cnt) { for (int i = 0; i < n; ++i) { s += al[idx % al.size()]; idx /= al.size(); } return s; }
        idx -= cnt;
    }
    return s;
}
static std::string area_of_rank(uint64_t r, int npoly, const std::string& al, int m, int& proj) {
    proj = r & 1; r >>= 1;
    uint64_t pc = poly_count(al.size(), m);
    std::string d;
    for (int i = 0; i < npoly; ++i) { if (i) d += '/'; d += poly_of(r % pc, al, m); r /= pc; }
    return d;
}
static void part_areas(const Args& a, int level) {
    // (polygons, max inner rings per polygon, ring alphabet), smallest first
    struct B { int npoly, m; std::string al; };
    std::vector<B> bs;
    if (level == 0) bs = {{0, 0, "a"}, {1, 1, "abuis"}};                                                  // ASan build: small
    else if (level == 1) bs = {{0, 0, "a"}, {1, 2, "abcduvwijste"}, {2, 2, "abuvis"}};                      // quick
    else bs = {{0, 0, "a"}, {1, 3, "abcduvwijste"}, {3, 1, "abcuvise"}, {3, 2, "abue"}, {2, 2, "abcduvise"}};       // thorough
    bool complete = true;
    for (const B& b : bs) {
        if (!complete) break;
        uint64_t total = 2 * benum::ipow(poly_count(b.al.size(), b.m), b.npoly);
        auto desc = [&](uint64_t r, int& proj) { return area_of_rank(r, b.npoly, b.al, b.m, proj); };
        complete = sweep(a, total, "areas", [&](uint64_t r) { int proj; std::string d = desc(r, proj); run_area(d, proj); }, [&](uint64_t r) { int proj; std::string d = desc(r, proj); return area_spec(d, proj); });
        benum::bound("areas: every area with " + std::to_string(b.npoly) + " outer rings x 0.." + std::to_string(b.m) + " inner rings each over ring alphabet {" + b.al + "} x 2 projections x 9 formats" + (ISOLATE ? " [ASan]" : ""), complete);
    }
}

// ================================================================================================
// part: points
static std::string point_spec(char c, int proj, int route) { return std::string("point:") + c + ":" + (proj ? 'm' : 'i') + ":" + std::to_string(route); }
static void run_point(char c, int proj, int route) {
    static osmium::memory::Buffer buf{1 << 12};
    buf.clear();
    { osmium::builder::NodeBuilder nb{buf}; nb.set_id(5); nb.set_location(loc_of(c)); }
    buf.commit();
    const osmium::Node& node = buf.get<osmium::Node>(0);
    const osmium::NodeRef nr{7, loc_of(c)};
    Expect ex; ex.nontrivial = true;
    if (bad_sym(c)) { ex.must_reject = true; ex.cls = c == 'U' ? "undefined" : "invalid"; }
    else { ex.g.kind = POINT; ex.g.polys = {Poly{Ring{project(proj, sym(c).x, sym(c).y)}}}; }
    CaseInfo ci; ci.kind = POINT; ci.proj = proj; ci.cfg = ""; ci.rejcfg = ""; ci.spec = point_spec(c, proj, route);
    ci.text = std::string("point of ") + (route == 0 ? "Location " : route == 1 ? "Node " : "NodeRef ") + c;
    ci.sample_ok = proj == 1;
    auto call = [&](auto& f) -> std::string { return route == 0 ? f.create_point(loc_of(c)) : route == 1 ? f.create_point(node) : f.create_point(nr); };
    if (proj) eval_case<osmium::geom::MercatorProjection>(call, ex, ci); else eval_case<osmium::geom::IdentityProjection>(call, ex, ci);
}
static void point_of_rank(uint64_t r, char& c, int& proj, int& route) { proj = r & 1; r >>= 1; route = r % 3; r /= 3; c = SYMS[r % 6].c; }
static void part_points(const Args& a) {
    bool complete = sweep(a, 6 * 3 * 2, "points", [&](uint64_t r) { char c; int p, ro; point_of_rank(r, c, p, ro); run_point(c, p, ro); }, [&](uint64_t r) { char c; int p, ro; point_of_rank(r, c, p, ro); return point_spec(c, p, ro); });
    benum::bound(std::string("points: 6 location symbols x {Location,Node,NodeRef} x 2 projections x 9 formats") + (ISOLATE ? " [ASan]" : ""), complete);
}

// ================================================================================================
// part: numbers (meant for the ASan build). route 0: Coordinates{v,1}.append_to_string, 1: Coordinates{1,v},
// 2: WKTFactory<>{p}.create_point(Location{x,y}), 3: GeoJSONFactory<MercatorProjection>{p}.create_point(Location{x,y})
struct NumCase { int route; double v; int32_t x, y; };
static std::string num_spec(const NumCase& n, int p) {
    uint64_t bits; memcpy(&bits, &n.v, 8);
    char b[120]; snprintf(b, sizeof b, "num:%d:%016llx:%d:%d:%d", n.route, static_cast<unsigned long long>(bits), n.x, n.y, p);
    return b;
}
static std::vector<NumCase> num_cases(bool thorough) {
    std::vector<NumCase> cs;
    std::vector<double> vals = {0.0, 1e-9, 1e-8, 4.9999999e-8, 5e-8, 1e-7, 1e-6, 1e-5, 1e-4, 1e-3, 1e-2, 0.05, 0.0625, 0.1, 0.125, 0.15, 0.25, 0.375, 0.5,
        0.999999999, 1.0, 1.5, 2.5, 3.2, 9.9999999, 9.99999999999, 10.0, 85.0511287, 89.9999999, 90.0, 99.99999995, 100.0, 179.1234567, 179.9999999, 179.99999995, 180.0,
        999.9999999999999, 1000.0, 1e4, 65536.0, 1e5, 1e6, 999999.9999999999, 1e7, 19939841.0712345, 20037508.34, 20037508.3427892, 20037508.342789244, 20037509.999999999};
    if (thorough) for (int k = -9; k <= 7; ++k) for (double m : {1.1, 2.0, 3.3333333333333335, 4.5, 5.0, 7.25, 9.5, 9.999999999999998}) vals.push_back(m * std::pow(10.0, k));
    for (double v : vals) for (int s = 0; s < 2; ++s) for (int route = 0; route < 2; ++route) cs.push_back(NumCase{route, s ? -v : v, 0, 0});
    std::vector<std::pair<int32_t, int32_t> > locs = {{0, 0}, {1, 1}, {-1, -1}, {5, -5}, {10, 100}, {1234567, 7654321}, {-99999999, -9999999}, {1000000000, 500000000},
        {-1791234567, -850511287}, {1799999999, 850511287}, {1800000000, 900000000}, {-1800000000, -900000000}, {1799999999, 899999999}};
    if (thorough) for (long long c : {0LL, 10000000LL, 100000000LL, 1000000000LL, 1800000000LL, 900000000LL, 850511287LL}) for (int s = -1; s <= 1; s += 2) for (long long d = -3; d <= 3; ++d) {
        long long x = s * c + d; if (x < -1800000000LL || x > 1800000000LL) continue;
        long long y = std::max(-900000000LL, std::min(900000000LL, x / 2 + 7)); locs.push_back(std::make_pair(static_cast<int32_t>(x), static_cast<int32_t>(y)));
    }
    for (auto& l : locs) { cs.push_back(NumCase{2, 0, l.first, l.second}); if (std::abs(l.second) <= 850511287) cs.push_back(NumCase{3, 0, l.first, l.second}); }
    return cs;
}
struct NumRef { double x, y; RefNum rx, ry; int L, K; bool p0_ends0; };
static NumRef num_ref(const NumCase& n, int p) {
    NumRef r;
    if (n.route == 0) { r.x = n.v; r.y = 1.0; } else if (n.route == 1) { r.x = 1.0; r.y = n.v; }
    else { Pt q = project(n.route == 3 ? 1 : 0, n.x, n.y); r.x = q.x; r.y = q.y; }
    r.rx = ref_number(r.x, p); r.ry = ref_number(r.y, p);
    r.L = std::max(r.rx.L, r.ry.L); r.K = r.rx.L >= r.ry.L ? r.rx.K : r.ry.K;
    r.p0_ends0 = p == 0 && (r.rx.q % 10 == 0 || r.ry.q % 10 == 0);
    return r;
}
static std::string num_class(const NumRef& r, int p) { return p == 0 ? (r.p0_ends0 ? "precision=0,integer-ends-in-0" : "precision=0") : "precision=" + std::to_string(p); }
static std::string num_text(const NumCase& n, const NumRef& r, int p) {
    char b[300];
    if (n.route < 2) snprintf(b, sizeof b, "Coordinates{%.17g, %.17g}.append_to_string(precision %d)", r.x, r.y, p);
    else snprintf(b, sizeof b, "%s.create_point(Location{%d, %d}) = (%.17g %.17g) at precision %d", n.route == 2 ? "WKTFactory<>" : "GeoJSONFactory<MercatorProjection>", n.x, n.y, r.x, r.y, p);
    return b;
}
// A failing number case (wrong text or dead child) is handed to check.py (SET num_bad), which merges the failures into
// two classes when they form them: precision 0 with an integer ending in 0, and a threshold on the untrimmed text length.
// With NUM_FINE_KEYS (replay of a single case) the per-case key is printed instead.
static bool NUM_FINE_KEYS = false;
static void num_fail(const NumCase& n, int p, const NumRef& r, const std::string& cls, const std::string& detail) {
    if (NUM_FINE_KEYS && r.p0_ends0) V.report("number/" + cls + "/precision=0,integer-ends-in-0", detail, num_spec(n, p));
    else if (NUM_FINE_KEYS) V.report("number/" + cls + "/" + (cls == "wrong-text" ? "precision=" + std::to_string(p) : "int-chars=" + std::to_string(r.K) + ",precision=" + std::to_string(p)), detail, num_spec(n, p));
    else benum::setv("num_bad", std::to_string(r.L) + "|" + std::to_string(r.K) + "|" + std::to_string(p) + "|" + (r.p0_ends0 ? "1" : "0") + "|" + num_spec(n, p) + "|" + cls);
}
// returns true when the text was exact
static bool run_num(const NumCase& n, int p) {
    NumRef r = num_ref(n, p);
    ++C["evaluations"];
    if (r.x != 0 || r.y != 0) ++C["distinct_nontrivial"];
    std::string out; Geom g; std::string err;
    if (n.route < 2) {
        osmium::geom::Coordinates{r.x, r.y}.append_to_string(out, '(', ' ', ')', p);
        Tx t(out); Ring ring; wkt_ptlist(t, ring);
        if (t.err.empty() && (t.i != out.size() || ring.size() != 1)) t.err = "not of the form (x y)";
        err = t.err; if (err.empty()) g.polys = {Poly{ring}};
    } else if (n.route == 2) { out = osmium::geom::WKTFactory<>{p}.create_point(osmium::Location{n.x, n.y}); err = decode_wkt(out, g); }
    else { out = osmium::geom::GeoJSONFactory<osmium::geom::MercatorProjection>{p}.create_point(osmium::Location{n.x, n.y}); err = decode_geojson(out, g); }
    std::string what = err;
    if (what.empty()) { const Pt& q = g.polys[0][0][0]; what = check_num(q.tx, r.x, p); if (what.empty()) what = check_num(q.ty, r.y, p); }
    if (!what.empty()) { ++C["numbers_wrong"]; num_fail(n, p, r, "wrong-text", num_text(n, r, p) + " -> '" + out + "' (exact: " + r.rx.text + " " + r.ry.text + "): " + what); return false; }
    ++C["numbers_exact"];
    static bool seen[64]; if (r.L < 64 && !seen[r.L] && !r.p0_ends0) { seen[r.L] = true; benum::setv("num_ok_L", std::to_string(r.L)); }
    if (r.p0_ends0) benum::setv("num_ok_p0_ends0", num_spec(n, p));
    if (p >= 5 && r.L >= 15 && (n.route >= 2 || r.K >= 8) && want_sample("samples_number", 1)) benum::sample(num_text(n, r, p) + " -> " + out);
    return true;
}
static std::string num_death(const NumCase& n, int p, const std::string& what, const std::string& err) {
    NumRef r = num_ref(n, p);
    std::string cls = benum::death_class(what, err);
    ++C["child_deaths"];
    num_fail(n, p, r, cls, num_text(n, r, p) + " (exact text " + r.rx.text + " " + r.ry.text + ", " + std::to_string(r.L) + " characters): child died, " + what + ": " + benum::clean(err.substr(0, 240)));
    return cls;
}
static void part_numbers(const Args& a) {
    std::vector<NumCase> cs = num_cases(a.thorough);
    bool complete = benum::run_isolated(a, 0, cs.size() * 18, [&](uint64_t r) { run_num(cs[r / 18], static_cast<int>(r % 18)); },
        [&](uint64_t r, const std::string& what, const std::string& err) { num_death(cs[r / 18], static_cast<int>(r % 18), what, err); });
    benum::bound("numbers: " + std::to_string(cs.size()) + " coordinate cases (every decimal magnitude 1e-9..2.0037508e7, both signs, rounding carries, exact ties, range limits; raw Coordinates, WKT identity point, GeoJSON Mercator point) x precision 0..17 [ASan, fork-isolated]", complete);
}
// replay of a merged key. L >= 0: "number/<what>/untrimmed-length>=L": every case whose untrimmed "%.*f" text has exactly L
// characters must fail (wrong text or dead child), no case with L-1 characters may fail (a few L+1 cases are run for the
// death class). L < 0: "number/<what>/precision=0,integer-ends-in-0": every precision-0 case whose rounded integer ends in 0
// must fail, no other precision-0 case may. <what> is the one death class seen, or "wrong-text" if no child dies.
static void replay_numgroup(const Args& a, int L) {
    std::vector<NumCase> cs = num_cases(a.thorough);
    struct Sel { size_t i; int p; int where; };   // where: 0 must fail, -1 must not fail, 1 only for the death class
    std::vector<Sel> sel; int n_above = 0;
    for (size_t i = 0; i < cs.size(); ++i) for (int p = 0; p < 18; ++p) {
        NumRef r = num_ref(cs[i], p);
        if (L < 0) { if (p == 0) sel.push_back(Sel{i, p, r.p0_ends0 ? 0 : -1}); continue; }
        if (r.p0_ends0) continue;
        if (r.L == L || r.L == L - 1) sel.push_back(Sel{i, p, r.L == L ? 0 : -1});
        else if (r.L == L + 1 && n_above++ < 6) sel.push_back(Sel{i, p, 1});
    }
    benum::Counters R;   // shared with the children
    std::set<std::string> classes; std::string first;
    static const char* const names[3][2] = {{"below", "below_failed"}, {"at", "at_failed"}, {"above", "above_failed"}};
    benum::run_isolated(a, 0, sel.size(), [&](uint64_t r) {
            ++R[names[sel[r].where + 1][0]];
            if (!run_num(cs[sel[r].i], sel[r].p)) ++R[names[sel[r].where + 1][1]];
        }, [&](uint64_t r, const std::string& what, const std::string& err) {
            ++R[names[sel[r].where + 1][1]];
            classes.insert(benum::death_class(what, err));
            if (first.empty()) first = num_text(cs[sel[r].i], num_ref(cs[sel[r].i], sel[r].p), sel[r].p) + ": " + what;
        });
    if (R["at"] > 0 && R["at_failed"] == R["at"] && R["below_failed"] == 0 && classes.size() <= 1)
        V.report("number/" + (classes.empty() ? std::string("wrong-text") : *classes.begin()) + "/" + (L < 0 ? std::string("precision=0,integer-ends-in-0") : "untrimmed-length>=" + std::to_string(L)),
                 "all " + std::to_string(R["at"]) + " cases of the class failed, none of the " + std::to_string(R["below"]) + " neighbouring cases outside it; first dead child: " + first, L < 0 ? std::string("nump0") : "numthr:" + std::to_string(L));
}

// ================================================================================================
static std::vector<std::string> split(const std::string& s, char d) { std::vector<std::string> v; size_t st = 0; for (;;) { size_t e = s.find(d, st); v.push_back(s.substr(st, e == std::string::npos ? e : e - st)); if (e == std::string::npos) break; st = e + 1; } return v; }

static void replay(const Args& a, const std::string& spec) {
    std::vector<std::string> f = split(spec, ':');
    auto one = [&](std::function<void()> body, const char* part) {
        Args b = a; b.shard = 0; b.nshards = 1;
        sweep(b, 1, part, [&](uint64_t) { body(); }, [&](uint64_t) { return spec; });
    };
    if (f[0] == "line" && f.size() == 7) {
        LineCase c; c.kind = f[1] == "l" ? LINESTRING : POLYGON; c.via_way = f[2] == "w"; c.unique = f[3] == "u"; c.backward = f[4] == "b"; c.proj = f[5] == "m"; c.seq = f[6] == "-" ? "" : f[6];
        one([&] { run_line(c); }, "lines");
    } else if (f[0] == "area" && f.size() == 3) {
        one([&] { run_area(f[2] == "-" ? "" : f[2], f[1] == "m"); }, "areas");
    } else if (f[0] == "point" && f.size() == 4) {
        one([&] { run_point(f[1][0], f[2] == "m", atoi(f[3].c_str())); }, "points");
    } else if (f[0] == "num" && f.size() == 6) {
        NumCase n; n.route = atoi(f[1].c_str()); uint64_t bits = strtoull(f[2].c_str(), nullptr, 16); memcpy(&n.v, &bits, 8); n.x = atoi(f[3].c_str()); n.y = atoi(f[4].c_str());
        int p = atoi(f[5].c_str());
        Args b = a; b.shard = 0; b.nshards = 1;
        NUM_FINE_KEYS = true;
        benum::run_isolated(b, 0, 1, [&](uint64_t) { run_num(n, p); }, [&](uint64_t, const std::string& what, const std::string& err) { num_death(n, p, what, err); });
    } else if (f[0] == "numthr" && f.size() == 2) {
        Args b = a; b.shard = 0; b.nshards = 1;
        replay_numgroup(b, atoi(f[1].c_str()));
    } else if (f[0] == "nump0") {
        Args b = a; b.shard = 0; b.nshards = 1;
        replay_numgroup(b, -1);
    } else { fprintf(stderr, "bad replay spec\n"); exit(2); }
}

int main(int argc, char** argv) {
    Args a = benum::parse_args(argc, argv);
    (void)poison();
    if (a.replay) { replay(a, a.replay_spec); return 0; }
    std::string part; int maxlen = -1, level = -1; std::string alpha;
    for (size_t i = 0; i + 1 < a.rest.size(); i += 2) {
        if (a.rest[i] == "--part") part = a.rest[i + 1];
        else if (a.rest[i] == "--maxlen") maxlen = atoi(a.rest[i + 1].c_str());
        else if (a.rest[i] == "--alphabet") alpha = a.rest[i + 1];
        else if (a.rest[i] == "--level") level = atoi(a.rest[i + 1].c_str());
    }
    SAMPLING = a.nshards == 1 || a.shard % 5 == a.seed % 5; SHARD = a.shard;
    if (part == "points") part_points(a);
    else if (part == "lines") part_lines(a, maxlen >= 0 ? maxlen : (a.thorough ? 7 : 5), maxlen >= 0 ? 0 : (a.thorough ? 3 : 2), !alpha.empty() ? alpha : "ABCUI");
    else if (part == "areas") part_areas(a, level >= 0 ? level : (a.thorough ? 2 : 1));
    else if (part == "numbers") part_numbers(a);
    else { fprintf(stderr, "unknown part\n"); return 2; }
    for (const std::string& o : OUTCOMES) benum::setv("outcomes", o);
    C.emit();
    return 0;
}
