// C20, part 2: DiffIterator / apply_diff present every object version exactly once with the right
// previous / next version and first() / last() flags.
//
// Enumerated space: every version-sorted history made of <= K objects, each object one of
// {node, way, relation, area} x id {1, 2} (so neighbouring objects share the type, the id, or
// neither), each with 1..V versions; objects in (type, id) order, versions ascending.
//   x ways to walk it   DiffIterator over Buffer iterators (non-const, pre-increment, operator*;
//                       const, post-increment, operator->), apply_diff(it, end), apply_diff(buffer)
//                       (only if that overload compiles, -DC20_HAVE_APPLY_DIFF_BUFFER),
//                       apply_diff(source) with a Reader-like source, apply_diff(Reader)
//   x buffer splits     for the source: every subset of the N-1 cut points between the N object
//                       versions, with and without empty buffers in between - so the previous /
//                       next version lives in another buffer than the current one in every way
//   x noise             a changeset after every object (the OSMObject iterator must skip it)
//   x handler lists     1..3 diff handlers of two kinds (all callbacks / node only)
//
// Oracle (written down from the property): position i of the N versions is presented exactly
// once, in order; prev is version i-1 if that has the same (type, id), else the object itself;
// next likewise with i+1; first() iff prev is the object itself, last() iff next is. Identity is
// checked by address (the model knows where every version was built), for the Reader by
// (type, id, version). Handlers are called in argument order for every position.
// Areas are valid for the DiffIterator but apply_diff only knows nodes, ways and relations: for a
// history with an area everything before the first area must be delivered correctly; after that
// either unknown_type is thrown (what the code does) or the areas are skipped - left open.
// Built with AddressSanitizer, every history runs in a forked child: a neighbour whose buffer was
// already released shows up as heap-use-after-free.
#include <benum/benum.hpp>

#include <osmium/builder/osm_object_builder.hpp>
#include <osmium/diff_handler.hpp>
#include <osmium/diff_iterator.hpp>
#include <osmium/diff_visitor.hpp>
#include <osmium/io/opl_input.hpp>
#include <osmium/io/reader.hpp>
#include <osmium/memory/buffer.hpp>
#include <osmium/osm.hpp>

#include <algorithm>
#include <string>
#include <tuple>
#include <utility>
#include <vector>

using osmium::memory::Buffer;


struct Obj { uint8_t type; int64_t id; uint32_t ver; };     // type: 1 node, 2 way, 3 relation, 4 area
static const char tchar[] = "?nwra";

static std::string hist_str(const std::vector<Obj>& o) {
    std::string s;
    for (size_t i = 0; i < o.size(); ++i) s += (i ? " " : "") + std::string(1, tchar[o[i].type]) + std::to_string(o[i].id) + "v" + std::to_string(o[i].ver);
    return s.empty() ? "(empty)" : s;
}

// ------------------------------------------------------------------------------------------------
// what a diff callback / iterator position showed
struct DEv {
    int h = 0; uint8_t cb = 0;                 // cb: 1 node, 2 way, 3 relation (0 for iterator positions)
    const void *curr = nullptr, *prev = nullptr, *next = nullptr;
    bool first = false, last = false;
    uint8_t type = 0; int64_t id = 0; uint32_t ver = 0, pver = 0, nver = 0;
    uint8_t ptype = 0, ntype = 0; int64_t pid = 0, nid = 0;
};
static std::vector<DEv> g_log;
static volatile size_t g_sink = 0;

static DEv observe(int h, uint8_t cb, const osmium::DiffObject& d) {
    DEv e; e.h = h; e.cb = cb;
    e.curr = &d.curr(); e.prev = &d.prev(); e.next = &d.next();
    e.first = d.first(); e.last = d.last();
    e.type = static_cast<uint8_t>(d.type()); e.id = d.id(); e.ver = d.version();
    // read the neighbours (this is where a released buffer would be touched)
    e.ptype = static_cast<uint8_t>(d.prev().type()); e.pid = d.prev().id(); e.pver = d.prev().version();
    e.ntype = static_cast<uint8_t>(d.next().type()); e.nid = d.next().id(); e.nver = d.next().version();
    g_sink += strlen(d.prev().user()) + strlen(d.curr().user()) + strlen(d.next().user());
    return e;
}

struct DH : osmium::diff_handler::DiffHandler {        // overrides everything
    int h; explicit DH(int h_) : h(h_) {}
    void node(const osmium::DiffNode& d) { g_log.push_back(observe(h, 1, d)); g_sink += d.curr().location().valid(); }
    void way(const osmium::DiffWay& d) { g_log.push_back(observe(h, 2, d)); g_sink += d.prev().nodes().size() + d.next().nodes().size(); }
    void relation(const osmium::DiffRelation& d) { g_log.push_back(observe(h, 3, d)); g_sink += d.prev().members().size() + d.next().members().size(); }
};
struct DHN : osmium::diff_handler::DiffHandler {       // node only, the rest inherited (no-ops)
    int h; explicit DHN(int h_) : h(h_) {}
    void node(const osmium::DiffNode& d) { g_log.push_back(observe(h, 1, d)); }
};
template <int K> struct HK;
template <> struct HK<0> { using type = DH; };
template <> struct HK<1> { using type = DHN; };
static const char* const hk_name[] = {"all-callbacks", "node-only"};

// ------------------------------------------------------------------------------------------------
// building
struct Built {
    std::vector<Buffer> bufs;
    std::vector<const void*> addr;   // of every object version (noise excluded)
    std::vector<int> bufidx;
};

static void add_obj(Buffer& b, const Obj& o) {
    using namespace osmium::builder;
    const std::string user = std::string("user-") + tchar[o.type] + std::to_string(o.id) + "v" + std::to_string(o.ver);
    switch (o.type) {
        case 1: { NodeBuilder x{b}; x.set_id(o.id).set_version(o.ver).set_timestamp(osmium::Timestamp{uint32_t(1000 + o.ver)}); x.set_location(osmium::Location{1.0, 2.0}); x.set_user(user); break; }
        case 2: { WayBuilder x{b}; x.set_id(o.id).set_version(o.ver).set_timestamp(osmium::Timestamp{uint32_t(1000 + o.ver)}); x.set_user(user);
                  { WayNodeListBuilder w{x}; for (uint32_t i = 0; i < o.ver; ++i) w.add_node_ref(i + 1); } break; }
        case 3: { RelationBuilder x{b}; x.set_id(o.id).set_version(o.ver).set_timestamp(osmium::Timestamp{uint32_t(1000 + o.ver)}); x.set_user(user);
                  { RelationMemberListBuilder m{x}; for (uint32_t i = 0; i < o.ver; ++i) m.add_member(osmium::item_type::node, i + 1, "r"); } break; }
        case 4: { AreaBuilder x{b}; x.set_id(o.id).set_version(o.ver).set_user(user); break; }
    }
    b.commit();
}
static void add_noise(Buffer& b, size_t i) {
    { osmium::builder::ChangesetBuilder c{b}; c.set_id(static_cast<osmium::changeset_id_type>(500 + i)); c.set_user("noise"); }
    b.commit();
}

// a new buffer starts before object i (i >= 1) iff bit i-1 of mask is set
static void build(const std::vector<Obj>& o, uint32_t mask, bool empties, bool noise, Built& out) {
    out.bufs.clear(); out.addr.clear(); out.bufidx.clear();
    std::vector<size_t> off;
    auto empty = [&]() { out.bufs.emplace_back(64, Buffer::auto_grow::no); };
    if (empties) empty();
    if (!o.empty() || !empties) out.bufs.emplace_back(8192, Buffer::auto_grow::yes);
    for (size_t i = 0; i < o.size(); ++i) {
        if (i > 0 && (mask >> (i - 1) & 1U)) {
            if (empties) empty();
            out.bufs.emplace_back(8192, Buffer::auto_grow::yes);
        }
        off.push_back(out.bufs.back().committed());
        out.bufidx.push_back(static_cast<int>(out.bufs.size() - 1));
        add_obj(out.bufs.back(), o[i]);
        if (noise) add_noise(out.bufs.back(), i);
    }
    if (empties && !o.empty()) empty();
    for (size_t i = 0; i < o.size(); ++i) out.addr.push_back(out.bufs[static_cast<size_t>(out.bufidx[i])].data() + off[i]);
}

struct FakeSource {
    std::vector<Buffer> bufs; size_t next = 0;
    Buffer read() { return next < bufs.size() ? std::move(bufs[next++]) : Buffer{}; }
};

static std::string opl_of(const std::vector<Obj>& o) {
    std::string s;
    for (const Obj& x : o) {
        const std::string head = std::string(1, tchar[x.type]) + std::to_string(x.id) + " v" + std::to_string(x.ver) + " dV c1 t2020-01-01T00:00:0" + std::to_string(x.ver) + "Z i1 uu T";
        if (x.type == 1) s += head + " x1 y2\n";
        else if (x.type == 2) s += head + " Nn1,n2\n";
        else s += head + " Mn1@r\n";
    }
    return s;
}

// ------------------------------------------------------------------------------------------------
// model + comparison
static benum::Counters* g_cnt;
static benum::Violations g_viol;
static std::string g_spec;
static int g_samples = 0;
static unsigned g_shard = 0;

static bool same_obj(const Obj& a, const Obj& b) { return a.type == b.type && a.id == b.id; }

struct Expect { size_t prev, next; bool first, last; };
static Expect expect_at(const std::vector<Obj>& o, size_t i) {
    Expect e;
    e.prev = (i > 0 && same_obj(o[i - 1], o[i])) ? i - 1 : i;
    e.next = (i + 1 < o.size() && same_obj(o[i + 1], o[i])) ? i + 1 : i;
    e.first = e.prev == i; e.last = e.next == i;
    return e;
}

static void report(const std::string& key, const std::string& detail) { g_viol.report(key, detail + " | history: " + g_spec.substr(2), g_spec); }

// Checks what was shown for position i. by_addr: compare identities by address, else by (type,id,version).
// Returns false (after reporting) on the first difference.
static bool check_pos(const std::string& entry, const std::vector<Obj>& o, size_t i, const DEv& e, const Built* b, const std::string& ctx) {
    const Expect x = expect_at(o, i);
    auto is = [&](const void* a, uint8_t t, int64_t id, uint32_t v, size_t j) {
        return b ? a == b->addr[j] : (t == o[j].type && id == o[j].id && v == o[j].ver);
    };
    auto other = [&](size_t j) { return (b && b->bufidx[j] != b->bufidx[i]) ? std::string(",neighbour-in-other-buffer") : std::string(); };
    const std::string at = " at position " + std::to_string(i) + " (" + tchar[o[i].type] + std::to_string(o[i].id) + "v" + std::to_string(o[i].ver) + ")" + ctx;
    if (!is(e.curr, e.type, e.id, e.ver, i) || e.type != o[i].type || e.id != o[i].id || e.ver != o[i].ver) {
        report("diff/" + entry + "/curr-wrong", "current object is " + std::string(1, tchar[e.type <= 4 ? e.type : 0]) + std::to_string(e.id) + "v" + std::to_string(e.ver) + at);
        return false;
    }
    if (!is(e.prev, e.ptype, e.pid, e.pver, x.prev)) {
        report("diff/" + entry + "/prev-wrong/expected=" + (x.first ? "self(first-version-of-object)" : "previous-version" + other(x.prev)),
               "prev() is " + std::string(1, tchar[e.ptype <= 4 ? e.ptype : 0]) + std::to_string(e.pid) + "v" + std::to_string(e.pver) + at);
        return false;
    }
    if (!is(e.next, e.ntype, e.nid, e.nver, x.next)) {
        report("diff/" + entry + "/next-wrong/expected=" + (x.last ? "self(last-version-of-object)" : "next-version" + other(x.next)),
               "next() is " + std::string(1, tchar[e.ntype <= 4 ? e.ntype : 0]) + std::to_string(e.nid) + "v" + std::to_string(e.nver) + at);
        return false;
    }
    if (e.first != x.first) { report("diff/" + entry + "/first-flag/expected=" + (x.first ? "true" : "false"), "first() wrong" + at); return false; }
    if (e.last != x.last) { report("diff/" + entry + "/last-flag/expected=" + (x.last ? "true" : "false"), "last() wrong" + at); return false; }
    return true;
}

static void count_case(bool nontrivial) {
    ++(*g_cnt)["evaluations"];
    if (nontrivial) ++(*g_cnt)["distinct_nontrivial"];
}

// --- DiffIterator directly over buffer iterators
template <typename TIt>
static void iter_case(const std::string& entry, const std::vector<Obj>& o, const Built& b, TIt begin, TIt end, bool post, bool nontrivial) {
    count_case(nontrivial);
    auto it = osmium::make_diff_iterator(begin, end);
    const auto dend = osmium::make_diff_iterator(end, end);
    size_t i = 0;
    for (; it != dend; ++i) {
        if (i >= o.size()) { report("diff/" + entry + "/too-many-positions", "iterator did not reach end after " + std::to_string(o.size()) + " positions"); return; }
        DEv e, e2;
        if (post) {
            const auto old = it++;           // post-increment must hand back the old position
            e = observe(0, 0, *old); e2 = observe(0, 0, *old.operator->());
        } else {
            e = observe(0, 0, *it); e2 = observe(0, 0, *it.operator->());
            ++it;
        }
        if (!check_pos(entry, o, i, e, &b, "")) return;
        if (e2.curr != e.curr || e2.prev != e.prev || e2.next != e.next) { report("diff/" + entry + "/deref-not-stable", "operator* and operator-> disagree at position " + std::to_string(i)); return; }
        (*g_cnt)["positions_checked"]++;
    }
    if (i != o.size()) report("diff/" + entry + "/too-few-positions", "iterator ended after " + std::to_string(i) + " of " + std::to_string(o.size()) + " positions");
}

// --- apply_diff: judge the log of n handlers with kinds hk[]
static void judge_apply(const std::string& entry, const std::vector<Obj>& o, const Built* b, const int* hk, int n, bool threw_unknown_type,
                        const std::string& other_exception, bool nontrivial, const std::string& ctx) {
    count_case(nontrivial);
    if (!other_exception.empty()) { report("diff/" + entry + "/exception", "unexpected exception: " + other_exception + ctx); return; }
    // Areas sort behind everything else, so what must be delivered is every non-area position; whether the
    // first area then raises unknown_type (what the code does) or is skipped is left open.
    size_t nobj = 0;
    while (nobj < o.size() && o[nobj].type != 4) ++nobj;
    if (nobj < o.size()) ++(*g_cnt)[threw_unknown_type ? "open_area_in_apply_diff_throws_unknown_type" : "open_area_in_apply_diff_skipped"];
    else if (threw_unknown_type) { report("diff/" + entry + "/exception", "unknown_type thrown without an area" + ctx); return; }
    auto index_of = [&](const DEv& e) -> long {
        for (size_t j = 0; j < o.size(); ++j)
            if (b ? e.curr == b->addr[j] : (e.type == o[j].type && e.id == o[j].id && e.ver == o[j].ver)) return static_cast<long>(j);
        return -1;
    };
    // 1. every handler is shown every version it is interested in exactly once, in order
    for (int h = 0; h < n; ++h) {
        std::vector<long> want, got;
        for (size_t i = 0; i < nobj; ++i) if (hk[h] == 0 || o[i].type == 1) want.push_back(static_cast<long>(i));
        for (const DEv& e : g_log) if (e.h == h) got.push_back(index_of(e));
        if (want == got) continue;
        const std::string who = "handler " + std::to_string(h) + ctx;
        for (long w : want) {
            if (std::count(got.begin(), got.end(), w) == 0) {
                const size_t i = static_cast<size_t>(w);
                const bool first_in_buffer = b && i > 0 && b->bufidx[i] != b->bufidx[i - 1];
                report("diff/" + entry + "/version-not-presented" + (first_in_buffer ? "/first-object-of-a-buffer" : ""), "position " + std::to_string(w) + " missing, " + who);
                return;
            }
        }
        for (long g : got) {
            if (g < 0) { report("diff/" + entry + "/unknown-object-presented", who); return; }
            if (std::count(got.begin(), got.end(), g) > 1) { report("diff/" + entry + "/version-presented-twice", "position " + std::to_string(g) + ", " + who); return; }
            if (std::count(want.begin(), want.end(), g) == 0) { report("diff/" + entry + "/version-presented-to-wrong-handler", "position " + std::to_string(g) + ", " + who); return; }
        }
        report("diff/" + entry + "/versions-not-in-order", who);
        return;
    }
    // 2. for every position the handlers in argument order; 3. the right callback with the right neighbours
    size_t p = 0;
    for (size_t i = 0; i < nobj; ++i) {
        for (int h = 0; h < n; ++h) {
            if (hk[h] == 1 && o[i].type != 1) continue;       // node-only handler
            const DEv& e = g_log[p++];
            if (e.h != h || index_of(e) != static_cast<long>(i)) {
                report("diff/" + entry + "/handlers-not-in-argument-order", "expected handler " + std::to_string(h) + " got " + std::to_string(e.h) + " at position " + std::to_string(i) + ctx);
                return;
            }
            if (e.cb != o[i].type) { report("diff/" + entry + "/wrong-callback/" + std::string(1, tchar[o[i].type]), "callback " + std::to_string(e.cb) + " at position " + std::to_string(i) + ctx); return; }
            if (!check_pos(entry, o, i, e, b, ctx)) return;
            (*g_cnt)["positions_checked"]++;
        }
    }
}

template <typename F>
static void run_apply(const std::string& entry, const std::vector<Obj>& o, const Built* b, const int* hk, int n, bool nontrivial, const std::string& ctx, F&& f) {
    g_log.clear();
    bool threw = false; std::string other;
    try { f(); }
    catch (const osmium::unknown_type&) { threw = true; }
    catch (const std::exception& e) { other = e.what(); }
    judge_apply(entry, o, b, hk, n, threw, other, nontrivial, ctx);
}

template <int... Ks> struct HL {};
constexpr int cpow(int b, size_t e) { return e == 0 ? 1 : b * cpow(b, e - 1); }
template <int I, class P> struct HLOf;
template <int I, size_t... P> struct HLOf<I, std::index_sequence<P...>> { using type = HL<((I / cpow(2, P)) % 2)...>; };

static std::string hl_str(const int* hk, int n) {
    std::string s = " | handlers=[";
    for (int i = 0; i < n; ++i) s += (i ? "," : "") + std::string(hk_name[hk[i]]);
    return s + "]";
}

struct Opt { bool thorough; };

// all apply_diff entry points for one handler list; all_splits: every split for the source (else only none / every cut)
template <class L, class P> struct ApplyAll;
template <int... Ks, size_t... P> struct ApplyAll<HL<Ks...>, std::index_sequence<P...>> {
    static void run(const std::vector<Obj>& o, bool all_splits, bool nontrivial) {
        std::tuple<typename HK<Ks>::type...> hs{typename HK<Ks>::type{static_cast<int>(P)}...};
        static const int hk[] = {Ks...};
        constexpr int n = sizeof...(Ks);
        const std::string hctx = hl_str(hk, n);
        bool has_area = false;
        for (const Obj& x : o) has_area = has_area || x.type == 4;
        for (int noise = 0; noise < 2; ++noise) {
            const std::string nctx = hctx + (noise ? " | a changeset after every object" : "");
            Built b;
            build(o, 0, false, noise != 0, b);
            Buffer& buf = b.bufs[0];
            const Buffer& cbuf = buf;
            run_apply("apply_diff(it,end)", o, &b, hk, n, nontrivial, nctx, [&]() {
                osmium::apply_diff(buf.begin<osmium::OSMObject>(), buf.end<osmium::OSMObject>(), std::get<P>(hs)...); });
            run_apply("apply_diff(cit,cend)", o, &b, hk, n, nontrivial, nctx, [&]() {
                osmium::apply_diff(cbuf.cbegin<osmium::OSMObject>(), cbuf.cend<osmium::OSMObject>(), std::get<P>(hs)...); });
#ifdef C20_HAVE_APPLY_DIFF_BUFFER
            run_apply("apply_diff(Buffer&)", o, &b, hk, n, nontrivial, nctx, [&]() { osmium::apply_diff(buf, std::get<P>(hs)...); });
            run_apply("apply_diff(const Buffer&)", o, &b, hk, n, nontrivial, nctx, [&]() { osmium::apply_diff(cbuf, std::get<P>(hs)...); });
#endif
            // Reader-like source, buffers split
            const size_t N = o.size();
            const uint32_t nmask = 1U << (N ? N - 1 : 0);
            for (uint32_t mask = 0; mask < nmask; ++mask) {
                if (!all_splits && mask != 0 && mask != nmask - 1) continue;
                for (int empties = 0; empties < 2; ++empties) {
                    Built sb;
                    build(o, mask, empties != 0, noise != 0, sb);
                    FakeSource src;
                    src.bufs = std::move(sb.bufs);
                    std::string sctx = nctx + " | buffers cut before positions {";
                    for (size_t i = 0; i + 1 < N; ++i) if (mask >> i & 1U) sctx += std::to_string(i + 1) + " ";
                    sctx += empties ? "} with empty buffers in between" : "}";
                    run_apply("apply_diff(source)", o, &sb, hk, n, nontrivial, sctx, [&]() { osmium::apply_diff(src, std::get<P>(hs)...); });
                    ++(*g_cnt)["source_split_cases"];
                }
            }
        }
        // a real Reader (decides itself how to cut the data into buffers): identities by (type,id,version)
        if (!has_area) {
            const std::string opl = opl_of(o);
            run_apply("apply_diff(Reader&)", o, nullptr, hk, n, nontrivial, hctx, [&]() {
                osmium::io::Reader reader{osmium::io::File{opl.data(), opl.size(), "opl"}};
                osmium::apply_diff(reader, std::get<P>(hs)...);
                reader.close(); });
        }
    }
};

using ApplyFn = void (*)(const std::vector<Obj>&, bool, bool);
template <int Len, size_t... I> static void add_lists(std::vector<ApplyFn>& v, std::index_sequence<I...>) {
    const ApplyFn f[] = {&ApplyAll<typename HLOf<static_cast<int>(I), std::make_index_sequence<Len>>::type, std::make_index_sequence<Len>>::run...};
    for (ApplyFn x : f) v.push_back(x);
}

static std::vector<ApplyFn> g_lists;   // [0] = single all-callbacks handler

// replay spec: runs of type.id.nversions (plus the history written out, for the reader)
static std::string spec_of(const std::vector<Obj>& o) {
    std::string spec = "X:";
    size_t i = 0;
    while (i < o.size()) {
        size_t j = i;
        while (j < o.size() && same_obj(o[j], o[i])) ++j;
        spec += std::string(spec.size() > 2 ? "," : "") + std::to_string(o[i].type) + "." + std::to_string(o[i].id) + "." + std::to_string(j - i);
        i = j;
    }
    return spec + " = " + hist_str(o);
}

static void run_history(const std::vector<Obj>& o) {
    g_spec = spec_of(o);
    bool nontrivial = o.size() >= 2;
    // 1. DiffIterator itself
    for (int noise = 0; noise < 2; ++noise) {
        Built b;
        build(o, 0, false, noise != 0, b);
        Buffer& buf = b.bufs[0];
        const Buffer& cbuf = buf;
        iter_case("DiffIterator(begin<OSMObject>)", o, b, buf.begin<osmium::OSMObject>(), buf.end<osmium::OSMObject>(), false, nontrivial);
        iter_case("DiffIterator(cbegin<OSMObject>,post-increment)", o, b, cbuf.cbegin<osmium::OSMObject>(), cbuf.cend<osmium::OSMObject>(), true, nontrivial);
    }
    // 2. apply_diff: every handler list on the unsplit / fully split data, every split with the single handler
    for (size_t l = 0; l < g_lists.size(); ++l) g_lists[l](o, l == 0, nontrivial);
    if (g_samples < 2 && g_shard < 4 && o.size() >= 4 && (o.size() * 7 + o[0].type * 3 + o.back().ver) % 11 == 0) {
        ++g_samples;
        std::string s = "history " + hist_str(o) + " -> DiffIterator showed:";
        Built b; build(o, 0, false, false, b);
        auto it = osmium::make_diff_iterator(b.bufs[0].begin<osmium::OSMObject>(), b.bufs[0].end<osmium::OSMObject>());
        const auto end = osmium::make_diff_iterator(b.bufs[0].end<osmium::OSMObject>(), b.bufs[0].end<osmium::OSMObject>());
        for (; it != end; ++it) s += " [prev=v" + std::to_string(it->prev().version()) + " curr=" + tchar[static_cast<int>(it->type())] + std::to_string(it->id()) + "v" + std::to_string(it->version()) +
                                     " next=v" + std::to_string(it->next().version()) + (it->first() ? " first" : "") + (it->last() ? " last" : "") + "]";
        benum::sample(s);
    }
}

// history number `rank`: subset of the 8 (type,id) pairs with <= K members x version counts 1..V
struct Space {
    int K, V;
    std::vector<std::pair<uint32_t, uint64_t>> subsets;   // (pair mask, first rank)
    uint64_t total = 0;
    Space(int k, int v) : K(k), V(v) {
        for (uint32_t m = 0; m < 256; ++m) {
            const int pc = __builtin_popcount(m);
            if (pc > K) continue;
            subsets.emplace_back(m, total);
            total += benum::ipow(static_cast<uint64_t>(V), static_cast<unsigned>(pc));
        }
    }
    std::vector<Obj> at(uint64_t rank) const {
        size_t s = 0;
        while (s + 1 < subsets.size() && subsets[s + 1].second <= rank) ++s;
        uint64_t r = rank - subsets[s].second;
        std::vector<Obj> o;
        for (int p = 0; p < 8; ++p) {     // pairs in sorted order: n1 n2 w1 w2 r1 r2 a1 a2
            if (!(subsets[s].first >> p & 1U)) continue;
            const uint32_t nv = static_cast<uint32_t>(r % static_cast<uint64_t>(V)) + 1; r /= static_cast<uint64_t>(V);
            for (uint32_t v = 1; v <= nv; ++v) o.push_back(Obj{static_cast<uint8_t>(p / 2 + 1), p % 2 + 1, v});
        }
        return o;
    }
};

int main(int argc, char** argv) {
    setenv("OSMIUM_POOL_THREADS", "1", 0);
    benum::Args args = benum::parse_args(argc, argv);
    benum::Counters cnt;
    g_cnt = &cnt;
    g_shard = args.shard;
    add_lists<1>(g_lists, std::make_index_sequence<2>{});
    add_lists<2>(g_lists, std::make_index_sequence<4>{});
    add_lists<3>(g_lists, std::make_index_sequence<8>{});
    int K = args.thorough ? 4 : 3, V = 3;
    for (size_t i = 0; i + 1 < args.rest.size(); ++i) {
        if (args.rest[i] == "--objects") K = atoi(args.rest[i + 1].c_str());
        if (args.rest[i] == "--versions") V = atoi(args.rest[i + 1].c_str());
    }
    if (args.replay) {
        std::vector<Obj> o;
        const char* p = args.replay_spec.c_str();
        if (strncmp(p, "X:", 2) != 0) { fprintf(stderr, "bad spec\n"); return 2; }
        p += 2;
        while (*p && *p != ' ') {
            char* q;
            const long t = strtol(p, &q, 10); p = q + 1;
            const long id = strtol(p, &q, 10); p = q + 1;
            const long nv = strtol(p, &q, 10); p = q;
            for (long v = 1; v <= nv; ++v) o.push_back(Obj{static_cast<uint8_t>(t), id, static_cast<uint32_t>(v)});
            if (*p == ',') ++p;
        }
        const std::string spec = args.replay_spec;
        benum::run_isolated(args, 0, 1, [&](uint64_t) { run_history(o); },
            [&](uint64_t, const std::string& what, const std::string& err) {
                benum::viol("diff/crash/" + benum::death_class(what, err), "process died while walking history " + hist_str(o), spec); });
        cnt.emit();
        return 0;
    }

    const Space sp(K, V);
    const bool complete = benum::run_isolated(args, 0, sp.total,
        [&](uint64_t rank) { run_history(sp.at(rank)); ++cnt["histories"]; },
        [&](uint64_t rank, const std::string& what, const std::string& err) {
            const std::vector<Obj> o = sp.at(rank);
            const std::string spec = spec_of(o);
            benum::viol("diff/crash/" + benum::death_class(what, err), "process died while walking history " + hist_str(o) + " | " + benum::clean(err.substr(0, 600)), spec);
        });
    cnt.emit();
    benum::bound("diff: histories of <=" + std::to_string(K) + " objects over {n,w,r,a}x{1,2} with 1.." + std::to_string(V) +
                 " versions x DiffIterator/apply_diff entry points x every buffer split x noise x 14 handler lists", complete);
    return 0;
}
