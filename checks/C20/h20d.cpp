// C20, part 1: handler dispatch through osmium::apply / apply_item / apply_flush.
//
// Enumerated space (every case is distinct by construction):
//   item sequence   every sequence of length <= 3 over the top-level item alphabet below
//                   (5 entity types, 7 sub-item types put at top level with parent-less builders,
//                   removed variants), every entity carrying nested sub-items
// x handler list    tables generated at compile time (index -> list of kinds, mixed radix):
//                   T1 = length 1 over all NKX kinds, T2 = length 2 over all NKX kinds,
//                   T3 = length 3 over the NKB base kinds, T4 = length 4 over the base kinds
//                   (T4 only when compiled with -DC20_TABLE4)
// x entry point     13 ways to reach apply_item_impl (see Entry<E>), const and non-const
// x buffer split    for the InputIterator entries: every subset of cut points, with/without
//                   empty buffers in between
//
// Oracle: a reference model (model_item / model_flush) that writes down, straight from the
// property statement, which callbacks each handler kind must receive:
//   for every item the entry point's iterator yields, in order, for every handler in argument
//   order: osm_object (OSMObject types only) then the one callback matching the item's type;
//   after the last item one flush per handler in argument order; wrapped function objects are
//   called exactly for the types (and constness) their operator() accepts.
// The real callbacks append to a log (handler position, leaf, callback, item type, constness of
// the argument, address, id, version); the log must equal the model's list.
//
// The lists are spread over NSLICES executables (-DSLICE=s -DNSLICES=n) to parallelise compilation.
#include <benum/benum.hpp>

#include <osmium/builder/osm_object_builder.hpp>
#include <osmium/dynamic_handler.hpp>
#include <osmium/handler.hpp>
#include <osmium/handler/chain.hpp>
#include <osmium/io/input_iterator.hpp>
#include <osmium/io/opl_input.hpp>
#include <osmium/io/reader.hpp>
#include <osmium/memory/buffer.hpp>
#include <osmium/osm.hpp>
#include <osmium/visitor.hpp>

#include <cstdint>
#include <set>
#include <string>
#include <tuple>
#include <utility>
#include <vector>

#ifndef SLICE
# define SLICE 0
#endif
#ifndef NSLICES
# define NSLICES 1
#endif

using osmium::item_type;
using osmium::memory::Buffer;


// ------------------------------------------------------------------------------------------------
// event log
enum Cb : uint8_t { CB_OSM_OBJECT, CB_NODE, CB_WAY, CB_RELATION, CB_AREA, CB_CHANGESET, CB_TAG_LIST, CB_WNL,
                    CB_RML, CB_OUTER, CB_INNER, CB_DISC, CB_FLUSH, CB_CALL, CB_NONE };
static const char* const cb_name[] = {"osm_object", "node", "way", "relation", "area", "changeset", "tag_list",
                                      "way_node_list", "relation_member_list", "outer_ring", "inner_ring",
                                      "changeset_discussion", "flush", "functor-call", "none"};

struct Ev {
    int8_t h = 0;        // position of the handler in the argument list
    int8_t leaf = 0;     // 0 = the handler itself, 1.. = objects wrapped inside it (DynamicHandler / ChainHandler)
    uint8_t cb = CB_NONE;
    uint8_t type = 0;    // item_type of the argument as read from the argument itself
    bool cst = false;    // callback overload taking a const reference was chosen
    const void* addr = nullptr;
    int64_t id = 0;
    uint32_t ver = 0;
};

static std::vector<Ev> g_log;
static bool g_cmp_addr = true;

static bool is_object(uint8_t t) { return t >= 1 && t <= 4; }
static bool is_entity(uint8_t t) { return t >= 1 && t <= 5; }

static void rec(int h, int leaf, int cb, const osmium::memory::Item& it, bool cst) {
    Ev e;
    e.h = static_cast<int8_t>(h); e.leaf = static_cast<int8_t>(leaf); e.cb = static_cast<uint8_t>(cb);
    e.type = static_cast<uint8_t>(it.type()); e.cst = cst; e.addr = &it;
    if (is_object(e.type)) {
        e.id = static_cast<const osmium::OSMObject&>(it).id();
        e.ver = static_cast<const osmium::OSMObject&>(it).version();
    } else if (e.type == 5) {
        e.id = static_cast<const osmium::Changeset&>(it).id();
    }
    g_log.push_back(e);
}
static void rec_flush(int h, int leaf) {
    Ev e; e.h = static_cast<int8_t>(h); e.leaf = static_cast<int8_t>(leaf); e.cb = CB_FLUSH;
    g_log.push_back(e);
}

static bool same(const Ev& a, const Ev& b) {
    return a.h == b.h && a.leaf == b.leaf && a.cb == b.cb && a.type == b.type && a.cst == b.cst &&
           a.id == b.id && a.ver == b.ver && (!g_cmp_addr || a.addr == b.addr);
}

// ------------------------------------------------------------------------------------------------
// handler kinds
#define C20_CB_BOTH(fn, T, code) \
    void fn(const osmium::T& x) { rec(h, leaf, code, x, true); } \
    void fn(osmium::T& x) { rec(h, leaf, code, x, false); }
#define C20_CB_CONST(fn, T, code) void fn(const osmium::T& x) { rec(h, leaf, code, x, true); }
#define C20_CB_MUT(fn, T, code) void fn(osmium::T& x) { rec(h, leaf, code, x, false); }
#define C20_ALL_CBS(M) \
    M(osm_object, OSMObject, CB_OSM_OBJECT) M(node, Node, CB_NODE) M(way, Way, CB_WAY) M(relation, Relation, CB_RELATION) \
    M(area, Area, CB_AREA) M(changeset, Changeset, CB_CHANGESET) M(tag_list, TagList, CB_TAG_LIST) \
    M(way_node_list, WayNodeList, CB_WNL) M(relation_member_list, RelationMemberList, CB_RML) \
    M(outer_ring, OuterRing, CB_OUTER) M(inner_ring, InnerRing, CB_INNER) M(changeset_discussion, ChangesetDiscussion, CB_DISC)

// static handler overriding every callback with a const and a non-const overload
struct S : osmium::handler::Handler {
    int h, leaf;
    explicit S(int h_, int leaf_ = 0) : h(h_), leaf(leaf_) {}
    C20_ALL_CBS(C20_CB_BOTH)
    void flush() { rec_flush(h, leaf); }
};
// static handler as most users write it: const reference parameters only
struct SC : osmium::handler::Handler {
    int h, leaf;
    explicit SC(int h_, int leaf_ = 0) : h(h_), leaf(leaf_) {}
    C20_ALL_CBS(C20_CB_CONST)
    void flush() { rec_flush(h, leaf); }
};
// static handler with non-const parameters only ("don't have to ... take their argument as const")
struct SN : osmium::handler::Handler {
    int h, leaf;
    explicit SN(int h_, int leaf_ = 0) : h(h_), leaf(leaf_) {}
    C20_ALL_CBS(C20_CB_MUT)
    void flush() { rec_flush(h, leaf); }
};
// handler style object put inside a DynamicHandler
struct DI : osmium::handler::Handler {
    int h, leaf;
    DI(int h_, int leaf_) : h(h_), leaf(leaf_) {}
    C20_ALL_CBS(C20_CB_CONST)
    void flush() { rec_flush(h, leaf); }
};
// visitor style object (operator() only, no flush) put inside a DynamicHandler
struct DFn {
    int h, leaf;
    DFn(int h_, int leaf_) : h(h_), leaf(leaf_) {}
    template <typename T> void operator()(const T& x) { rec(h, leaf, CB_CALL, x, true); }
};
// function object with two overloads, one of them taking a non-const reference
struct FO {
    int h;
    explicit FO(int h_) : h(h_) {}
    void operator()(const osmium::Node& x) const { rec(h, 0, CB_CALL, x, true); }
    void operator()(osmium::Relation& x) const { rec(h, 0, CB_CALL, x, false); }
};

static auto make_lo(int h) { return [h](const osmium::OSMObject& x) { rec(h, 0, CB_CALL, x, true); }; }
static auto make_lm(int h) { return [h, n = 0](const osmium::Node& x) mutable { ++n; rec(h, 0, CB_CALL, x, true); }; }
static auto make_lw(int h) { return [h](const osmium::Way& x) { rec(h, 0, CB_CALL, x, true); }; }
static auto make_lg(int h) { return [h](const auto& x) { rec(h, 0, CB_CALL, x, true); }; }
static auto make_ln(int h) { return [h](osmium::Node& x) { rec(h, 0, CB_CALL, x, false); }; }
static auto make_lc(int h) { return [h](const osmium::Changeset& x) { rec(h, 0, CB_CALL, x, true); }; }
static auto make_le(int h) { return [h](const osmium::OSMEntity& x) { rec(h, 0, CB_CALL, x, true); }; }

// The first NKB kinds are the "base" kinds used for the long lists.
enum Kinds { K_S, K_D, K_LO, K_LM, K_LW, K_C, /* extended: */ K_SC, K_SN, K_DF, K_D0, K_LG, K_LN, K_LC, K_LE, K_FO, K_CC, NKX };
constexpr int NKB = 6;
static const char* const kind_name[] = {
    "static-handler", "DynamicHandler", "const-lambda(const OSMObject&)", "mutable-lambda(const Node&)",
    "lambda(const Way&)", "ChainHandler<static,Dynamic>", "static-handler-const-sigs-rvalue", "static-handler-nonconst-sigs",
    "DynamicHandler(functor)", "DynamicHandler(empty)", "generic-lambda(const auto&)", "lambda(Node&)",
    "lambda(const Changeset&)", "lambda(const OSMEntity&)", "functor(const Node&|Relation&)", "ChainHandler<Chain<static,nonconst>,Dynamic>"};

// Holder<K>: owns a handler of kind K for argument position h; arg() yields it with the value
// category it is passed with. needs_mut: only compiles with non-const items. raw: a real
// handler (usable with apply_item / apply_flush, which do not wrap function objects).
template <int K> struct Holder;
template <> struct Holder<K_S> { static constexpr bool needs_mut = false, raw = true; S s; explicit Holder(int h) : s(h) {} S& arg() { return s; } };
template <> struct Holder<K_SC> { static constexpr bool needs_mut = false, raw = true; SC s; explicit Holder(int h) : s(h) {} SC&& arg() { return std::move(s); } };
template <> struct Holder<K_SN> { static constexpr bool needs_mut = true, raw = true; SN s; explicit Holder(int h) : s(h) {} SN& arg() { return s; } };
template <> struct Holder<K_D> {
    static constexpr bool needs_mut = false, raw = true;
    osmium::handler::DynamicHandler d;
    explicit Holder(int h) { d.set<DI>(h, 1); }
    osmium::handler::DynamicHandler& arg() { return d; }
};
template <> struct Holder<K_DF> {
    static constexpr bool needs_mut = false, raw = true;
    osmium::handler::DynamicHandler d;
    explicit Holder(int h) { d.set<DFn>(h, 1); }
    osmium::handler::DynamicHandler& arg() { return d; }
};
template <> struct Holder<K_D0> {
    static constexpr bool needs_mut = false, raw = true;
    osmium::handler::DynamicHandler d;
    explicit Holder(int) {}
    osmium::handler::DynamicHandler& arg() { return d; }
};
#define C20_LAMBDA_HOLDER(K, maker, REF, EXPR) \
    template <> struct Holder<K> { \
        static constexpr bool needs_mut = false, raw = false; \
        using F = decltype(maker(0)); F f; explicit Holder(int h) : f(maker(h)) {} \
        F REF arg() { return EXPR; } };
C20_LAMBDA_HOLDER(K_LO, make_lo, &&, std::move(f))
C20_LAMBDA_HOLDER(K_LM, make_lm, &&, std::move(f))
C20_LAMBDA_HOLDER(K_LW, make_lw, &, f)
C20_LAMBDA_HOLDER(K_LG, make_lg, &&, std::move(f))
C20_LAMBDA_HOLDER(K_LN, make_ln, &&, std::move(f))
C20_LAMBDA_HOLDER(K_LC, make_lc, &, f)
C20_LAMBDA_HOLDER(K_LE, make_le, &&, std::move(f))
template <> struct Holder<K_FO> { static constexpr bool needs_mut = false, raw = false; FO f; explicit Holder(int h) : f(h) {} FO& arg() { return f; } };
template <> struct Holder<K_C> {
    static constexpr bool needs_mut = true, raw = true;
    using Chain = osmium::handler::ChainHandler<S, osmium::handler::DynamicHandler>;
    S a; osmium::handler::DynamicHandler b; Chain c;
    explicit Holder(int h) : a(h, 1), c(a, b) { b.set<DI>(h, 2); }
    Holder(const Holder&) = delete;
    Chain& arg() { return c; }
};
template <> struct Holder<K_CC> {
    static constexpr bool needs_mut = true, raw = true;
    using Inner = osmium::handler::ChainHandler<S, SN>;
    using Chain = osmium::handler::ChainHandler<Inner, osmium::handler::DynamicHandler>;
    S a; SN b; Inner in; osmium::handler::DynamicHandler d; Chain c;
    explicit Holder(int h) : a(h, 1), b(h, 2), in(a, b), c(in, d) { d.set<DI>(h, 3); }
    Holder(const Holder&) = delete;
    Chain& arg() { return c; }
};

// ------------------------------------------------------------------------------------------------
// reference model
struct ItemInfo { uint8_t type; const void* addr; int64_t id; uint32_t ver; };

static int cb_of(uint8_t t) {
    switch (t) {
        case 1: return CB_NODE; case 2: return CB_WAY; case 3: return CB_RELATION; case 4: return CB_AREA;
        case 5: return CB_CHANGESET; case 0x11: return CB_TAG_LIST; case 0x12: return CB_WNL;
        case 0x13: case 0x23: return CB_RML; case 0x40: return CB_OUTER; case 0x41: return CB_INNER; case 0x80: return CB_DISC;
    }
    return CB_NONE;
}

// what handler kind `kind` at argument position h must see for item `it`, delivered as const (cst) or not
static void model_item(int kind, int h, const ItemInfo& it, bool cst, std::vector<Ev>& out) {
    auto push = [&](int leaf, int cb, bool c) {
        Ev e; e.h = static_cast<int8_t>(h); e.leaf = static_cast<int8_t>(leaf); e.cb = static_cast<uint8_t>(cb);
        e.type = it.type; e.cst = c; e.addr = it.addr; e.id = it.id; e.ver = it.ver;
        out.push_back(e);
    };
    const bool obj = is_object(it.type), ent = is_entity(it.type);
    const int cb = cb_of(it.type);
    switch (kind) {
        // real handlers: generic callback first (OSMObject types only), then the matching one
        case K_S:  if (obj) push(0, CB_OSM_OBJECT, cst);   push(0, cb, cst);   break;
        case K_SC: if (obj) push(0, CB_OSM_OBJECT, true);  push(0, cb, true);  break;
        case K_SN: if (obj) push(0, CB_OSM_OBJECT, false); push(0, cb, false); break;
        // DynamicHandler forwards the five entity callbacks (const) to what it wraps
        case K_D:  if (ent) push(1, cb, true); break;
        case K_DF: if (ent) push(1, CB_CALL, true); break;
        case K_D0: break;
        // wrapped function objects: called exactly for the types their operator() accepts
        case K_LO: if (obj) push(0, CB_CALL, true); break;
        case K_LM: if (it.type == 1) push(0, CB_CALL, true); break;
        case K_LW: if (it.type == 2) push(0, CB_CALL, true); break;
        case K_LG: if (ent) push(0, CB_CALL, true); break;
        case K_LN: if (it.type == 1 && !cst) push(0, CB_CALL, false); break;
        case K_LC: if (it.type == 5) push(0, CB_CALL, true); break;
        case K_LE: if (ent) push(0, CB_CALL, true); break;
        case K_FO: if (it.type == 1) push(0, CB_CALL, true); else if (it.type == 3 && !cst) push(0, CB_CALL, false); break;
        // ChainHandler forwards the five entity callbacks (non-const) to its members in order
        case K_C:  if (ent) { push(1, cb, false); push(2, cb, true); } break;
        case K_CC: if (ent) { push(1, cb, false); push(2, cb, false); push(3, cb, true); } break;
    }
}
static void model_flush(int kind, int h, std::vector<Ev>& out) {
    auto push = [&](int leaf) { Ev e; e.h = static_cast<int8_t>(h); e.leaf = static_cast<int8_t>(leaf); e.cb = CB_FLUSH; out.push_back(e); };
    switch (kind) {
        case K_S: case K_SC: case K_SN: push(0); break;
        case K_D: push(1); break;
        case K_C: push(1); push(2); break;
        case K_CC: push(1); push(2); push(3); break;
        default: break;   // function objects and the empty DynamicHandler have no flush
    }
}

// ------------------------------------------------------------------------------------------------
// item alphabet and buffer construction
enum Letters { L_NODE, L_WAY, L_RELATION, L_AREA, L_CHANGESET, L_TAGS, L_WNL, L_RML, L_RML_FULL, L_OUTER, L_INNER, L_DISC,
               L_REMOVED = 12 };   // 12..16 removed entities, 17..23 removed sub-items
static const char* const letter_name[] = {"node", "way", "relation", "area", "changeset", "tag_list", "way_node_list",
    "relation_member_list", "relation_member_list_with_full_members", "outer_ring", "inner_ring", "changeset_discussion"};
static int g_nletters = 17;

static std::string letters_str(const std::vector<int>& ls) {
    std::string s = "[";
    for (size_t i = 0; i < ls.size(); ++i) {
        if (i) s += ' ';
        s += letter_name[ls[i] % L_REMOVED];
        if (ls[i] >= L_REMOVED) s += "(removed)";
    }
    return s + "]";
}

static Buffer& scratch_node() {
    static Buffer b{1024, Buffer::auto_grow::yes};
    if (b.committed() == 0) {
        { osmium::builder::NodeBuilder nb{b}; nb.set_id(77).set_version(7); nb.set_user("m"); }
        b.commit();
    }
    return b;
}

// appends one top-level item; returns what the model needs to know about it (addr filled in later)
static ItemInfo add_item(Buffer& b, int letter, int pos, size_t& offset) {
    using namespace osmium::builder;
    const int base = letter % L_REMOVED;
    const bool removed = letter >= L_REMOVED;
    const int64_t id = 10 + pos;
    const uint32_t ver = static_cast<uint32_t>(pos + 1);
    offset = b.committed();
    ItemInfo info{0, nullptr, 0, 0};
    switch (base) {
        case L_NODE: {
            NodeBuilder nb{b}; nb.set_id(id).set_version(ver).set_removed(removed); nb.set_user("u");
            { TagListBuilder t{nb}; t.add_tag("k", "v"); }
            info = ItemInfo{1, nullptr, id, ver}; break; }
        case L_WAY: {
            WayBuilder wb{b}; wb.set_id(id).set_version(ver).set_removed(removed); wb.set_user("u");
            { TagListBuilder t{wb}; t.add_tag("k", "v"); }
            { WayNodeListBuilder w{wb}; w.add_node_ref(1); w.add_node_ref(2); }
            info = ItemInfo{2, nullptr, id, ver}; break; }
        case L_RELATION: {
            RelationBuilder rb{b}; rb.set_id(id).set_version(ver).set_removed(removed); rb.set_user("u");
            { TagListBuilder t{rb}; t.add_tag("k", "v"); }
            { RelationMemberListBuilder m{rb}; m.add_member(item_type::node, 1, "r"); m.add_member(item_type::way, 2, ""); }
            info = ItemInfo{3, nullptr, id, ver}; break; }
        case L_AREA: {
            AreaBuilder ab{b}; ab.set_id(id).set_version(ver).set_removed(removed); ab.set_user("u");
            { TagListBuilder t{ab}; t.add_tag("k", "v"); }
            { OuterRingBuilder o{ab}; o.add_node_ref(1); o.add_node_ref(2); o.add_node_ref(1); }
            { InnerRingBuilder i{ab}; i.add_node_ref(3); i.add_node_ref(4); i.add_node_ref(3); }
            info = ItemInfo{4, nullptr, id, ver}; break; }
        case L_CHANGESET: {
            ChangesetBuilder cb{b}; cb.set_id(static_cast<osmium::changeset_id_type>(id)).set_removed(removed); cb.set_user("u");
            { TagListBuilder t{cb}; t.add_tag("k", "v"); }
            { ChangesetDiscussionBuilder d{cb}; d.add_comment(osmium::Timestamp{1}, 1, "c"); d.add_comment_text("x"); }
            info = ItemInfo{5, nullptr, id, 0}; break; }
        case L_TAGS: { TagListBuilder t{b}; t.add_tag("a", "b"); info.type = 0x11; break; }
        case L_WNL: { WayNodeListBuilder w{b}; w.add_node_ref(5); info.type = 0x12; break; }
        case L_RML: { RelationMemberListBuilder m{b}; m.add_member(item_type::node, 1, "r"); info.type = 0x13; break; }
        case L_RML_FULL: {
            RelationMemberListBuilder m{b};
            m.add_member(item_type::node, 77, "r", &*scratch_node().begin<osmium::OSMObject>());
            info.type = 0x23; break; }
        case L_OUTER: { OuterRingBuilder o{b}; o.add_node_ref(5); info.type = 0x40; break; }
        case L_INNER: { InnerRingBuilder i{b}; i.add_node_ref(5); info.type = 0x41; break; }
        case L_DISC: { ChangesetDiscussionBuilder d{b}; d.add_comment(osmium::Timestamp{1}, 1, "c"); d.add_comment_text("x"); info.type = 0x80; break; }
    }
    if (base == L_RML_FULL) {
        // No builder of this version produces this (valid, still dispatched) type; it differs from a plain
        // member list only in the type field of the item header (uint32 size, uint16 type), so write it raw.
        const uint16_t t = 0x23;
        memcpy(b.data() + b.committed() + 4, &t, sizeof t);
    }
    if (base > L_CHANGESET && removed) {
        reinterpret_cast<osmium::memory::Item*>(b.data() + b.committed())->set_removed(true);
    }
    b.commit();
    return info;
}

// Builds the sequence into buffers: a new buffer starts before item i (i >= 1) iff bit i-1 of mask is
// set; with `empties` a valid buffer without items is put first, after every cut and last.
static void build_buffers(const std::vector<int>& letters, unsigned mask, bool empties,
                          std::vector<Buffer>& bufs, std::vector<ItemInfo>& infos) {
    bufs.clear(); infos.clear();
    std::vector<std::pair<size_t, size_t>> where;   // (buffer index, offset)
    auto empty = [&]() { bufs.emplace_back(64, Buffer::auto_grow::no); };
    if (empties) empty();
    if (!letters.empty()) bufs.emplace_back(2048, Buffer::auto_grow::yes);
    for (size_t i = 0; i < letters.size(); ++i) {
        if (i > 0 && (mask >> (i - 1) & 1U)) {
            if (empties) empty();
            bufs.emplace_back(2048, Buffer::auto_grow::yes);
        }
        size_t off = 0;
        infos.push_back(add_item(bufs.back(), letters[i], static_cast<int>(i), off));
        where.emplace_back(bufs.size() - 1, off);
    }
    if (empties && !letters.empty()) empty();
    for (size_t i = 0; i < infos.size(); ++i) infos[i].addr = bufs[where[i].first].data() + where[i].second;
}

struct FakeSource {   // what InputIterator needs: read() returning buffers, then an invalid one
    std::vector<Buffer> bufs;
    size_t next = 0;
    Buffer read() { return next < bufs.size() ? std::move(bufs[next++]) : Buffer{}; }
};

static std::string opl_of(const std::vector<int>& letters) {
    std::string s;
    for (size_t i = 0; i < letters.size(); ++i) {
        const std::string id = std::to_string(10 + i), v = std::to_string(i + 1);
        switch (letters[i]) {
            case L_NODE: s += "n" + id + " v" + v + " dV c1 t2020-01-01T00:00:00Z i1 uu Tk=v x1 y2\n"; break;
            case L_WAY: s += "w" + id + " v" + v + " dV c1 t2020-01-01T00:00:00Z i1 uu Tk=v Nn1,n2\n"; break;
            case L_RELATION: s += "r" + id + " v" + v + " dV c1 t2020-01-01T00:00:00Z i1 uu Tk=v Mn1@r,w2@\n"; break;
            case L_CHANGESET: s += "c" + id + " k1 s2020-01-01T00:00:00Z e2020-01-01T00:00:01Z d1 i1 uu x1 y1 X2 Y2 Tk=v\n"; break;
        }
    }
    return s;
}

// ------------------------------------------------------------------------------------------------
// environment of one (sequence) and entry points
struct Env {
    std::vector<int> letters;
    std::vector<Buffer> one;            // the whole sequence in one buffer (size 1, or 0 for the empty sequence)
    std::vector<ItemInfo> infos;        // for `one`
    Buffer none{64, Buffer::auto_grow::no};
    bool reader_ok = false;             // all letters expressible in OPL
    std::string opl;
    // per call (InputIterator entries)
    std::vector<ItemInfo> split_infos;
    Buffer& buf() { return one.empty() ? none : one[0]; }
};

static bool acc_entity(uint8_t t) { return is_entity(t); }
static bool acc_object(uint8_t t) { return is_object(t); }
static bool acc_all(uint8_t) { return true; }

enum { E_BUF, E_CBUF, E_IT_ITEM, E_CIT_ITEM, E_IT_OBJ, E_CIT_OBJ, E_SEL_ITEM, E_CSEL_ENTITY, E_ITEM, E_CITEM_ENTITY,
       E_SRC_ITEM, E_SRC_OBJ, E_READER, NENTRIES };

// Entry<E>: name, `via` (class and constness of the item handed to apply_item_impl), which item
// types the iterator yields, and the call itself.
template <int E> struct Entry;
#define C20_ENTRY(E, NAME, VIA, CONST, RAW, ACC, SPLITS) \
    template <> struct Entry<E> { \
        static constexpr bool is_const = CONST, raw = RAW, splits = SPLITS; \
        static const char* name() { return NAME; } static const char* via() { return VIA; } \
        static bool accepts(uint8_t t) { return ACC(t); } \
        template <typename... H> static void call(Env& env, H&&... hs); };

C20_ENTRY(E_BUF, "apply(Buffer&)", "OSMEntity-mut", false, false, acc_entity, false)
template <typename... H> void Entry<E_BUF>::call(Env& env, H&&... hs) { osmium::apply(env.buf(), std::forward<H>(hs)...); }
C20_ENTRY(E_CBUF, "apply(const Buffer&)", "OSMEntity-const", true, false, acc_entity, false)
template <typename... H> void Entry<E_CBUF>::call(Env& env, H&&... hs) { const Buffer& cb = env.buf(); osmium::apply(cb, std::forward<H>(hs)...); }
C20_ENTRY(E_IT_ITEM, "apply(begin<Item>,end<Item>)", "Item-mut", false, false, acc_all, false)
template <typename... H> void Entry<E_IT_ITEM>::call(Env& env, H&&... hs) {
        osmium::apply(env.buf().begin<osmium::memory::Item>(), env.buf().end<osmium::memory::Item>(), std::forward<H>(hs)...); }
C20_ENTRY(E_CIT_ITEM, "apply(cbegin<Item>,cend<Item>)", "Item-const", true, false, acc_all, false)
template <typename... H> void Entry<E_CIT_ITEM>::call(Env& env, H&&... hs) {
        osmium::apply(env.buf().cbegin<osmium::memory::Item>(), env.buf().cend<osmium::memory::Item>(), std::forward<H>(hs)...); }
C20_ENTRY(E_IT_OBJ, "apply(begin<OSMObject>,end<OSMObject>)", "OSMObject-mut", false, false, acc_object, false)
template <typename... H> void Entry<E_IT_OBJ>::call(Env& env, H&&... hs) {
        osmium::apply(env.buf().begin<osmium::OSMObject>(), env.buf().end<osmium::OSMObject>(), std::forward<H>(hs)...); }
C20_ENTRY(E_CIT_OBJ, "apply(cbegin<OSMObject>,cend<OSMObject>)", "OSMObject-const", true, false, acc_object, false)
template <typename... H> void Entry<E_CIT_OBJ>::call(Env& env, H&&... hs) {
        osmium::apply(env.buf().cbegin<osmium::OSMObject>(), env.buf().cend<osmium::OSMObject>(), std::forward<H>(hs)...); }
// (ranges of a concrete class such as select<Way>() do not compile with apply(): the generic
// apply_item_impl static_casts the item to every class - so there is nothing to check for them)
C20_ENTRY(E_SEL_ITEM, "apply(select<Item>() range)", "Item-mut", false, false, acc_all, false)
template <typename... H> void Entry<E_SEL_ITEM>::call(Env& env, H&&... hs) {
        auto range = env.buf().select<osmium::memory::Item>(); osmium::apply(range, std::forward<H>(hs)...); }
C20_ENTRY(E_CSEL_ENTITY, "apply(const select<OSMEntity>() range)", "OSMEntity-const", true, false, acc_entity, false)
template <typename... H> void Entry<E_CSEL_ENTITY>::call(Env& env, H&&... hs) {
        const Buffer& cb = env.buf(); const auto range = cb.select<osmium::OSMEntity>(); osmium::apply(range, std::forward<H>(hs)...); }
C20_ENTRY(E_ITEM, "apply_item(Item&)+apply_flush", "Item-mut", false, true, acc_all, false)
template <typename... H> void Entry<E_ITEM>::call(Env& env, H&&... hs) {
        for (auto it = env.buf().begin<osmium::memory::Item>(); it != env.buf().end<osmium::memory::Item>(); ++it) osmium::apply_item(*it, hs...);
        osmium::apply_flush(std::forward<H>(hs)...); }
C20_ENTRY(E_CITEM_ENTITY, "apply_item(const OSMEntity&)+apply_flush", "OSMEntity-const", true, true, acc_entity, false)
template <typename... H> void Entry<E_CITEM_ENTITY>::call(Env& env, H&&... hs) {
        const Buffer& cb = env.buf();
        for (const osmium::OSMEntity& e : cb) osmium::apply_item(e, hs...);
        osmium::apply_flush(std::forward<H>(hs)...); }
C20_ENTRY(E_SRC_ITEM, "apply(InputIteratorRange<Source,Item>)", "Item-mut", false, false, acc_all, true)       // call() defined below
C20_ENTRY(E_SRC_OBJ, "apply(InputIteratorRange<Source,OSMObject>)", "OSMObject-mut", false, false, acc_object, true)
C20_ENTRY(E_READER, "apply(Reader&)", "Item-mut", false, false, acc_all, false)
template <typename... H> void Entry<E_READER>::call(Env& env, H&&... hs) {
        osmium::io::Reader reader{osmium::io::File{env.opl.data(), env.opl.size(), "opl"}};
        osmium::apply(reader, std::forward<H>(hs)...);
        reader.close(); }

static FakeSource* g_source = nullptr;
template <typename... H> void Entry<E_SRC_ITEM>::call(Env&, H&&... hs) {
    auto range = osmium::io::make_input_iterator_range<osmium::memory::Item>(*g_source);
    osmium::apply(range, std::forward<H>(hs)...); }
template <typename... H> void Entry<E_SRC_OBJ>::call(Env&, H&&... hs) {
    auto range = osmium::io::make_input_iterator_range<osmium::OSMObject>(*g_source);
    osmium::apply(range, std::forward<H>(hs)...); }

// ------------------------------------------------------------------------------------------------
// running and judging one case
static benum::Counters* g_cnt;
static benum::Violations g_viol;
static std::vector<bool> g_seen(NKX * 2 * 16 * 16 * 2);   // distinct (kind, inner?, callback, item type, constness) observed
static benum::Args g_args;
static int g_samples = 0;

struct CaseId { int table; int list; int entry; unsigned split; };

static std::string spec_of(const CaseId& c, const std::vector<int>& letters) {
    std::string s = "D:" + std::to_string(c.table) + ":" + std::to_string(c.list) + ":" + std::to_string(c.entry) + ":" +
                    std::to_string(c.split) + ":";
    for (size_t i = 0; i < letters.size(); ++i) s += (i ? "." : "") + std::to_string(letters[i]);
    return s;
}

static std::string ev_str(const Ev& e, const int* kinds) {
    std::string s = "h" + std::to_string(e.h) + "(" + kind_name[kinds[e.h]] + ")";
    if (e.leaf) s += ".inner" + std::to_string(e.leaf);
    s += std::string(".") + cb_name[e.cb];
    if (e.cb != CB_FLUSH) {
        s += std::string("(") + (e.cst ? "const " : "") + osmium::item_type_to_name(static_cast<item_type>(e.type));
        if (is_entity(e.type)) s += " id=" + std::to_string(e.id) + " v" + std::to_string(e.ver);
        s += ")";
    }
    return s;
}
static std::string log_str(const std::vector<Ev>& l, const int* kinds) {
    std::string s;
    for (size_t i = 0; i < l.size() && i < 14; ++i) s += (i ? " " : "") + ev_str(l[i], kinds);
    if (l.size() > 14) s += " ...";
    return s.empty() ? "(nothing)" : s;
}

static bool Holder_is_functor(int kind) {
    return kind == K_LO || kind == K_LM || kind == K_LW || kind == K_LG || kind == K_LN || kind == K_LC || kind == K_LE || kind == K_FO;
}

static void judge(const CaseId& cid, Env& env, const int* kinds, int n, const char* ename, const char* via, bool is_const,
                  const std::vector<Ev>& model, bool nontrivial, const std::vector<ItemInfo>& infos) {
    ++(*g_cnt)["evaluations"];
    if (nontrivial) ++(*g_cnt)["distinct_nontrivial"];
    (*g_cnt)["callbacks_checked"] += model.size();
    // Left open by the property: whether a DynamicHandler / ChainHandler also hands osm_object and the sub-item
    // callbacks on to what it wraps (this version does not). Such events are accepted and only counted.
    for (size_t i = 0; i < g_log.size();) {
        const Ev& e = g_log[i];
        if (e.leaf != 0 && (e.cb == CB_OSM_OBJECT || (e.cb >= CB_TAG_LIST && e.cb <= CB_DISC))) {
            ++(*g_cnt)["open_inner_handler_got_generic_or_subitem_callback"];
            g_log.erase(g_log.begin() + static_cast<long>(i));
        } else ++i;
    }
    bool ok = model.size() == g_log.size();
    for (size_t i = 0; ok && i < model.size(); ++i) ok = same(model[i], g_log[i]);
    for (const Ev& e : g_log) {   // diversity: which (kind, inner?, callback, item type, constness) were really delivered
        const unsigned t = e.type <= 5 ? e.type : e.type == 0x23 ? 9 : e.type == 0x40 ? 10 : e.type == 0x41 ? 11 : e.type == 0x80 ? 12 : e.type - 0x11 + 6;
        g_seen[((((static_cast<unsigned>(kinds[e.h]) * 2 + (e.leaf ? 1 : 0)) * 16 + e.cb) * 16 + t) * 2) + (e.cst ? 1 : 0)] = true;
    }
    if (ok) {
        if (g_samples < 1 && g_args.shard < 2 && n >= 2 && env.letters.size() >= 2 && model.size() >= 6 &&
            (cid.list * 31 + cid.entry * 7 + env.letters[0] * 3 + env.letters[1]) % 53 == 0) {
            ++g_samples;
            std::string hl;
            for (int h = 0; h < n; ++h) hl += (h ? ", " : "") + std::string(kind_name[kinds[h]]);
            benum::sample(std::string(ename) + " handlers=[" + hl + "] items=" + letters_str(env.letters) + " -> " + log_str(g_log, kinds));
        }
        return;
    }
    // Classification, canonical in the position of the item inside the sequence: for every handler and every
    // item (and the flush "item" at the end) the callbacks it got for that item against the ones it should get.
    const std::string spec = spec_of(cid, env.letters);
    std::string hl;
    for (int h = 0; h < n; ++h) hl += (h ? ", " : "") + std::string(kind_name[kinds[h]]);
    const std::string ctx = std::string(" | entry=") + ename + " handlers=[" + hl + "] items=" + letters_str(env.letters) +
                            " | expected: " + log_str(model, kinds) + " | got: " + log_str(g_log, kinds);
    const int nitems = static_cast<int>(infos.size());
    auto item_of = [&](const Ev& e) -> int {       // index of the item an event is about; nitems = flush; -1 = no item of the sequence
        if (e.cb == CB_FLUSH) return nitems;
        for (int i = 0; i < nitems; ++i) {
            const ItemInfo& it = infos[static_cast<size_t>(i)];
            if (g_cmp_addr ? e.addr == it.addr : (e.type == it.type && e.id == it.id && e.ver == it.ver)) return i;
        }
        return -1;
    };
    auto group = [&](const std::vector<Ev>& l, int h, int idx) {
        std::string r; int cnt = 0; std::string last;
        auto flush = [&]() { if (cnt) r += (r.empty() ? "" : "+") + last + (cnt > 1 ? "x" + std::to_string(cnt) : ""); };
        for (const Ev& e : l) {
            if (e.h != h || item_of(e) != idx) continue;
            std::string d = std::string(e.leaf ? "inner" + std::to_string(e.leaf) + "." : "") + cb_name[e.cb] + (e.cb == CB_FLUSH ? "" : e.cst ? "(const)" : "(mut)");
            if (d == last) { ++cnt; continue; }
            flush(); last = d; cnt = 1;
        }
        flush();
        return r.empty() ? std::string("nothing") : r;
    };
    bool any = false;
    for (int h = 0; h < n; ++h) {
        // class of the way in: the item class + constness select the apply_item_impl overload; a wrapped function
        // object sits behind wrapper_handler, for it only the constness of the item can matter
        const std::string way_in = Holder_is_functor(kinds[h]) ? std::string(is_const ? "item=const" : "item=mutable") : std::string("via=") + via;
        for (int idx = -1; idx <= nitems; ++idx) {
            const std::string exp = group(model, h, idx), got = group(g_log, h, idx);
            if (exp == got) continue;
            any = true;
            const std::string itype = idx == nitems ? "at-end" : idx < 0 ? "object-not-in-sequence"
                : osmium::item_type_to_name(static_cast<item_type>(infos[static_cast<size_t>(idx)].type));
            // (flushing does not depend on how the items were reached: no way-in part in that key)
            g_viol.report(std::string("dispatch/") + kind_name[kinds[h]] + "/" + itype + "/expected=" + exp + ",got=" + got + (idx == nitems ? "" : "/" + way_in),
                          "handler at position " + std::to_string(h) + (idx >= 0 && idx < nitems ? ", item " + std::to_string(idx) : "") + ctx, spec);
        }
    }
    if (!any) {   // every handler got the right callbacks for every item, but not in the right order
        size_t p = 0;
        while (p < model.size() && same(model[p], g_log[p])) ++p;
        const Ev& m = model[p]; const Ev& g = g_log[p];
        const char* what = (m.cb == CB_FLUSH || g.cb == CB_FLUSH) ? "flush-not-after-last-item"
                         : item_of(m) == item_of(g) ? (m.h != g.h ? "handlers-not-in-argument-order" : "callbacks-of-one-handler-not-in-order")
                         : "items-not-in-order";
        g_viol.report(std::string("order/") + what + "/via=" + via, "expected " + ev_str(m, kinds) + " got " + ev_str(g, kinds) + ctx, spec);
    }
}

template <bool...> struct BoolPack {};
template <bool... B> using AllTrue = std::is_same<BoolPack<true, B...>, BoolPack<B..., true>>;

template <int... Ks> struct List { static constexpr int size = sizeof...(Ks); };

// runtime view of Entry<E> (so that only the call itself is instantiated per handler list)
struct EntryInfo { bool is_const, splits; const char* name; const char* via; bool (*accepts)(uint8_t); };
template <size_t... Es> static const EntryInfo* entry_infos(std::index_sequence<Es...>) {
    static const EntryInfo t[] = {EntryInfo{Entry<Es>::is_const, Entry<Es>::splits, Entry<Es>::name(), Entry<Es>::via(), &Entry<Es>::accepts}...};
    return t;
}
static const EntryInfo* const g_entry = entry_infos(std::make_index_sequence<NENTRIES>{});

using Thunk = void (*)(Env&, void*);    // calls one entry point with the handlers of one list

template <int E, class L, class P> struct Call;
template <int E, int... Ks, size_t... P> struct Call<E, List<Ks...>, std::index_sequence<P...>> {
    using Tuple = std::tuple<Holder<Ks>...>;
    // does this combination compile at all? (non-const-only handlers on const items; function objects with apply_item)
    static constexpr bool compiles = AllTrue<((!Entry<E>::is_const || !Holder<Ks>::needs_mut) && (!Entry<E>::raw || Holder<Ks>::raw))...>::value;
    static void thunk(Env& env, void* t) { Tuple& hs = *static_cast<Tuple*>(t); Entry<E>::call(env, std::get<P>(hs).arg()...); }
    static Thunk get(std::true_type) { return &thunk; }
    static Thunk get(std::false_type) { return nullptr; }
    static Thunk get() { return get(std::integral_constant<bool, compiles>{}); }
};

static void run_one(CaseId cid, Env& env, const int* kinds, int n, Thunk thunk, void* hs, const std::vector<ItemInfo>& infos) {
    const EntryInfo& E = g_entry[cid.entry];
    std::vector<Ev> model;
    for (const ItemInfo& it : infos) {
        if (!E.accepts(it.type)) continue;
        for (int h = 0; h < n; ++h) model_item(kinds[h], h, it, E.is_const, model);
    }
    const bool nontrivial = !model.empty();
    for (int h = 0; h < n; ++h) model_flush(kinds[h], h, model);
    g_log.clear();
    thunk(env, hs);
    judge(cid, env, kinds, n, E.name, E.via, E.is_const, model, nontrivial, infos);
}

// all entry points (or only_entry) and all buffer splits (or only_split) for one handler list and one item sequence
static void run_list(CaseId cid, Env& env, const int* kinds, int n, const Thunk* thunks, void* hs, int only_entry, long only_split) {
    for (int e = 0; e < NENTRIES; ++e) {
        if (only_entry >= 0 && e != only_entry) continue;
        if (!thunks[e]) { ++(*g_cnt)["combinations_that_do_not_compile_by_design"]; continue; }
        cid.entry = e; cid.split = 0;
        if (e == E_READER) {
            if (!env.reader_ok) continue;
            g_cmp_addr = false;
            run_one(cid, env, kinds, n, thunks[e], hs, env.infos);
            g_cmp_addr = true;
        } else if (!g_entry[e].splits) {
            run_one(cid, env, kinds, n, thunks[e], hs, env.infos);
        } else {
            const size_t m = env.letters.size();
            const unsigned nmask = 1U << (m ? m - 1 : 0);
            for (unsigned s = 0; s < nmask * 2; ++s) {
                if (only_split >= 0 && s != static_cast<unsigned>(only_split)) continue;
                FakeSource src;
                build_buffers(env.letters, s >> 1, s & 1U, src.bufs, env.split_infos);
                g_source = &src;
                cid.split = s;
                run_one(cid, env, kinds, n, thunks[e], hs, env.split_infos);
                g_source = nullptr;
            }
        }
    }
}

template <class L, class P, class Es> struct RunList;
template <int... Ks, size_t... P, size_t... Es> struct RunList<List<Ks...>, std::index_sequence<P...>, std::index_sequence<Es...>> {
    static void run(CaseId cid, Env& env, int only_entry, long only_split) {
        std::tuple<Holder<Ks>...> hs{static_cast<int>(P)...};
        static const int kinds[] = {Ks...};
        static const Thunk thunks[] = {Call<static_cast<int>(Es), List<Ks...>, std::index_sequence<P...>>::get()...};
        run_list(cid, env, kinds, static_cast<int>(sizeof...(Ks)), thunks, &hs, only_entry, only_split);
    }
};

using RunFn = void (*)(CaseId, Env&, int, long);

constexpr int cpow(int b, size_t e) { return e == 0 ? 1 : b * cpow(b, e - 1); }

// list number I of a table with lists of length Len over the first NK kinds: digits of I in base NK
template <int NK, int I, class P> struct ListOf;
template <int NK, int I, size_t... P> struct ListOf<NK, I, std::index_sequence<P...>> { using type = List<((I / cpow(NK, P)) % NK)...>; };

template <int NK, int Len> struct Table {
    static constexpr int total = cpow(NK, Len);
    static constexpr int mine = total > SLICE ? (total - SLICE + NSLICES - 1) / NSLICES : 0;   // lists I = J * NSLICES + SLICE
    template <size_t... J> static const RunFn* fns(std::index_sequence<J...>) {
        static const RunFn t[] = {nullptr, &RunList<typename ListOf<NK, static_cast<int>(J) * NSLICES + SLICE, std::make_index_sequence<Len>>::type,
                                           std::make_index_sequence<Len>, std::make_index_sequence<NENTRIES>>::run...};
        return t + 1;
    }
    static const RunFn* fns() { return fns(std::make_index_sequence<mine>{}); }
};

struct TableRef { int id; int nk; int len; int total; int mine; const RunFn* fns; };

static std::vector<TableRef> tables() {
    std::vector<TableRef> t;
#ifndef C20_ONLY_TABLE4
    t.push_back({1, NKX, 1, Table<NKX, 1>::total, Table<NKX, 1>::mine, Table<NKX, 1>::fns()});
    t.push_back({2, NKX, 2, Table<NKX, 2>::total, Table<NKX, 2>::mine, Table<NKX, 2>::fns()});
    t.push_back({3, NKB, 3, Table<NKB, 3>::total, Table<NKB, 3>::mine, Table<NKB, 3>::fns()});
#else
    t.push_back({4, NKB, 4, Table<NKB, 4>::total, Table<NKB, 4>::mine, Table<NKB, 4>::fns()});
#endif
    return t;
}

static void make_env(Env& env, const std::vector<int>& letters) {
    env.letters = letters;
    build_buffers(letters, 0, false, env.one, env.infos);
    env.reader_ok = true;
    for (int l : letters) if (!(l == L_NODE || l == L_WAY || l == L_RELATION || l == L_CHANGESET)) env.reader_ok = false;
    env.opl = env.reader_ok ? opl_of(letters) : "";
}

static std::vector<int> seq_of_rank(uint64_t rank, int& len_out) {
    // rank 0: empty; then all of length 1, 2, 3 ...
    int len = 0;
    uint64_t block = 1;
    while (rank >= block) { rank -= block; block *= static_cast<uint64_t>(g_nletters); ++len; }
    std::vector<int> l(static_cast<size_t>(len));
    for (int i = 0; i < len; ++i) { l[static_cast<size_t>(i)] = static_cast<int>(rank % static_cast<uint64_t>(g_nletters)); rank /= static_cast<uint64_t>(g_nletters); }
    len_out = len;
    return l;
}

int main(int argc, char** argv) {
    setenv("OSMIUM_POOL_THREADS", "1", 0);
    g_args = benum::parse_args(argc, argv);
    benum::Counters cnt;
    g_cnt = &cnt;
    g_log.reserve(256);
    int maxlen = 3;
    for (size_t i = 0; i + 1 < g_args.rest.size(); ++i) {
        if (g_args.rest[i] == "--letters") g_nletters = atoi(g_args.rest[i + 1].c_str());
        if (g_args.rest[i] == "--maxlen") maxlen = atoi(g_args.rest[i + 1].c_str());
    }
    const std::vector<TableRef> tabs = tables();

    if (g_args.replay) {
        int table = 0, list = 0, entry = 0; unsigned split = 0; char lbuf[200] = "";
        if (sscanf(g_args.replay_spec.c_str(), "D:%d:%d:%d:%u:%199s", &table, &list, &entry, &split, lbuf) < 4) { fprintf(stderr, "bad spec\n"); return 2; }
        std::vector<int> letters;
        for (char* p = lbuf; *p;) { letters.push_back(static_cast<int>(strtol(p, &p, 10))); if (*p == '.') ++p; }
        g_nletters = 24;
        Env env;
        make_env(env, letters);
        for (const TableRef& t : tabs) {
            if (t.id != table || list % NSLICES != SLICE || list / NSLICES >= t.mine) continue;
            t.fns[list / NSLICES](CaseId{table, list, entry, split}, env, entry, static_cast<long>(split));
        }
        cnt.emit();
        return 0;
    }

    uint64_t nseq = 0;
    { uint64_t b = 1; for (int l = 0; l <= maxlen; ++l) { nseq += b; b *= static_cast<uint64_t>(g_nletters); } }
    bool complete = true;
    uint64_t done = 0;
    for (uint64_t r = 0; r < nseq; ++r) {
        if (r <= static_cast<uint64_t>(g_nletters) ? g_args.shard != 0 : !g_args.mine(r)) continue;   // shortest ones first, on shard 0
        if (g_args.expired()) { complete = false; break; }
        int len = 0;
        Env env;
        make_env(env, seq_of_rank(r, len));
        for (const TableRef& t : tabs)
            for (int j = 0; j < t.mine; ++j) t.fns[j](CaseId{t.id, j * NSLICES + SLICE, 0, 0}, env, -1, -1);
        ++done;
    }
#ifndef C20_ONLY_TABLE4
    if (SLICE == 0) cnt["item_sequences"] += done;
#endif
    cnt.emit();
    static const uint8_t tcode[] = {0, 1, 2, 3, 4, 5, 0x11, 0x12, 0x13, 0x23, 0x40, 0x41, 0x80};
    for (size_t i = 0; i < g_seen.size(); ++i) {
        if (!g_seen[i]) continue;
        const size_t cst = i & 1, t = (i >> 1) & 15, cb = (i >> 5) & 15, leaf = (i >> 9) & 1, k = i >> 10;
        std::string s = std::string(kind_name[k]) + (leaf ? "/inner" : "") + ":" + cb_name[cb];
        if (cb != CB_FLUSH) s += std::string(":") + osmium::item_type_to_name(static_cast<item_type>(tcode[t])) + (cst ? ":const" : ":mut");
        benum::setv("observed_dispatch", s);
    }
    std::string tn;
    for (const TableRef& t : tabs) tn += " T" + std::to_string(t.id) + "(len" + std::to_string(t.len) + ",kinds" + std::to_string(t.nk) + ")";
    benum::bound("dispatch: item sequences len<=" + std::to_string(maxlen) + " over " + std::to_string(g_nletters) +
                 " letters x handler lists" + tn + " x 13 entry points x all buffer splits", complete);
    return 0;
}
