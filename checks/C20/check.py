"""C20 - handler dispatch and diff iteration (DESIGN.md section 5, C20)."""
import os
import re
import sys
from concurrent.futures import ThreadPoolExecutor

sys.path.insert(0, os.path.join(os.path.dirname(os.path.abspath(__file__)), "..", "..", "engine", "driver"))
import vlib  # noqa: E402

LEVEL = "exploration"
RULE = ("complete enumeration, every case distinct by construction. (dispatch, h20d) item sequence of length <= 3 over the top-level "
        "item alphabet {node, way, relation, area, changeset, tag_list, way_node_list, relation_member_list, "
        "relation_member_list_with_full_members, outer_ring, inner_ring, changeset_discussion, removed variants} (entities carry nested "
        "sub-items) x handler list (length 1 and 2 over 16 handler kinds, length 3 - thorough: 4 - over the 6 base kinds static handler, "
        "DynamicHandler, const lambda, mutable lambda, one-type lambda, ChainHandler; instantiated from a compile-time index table) x 13 entry "
        "points (apply on Buffer / const Buffer / Item, OSMEntity, OSMObject iterator pairs and ranges, const and non-const / apply_item + "
        "apply_flush / InputIterator ranges over a Reader-like source under every split of the items into buffers / Reader over OPL). "
        "Oracle: reference list of callbacks written from the property (per item, per handler in argument order: osm_object for OSMObject "
        "types, then the one matching callback with matching constness; one flush per handler at the end; function objects called exactly for "
        "the types their operator() accepts), compared event by event with the log (handler position, inner handler, callback, item type, "
        "constness, address, id, version). Non-trivial = at least one callback is due. "
        "(diff, h20x, ASan, forked) version-sorted history of <= 3 (thorough 4) objects over {n,w,r,a} x id {1,2} with 1..3 versions each x "
        "DiffIterator (const/non-const, pre/post-increment) / apply_diff(it,end) / apply_diff(buffer) if it compiles / apply_diff(source) under "
        "every subset of cut points with and without empty buffers / apply_diff(Reader) x changeset noise x 14 diff handler lists. Oracle: "
        "every version once, in order, prev/next = neighbouring version of the same (type,id) else itself (by address), first()/last() "
        "accordingly, handlers in argument order. Non-trivial = history with >= 2 versions in total.")
DEADLINE = {"quick": 240, "thorough": 1200}

NQ = 8     # executables the handler-list tables T1..T3 are spread over
NT = 16    # executables for table T4 (thorough)
PROBE_KEY = "apply_diff/buffer-overload/does-not-compile"


def _spec(name, have_diffbuf=False):
    if name == "x":
        return dict(name="x", sources=["h20x.cpp"], asan=True, opt="-O1",
                    flags=["-DC20_HAVE_APPLY_DIFF_BUFFER"] if have_diffbuf else [])
    if name == "probe":
        return dict(name="probe", sources=["probe_diffbuf.cpp"], opt="-O0")
    m = re.match(r"([dq])(\d+)$", name)
    kind, i = m.group(1), int(m.group(2))
    if kind == "d":
        return dict(name=name, sources=["h20d.cpp"], opt="-O1", flags=["-DSLICE=%d" % i, "-DNSLICES=%d" % NQ])
    return dict(name=name, sources=["h20d.cpp"], opt="-O1", flags=["-DSLICE=%d" % i, "-DNSLICES=%d" % NT, "-DC20_ONLY_TABLE4"])


def _probe(ctx):
    """returns (compiles, first error line)"""
    try:
        ctx.build(**_spec("probe"))
        return True, ""
    except vlib.BuildError as e:
        lines = [l for l in str(e).splitlines() if "error:" in l]
        return False, (lines[0] if lines else "compile error")[:400]


def build(ctx, names=None):
    if names is None:
        names = ["d%d" % i for i in range(NQ)] + ["x"]
        if ctx.tier == "thorough":
            names += ["q%d" % i for i in range(NT)]
    with ThreadPoolExecutor(max_workers=os.cpu_count() or 4) as ex:
        probe = ex.submit(_probe, ctx)
        futs = {n: ex.submit(lambda n=n: ctx.build(**_spec(n))) for n in names if n != "x"}
        ok, err = probe.result()
        if "x" in names:
            futs["x"] = ex.submit(lambda: ctx.build(**_spec("x", ok)))
        exes = {n: f.result() for n, f in futs.items()}
    ctx.extra["apply_diff_buffer_overload_compiles"] = bool(ok)
    build.probe = (ok, err)
    return exes


def run(ctx):
    exes = build(ctx)
    if getattr(ctx, "build_only", False):
        return
    ok, err = build.probe
    if not ok:
        ctx.violation(PROBE_KEY, "osmium::apply_diff(buffer, handler) and apply_diff(const buffer, handler) (diff_visitor.hpp) do not "
                      "compile: " + err, harness=None, spec="compile:probe_diffbuf.cpp")
        ctx.bound("diff: apply_diff(Buffer&) / apply_diff(const Buffer&) entry points (do not compile)", True)
    env = {"OSMIUM_POOL_THREADS": "1"}
    thorough = ctx.tier == "thorough"
    letters = ["--letters", "24" if thorough else "17"]
    ctx.run_harness(exes["x"], [], shards=16, env=env)
    for i in range(NQ):
        ctx.run_harness(exes["d%d" % i], letters, shards=16, env=env)
    if thorough:
        for i in range(NT):
            ctx.run_harness(exes["q%d" % i], letters, shards=16, env=env)
    ctx.assume("items marked removed are still items: they are dispatched like the others (the iterators do not skip them)")
    ctx.assume("members of a ChainHandler / the object inside a DynamicHandler get the five entity callbacks and flush, not osm_object "
               "or the sub-item callbacks (those classes do not forward them)")
    ctx.assume("apply_diff on data containing areas: everything before the first area must be right, then unknown_type or skipping is accepted")
    ctx.assume("ranges of a concrete item class (select<Way>()) do not compile with apply() and are therefore not part of the space")


def replay(ctx, rec):
    spec = rec.get("spec", "")
    if spec.startswith("compile:"):
        ok, err = _probe(ctx)
        return [] if ok else [(PROBE_KEY, err)]
    name = rec.get("harness")
    if not name or not re.match(r"(x|[dq]\d+)$", name):
        raise vlib.HarnessError("replay file names unknown harness %r" % name)
    exe = build(ctx, [name])[name]
    got, r = ctx.replay_harness(exe, spec, env={"OSMIUM_POOL_THREADS": "1"})
    sys.stdout.write(r.stdout[-4000:])
    return got
