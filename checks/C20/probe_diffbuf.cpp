// Compile probe for C20: does the documented overload apply_diff(Buffer&, handlers...) (and its const
// twin) compile at all? If it does, check.py builds the diff harness with -DC20_HAVE_APPLY_DIFF_BUFFER
// and the overloads are checked like every other entry point; if not, that is reported as a finding.
#include <osmium/diff_handler.hpp>
#include <osmium/diff_visitor.hpp>
#include <osmium/memory/buffer.hpp>


struct H : osmium::diff_handler::DiffHandler {};

int main() {
    osmium::memory::Buffer buffer{1024, osmium::memory::Buffer::auto_grow::yes};
    const osmium::memory::Buffer& cbuffer = buffer;
    H h;
    osmium::apply_diff(buffer, h);
    osmium::apply_diff(cbuffer, h);
    return 0;
}
