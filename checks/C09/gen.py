#!/usr/bin/env python3
"""C09 generator + reference decompressor (Python gzip / bz2 / zlib; deterministic, no randomness).

  gen.py --tier quick|thorough --out DIR [--jobs N]   whole corpus: files + DIR/manifest.txt
  gen.py --one '<kind>;<pieces>;<mut>' --out DIR        one file (used by `h09 --replay`); <mut> = - | T (every
                                                        truncation, S line with V=0) | m[,m...] (M lines)

Payloads are slices of three fixed master byte streams
  I  incompressible: 64-bit LCG (MMIX constants), top 32 bits of every state, little endian
  C  compressible:   OPL-like text lines with counters
  H  half:           'a' + (I & 15)
A *piece* `V.off.len[.flags]` is master_V[off:off+len], compressed on its own (one gzip member / one bzip2 stream);
flags: n = gzip member written through GzipFile with FNAME + mtime header fields, 1 = compression level 1.
A file is the concatenation of its compressed pieces; its payload P the concatenation of the slices.
mut:  -            the file as it is
      t<len>       truncated to <len> bytes
      c<pos>.<val> byte <pos> replaced by <val>

All paths in the manifest are file names relative to the directory of the manifest.

Manifest lines (tab separated):
  F part kind path pieces plen crc32 adler32 clens
        a valid file; the reference (gzip.decompress / bz2.decompress of the whole file) returned exactly P (asserted here)
  M part kind path pieces plen crc32 adler32 clens mut exp
        one mutated file; exp = E (reference raised) | path of a file holding the bytes the reference returned
  S part kind path pieces plen crc32 adler32 clens V table nres
        complete sweep over a small file: table = little-endian uint16 array, entry 0 = reference raised, k>0 = reference
        returned the bytes in <path>.res<k>; first len(file) entries: truncation to 0..len-1 bytes, then len(file)*V entries
        (pos major): V=8 -> byte ^ (1<<j); V=255 -> (byte + 1 + j) & 255.
"""
import argparse
import array
import bz2
import gzip
import io
import multiprocessing
import os
import struct
import sys
import zlib

MIB = 1 << 20
LCG_A = 6364136223846793005
LCG_C = 1442695040888963407
LCG_X0 = 0x9E3779B97F4A7C15
M64 = (1 << 64) - 1
H_TABLE = bytes(97 + (b & 15) for b in range(256))

_masters = {}


def _gen_I(n):
    words = []
    x = LCG_X0
    for _ in range((n + 3) // 4):
        x = (x * LCG_A + LCG_C) & M64
        words.append(x >> 32)
    return struct.pack("<%dI" % len(words), *words)[:n]


def _gen_C(n):
    lines = []
    tot = 0
    i = 0
    while tot < n:
        s = "n%d v1 dV c%d t2020-01-01T00:00:00Z i%d u T x%d.%07d y%d\n" % (
            i, i * 7, i % 13, i % 360 - 180, (i * 7919) % 10000000, i % 180 - 90)
        lines.append(s)
        tot += len(s)
        i += 1
    return "".join(lines).encode("ascii")[:n]


def master(v, need):
    """master stream v, at least `need` bytes long (prefix-stable: a longer one extends a shorter one)"""
    cur = _masters.get(v)
    if cur is not None and len(cur) >= need:
        return cur
    n = 4096
    while n < need:
        n *= 2
    n = min(n, 4 * MIB) if need <= 4 * MIB else need
    if v == "I":
        m = _gen_I(n)
    elif v == "C":
        m = _gen_C(n)
    elif v == "H":
        m = master("I", n)[:n].translate(H_TABLE)
    else:
        raise ValueError("variant " + v)
    _masters[v] = m
    return m


def parse_pieces(s):
    res = []
    for p in s.split("+"):
        f = p.split(".")
        res.append((f[0], int(f[1]), int(f[2]), f[3] if len(f) > 3 else ""))
    return res


def fmt_pieces(pieces):
    return "+".join("%s.%d.%d%s" % (v, o, n, "." + fl if fl else "") for v, o, n, fl in pieces)


def slice_of(piece):
    v, off, n, _ = piece
    return master(v, off + n)[off:off + n]


def payload_of(pieces):
    return b"".join(slice_of(p) for p in pieces)


def compress_piece(kind, piece):
    data = slice_of(piece)
    fl = piece[3]
    if kind == "gzip":
        if "n" in fl:
            buf = io.BytesIO()
            with gzip.GzipFile(filename="c09-data.osm", mode="wb", fileobj=buf, mtime=1234567890, compresslevel=6) as f:
                f.write(data)
            return buf.getvalue()
        return gzip.compress(data, compresslevel=1 if "1" in fl else 9, mtime=0)
    if kind == "bzip2":
        return bz2.compress(data, 1 if "1" in fl else 9)
    raise ValueError(kind)


def reference(kind, data):
    """THE reference decompressor: ('B', bytes) or ('E', exception class name)"""
    try:
        if kind == "gzip":
            return "B", gzip.decompress(data)
        return "B", bz2.decompress(data)
    except Exception as e:  # BadGzipFile, EOFError, zlib.error, OSError, ValueError, struct.error ...
        return "E", type(e).__name__


def digest(b):
    return "%d\t%d\t%d" % (len(b), zlib.crc32(b) & 0xffffffff, zlib.adler32(b) & 0xffffffff)


def apply_mut(data, mut):
    if mut == "-":
        return data
    if mut[0] == "t":
        return data[:int(mut[1:])]
    pos, val = mut[1:].split(".")
    b = bytearray(data)
    b[int(pos)] = int(val)
    return bytes(b)


EXT = {"gzip": "gz", "bzip2": "bz2"}

# ----------------------------------------------------------------------------------------------------------------
# pool workers (fork start method: G is inherited)
G = {}


def w_compress(task):
    idx, kind, piece = task
    c = compress_piece(kind, piece)
    with open(os.path.join(G["out"], "p%d.bin" % idx), "wb") as f:
        f.write(c)
    return idx, len(c)


def w_file(task):
    """assemble one file from compressed pieces, run the reference on it, self-check, return the F line + M lines"""
    fidx, part, kind, pieces, pidx, muts = task
    out = G["out"]
    blobs = []
    for i in pidx:
        with open(os.path.join(out, "p%d.bin" % i), "rb") as f:
            blobs.append(f.read())
    data = b"".join(blobs)
    path = "f%d.%s" % (fidx, EXT[kind])
    with open(os.path.join(out, path), "wb") as f:
        f.write(data)
    P = payload_of(pieces)
    r = reference(kind, data)
    if r != ("B", P):
        raise SystemExit("C09 gen self-check failed: reference does not return the payload for %s %s: %r" %
                         (kind, fmt_pieces(pieces), r[0] if r[0] == "B" else r))
    clens = ",".join(str(len(b)) for b in blobs)
    head = "%s\t%s\t%s\t%s\t%s" % (kind, path, fmt_pieces(pieces), digest(P), clens)
    lines = ["F\t" + part + "\t" + head]
    for k, mut in enumerate(muts):
        if mut[0] == "c" and "." not in mut:
            mut += ".%d" % (0x55 if data[int(mut[1:])] != 0x55 else 0xAA)
        md = apply_mut(data, mut)
        t, v = reference(kind, md)
        if t == "E":
            exp = "E"
        else:
            exp = path + ".m%d" % k
            with open(os.path.join(out, exp), "wb") as f:
                f.write(v)
        lines.append("M\t" + part + "\t" + head + "\t" + mut + "\t" + exp)
    return fidx, lines


def w_sweep(task):
    """reference outcomes for a range of mutations of one small file; returns (sidx, start, codes, new results)"""
    sidx, kind, data, V, lo, hi = task      # entries lo..hi-1 of the table
    S = len(data)
    results = {}     # bytes -> local id (1..)
    codes = []
    for e in range(lo, hi):
        if e < S:
            md = data[:e]
        else:
            q = e - S
            pos, j = divmod(q, V)
            b = bytearray(data)
            b[pos] = (b[pos] ^ (1 << j)) if V == 8 else ((b[pos] + 1 + j) & 255)
            md = bytes(b)
        t, v = reference(kind, md)
        if t == "E":
            codes.append(0)
        else:
            codes.append(results.setdefault(v, len(results) + 1))
    return sidx, lo, codes, sorted(results, key=results.get)


# ----------------------------------------------------------------------------------------------------------------
def find_sizes(kind, fam_v, fam_off, lo_c, hi_c, cache):
    """payload lengths L such that the compressed size of fam[off:off+L] is c, for every reachable c in [lo_c, hi_c]"""
    def clen(L):
        k = (kind, fam_v, fam_off, L)
        if k not in cache:
            cache[k] = len(compress_piece(kind, (fam_v, fam_off, L, "")))
        return cache[k]
    lo, hi = 0, max(64, hi_c + 64)
    while clen(hi) < lo_c:              # compressible families need more payload than compressed bytes
        hi *= 2
    while lo < hi:                      # smallest L with clen(L) >= lo_c (clen is monotone up to a few bytes of noise)
        mid = (lo + hi) // 2
        if clen(mid) >= lo_c:
            hi = mid
        else:
            lo = mid + 1
    L = max(0, lo - 24)
    found = {}
    while True:
        c = clen(L)
        if lo_c <= c <= hi_c and c not in found:
            found[c] = L
        if c > hi_c + 24:
            break
        L += 1
    return found


def w_find(task):
    kind, v, off, lo_c, hi_c = task
    return task, find_sizes(kind, v, off, lo_c, hi_c, {})


# Slices used to hit an exact *compressed* length. bzip2's compressed size jumps by several bytes when one payload
# byte is added, so one slice family does not reach every length; the families are tried in order until every
# wanted length has a piece (the content of the payload is irrelevant for the alignment cases).
FAM1 = [("I", 0), ("H", 0), ("I", 400000), ("H", 100000), ("I", 600000), ("H", 300000), ("I", 800000), ("H", 500000),
        ("I", 1000000), ("H", 700000)]
FAM2 = [("I", 200000), ("H", 200000), ("I", 1200000), ("H", 400000), ("I", 1400000), ("H", 600000), ("I", 1600000),
        ("H", 800000), ("I", 1800000), ("H", 900000)]


def find_exact(pool, kind, fams, wanted):
    """{c: piece} for the compressed lengths in `wanted` (a set); lengths no family reaches are left out"""
    got = {}
    for v, off in fams:
        miss = sorted(c for c in wanted if c not in got)
        if not miss:
            break
        ranges = []                              # contiguous-ish windows over the missing lengths
        lo = hi = miss[0]
        for c in miss[1:]:
            if c - hi > 40:
                ranges.append((lo, hi))
                lo = c
            hi = c
        ranges.append((lo, hi))
        for task, found in pool.map(w_find, [(kind, v, off, a, b) for a, b in ranges], chunksize=1):
            for c, L in found.items():
                if c in wanted and c not in got:
                    got[c] = (v, off, L, "")
    return got


# ----------------------------------------------------------------------------------------------------------------
LATTICE = [0, 1, 2, 7, 4096, 4999, 5000, 5001, 8192, 10239, 10240, 10241, 65535, 65536, 65537,
           MIB - 1, MIB, MIB + 1, 3 * MIB + 17]
SIZES = [n for n in LATTICE if n not in (7, 4096, 8192)] + [7, 4096, 8192]
KINDS = ["gzip", "bzip2"]


def lattice_files(tier):
    """part lattice: payload I[0:N] / C[0:N] for N in the lattice, split into 1..3 streams at lattice positions
    (empty streams included: positions 0 and N). quick: all 1- and 2-stream splits; 3-stream splits complete for
    N <= 10241, reduced position set above. thorough: all."""
    files = []
    for v in ("I", "C"):
        for N in sorted(SIZES):
            pos = [p for p in LATTICE if p <= N]
            files.append([(v, 0, N, "")])
            for s in pos:
                files.append([(v, 0, s, ""), (v, s, N - s, "")])
            if tier == "thorough" or N <= 10241:
                p3 = pos
            else:
                p3 = [p for p in pos if p in (0, 1, 10240, 65536, MIB, N)]
            for i, s1 in enumerate(p3):
                for s2 in p3[i:]:
                    files.append([(v, 0, s1, ""), (v, s1, s2 - s1, ""), (v, s2, N - s2, "")])
    # a few mixed ones: level 1 (bzip2: 100k blocks -> many blocks per stream), FNAME header, H variant
    files.append([("I", 0, 300000, "1"), ("C", 0, 300000, "1")])
    files.append([("H", 0, 70000, "n"), ("H", 70000, 5, "n")])
    files.append([("H", 0, 10240, ""), ("H", 10240, 10240, ""), ("H", 20480, 10240, "")])
    return [("lattice", k, f) for k in KINDS for f in files]


def align_plan(tier):
    """part align: compressed stream lengths placed around 4096*n / 5000*n / 10240 and the file size around 5000*n."""
    w = 8 if tier == "thorough" else 2
    centers = [4096, 5000, 8192, 10000, 10240, 15000]
    c1_targets = sorted(set(c + d for c in centers for d in range(-w, w + 1)))
    return w, centers, c1_targets


def _tick(label, t0=[None]):
    import time
    now = time.time()
    if os.environ.get("C09_GEN_TIMING") and t0[0] is not None:
        sys.stderr.write("gen: %-28s %6.1fs\n" % (label, now - t0[0]))
    t0[0] = now


def build_corpus(tier, out, jobs):
    G["out"] = out
    _tick("start")
    master("I", 3 * MIB + 17)
    master("C", 3 * MIB + 17)
    master("H", MIB)
    pool = multiprocessing.Pool(jobs)
    files = lattice_files(tier)           # (part, kind, pieces)
    muts_of = {}                          # index in files -> list of mutations (M lines)

    # ---- align: pieces with exact compressed lengths, so that stream ends and the file end fall on / next to the
    #      read-ahead grids (libbz2 freads 5000 bytes, zlib's gz layer 8192, stdio 4096, buffer decompressors 10240)
    w, centers, c1_targets = align_plan(tier)
    unreachable = []
    for kind in KINDS:
        empty_c = 20 if kind == "gzip" else 14
        msmall = find_exact(pool, kind, FAM2, set(range(empty_c + 1, empty_c + 60)))
        small = min(msmall)
        m1 = find_exact(pool, kind, FAM1, set(c1_targets))
        unreachable += ["%s first=%d" % (kind, c) for c in c1_targets if c not in m1]
        pairs = []                                    # (c1, p1, c2)
        first = [(c, m1[c]) for c in c1_targets if c in m1] + [(empty_c, ("I", 0, 0, "")), (small, msmall[small])]
        for c1, p1 in first:
            c2s = {empty_c, small, 100, 6000}
            for grid in (5000, 8192):
                base = (c1 + 40) // grid
                for m in (1, 2):
                    for d in range(-2, 3):
                        c2s.add((base + m) * grid + d - c1)
            pairs += [(c1, p1, c2) for c2 in sorted(c2s) if c2 >= empty_c]
        triples = []                                  # (c1, e2, c3): both inner boundaries and the end near 5000*n
        for c1 in (4999, 5000, 5001, small):
            for e2 in (9999, 10000, 10001, 7000):
                for c3 in (empty_c, small, 15000 - 1 - e2, 15000 - e2, 15000 + 1 - e2):
                    triples.append((c1, e2 - c1, c3))
        wanted2 = set(c2 for _, _, c2 in pairs) | set(c2 for _, c2, _ in triples) | set(c3 for _, _, c3 in triples)
        wanted2 -= {empty_c}
        m2 = find_exact(pool, kind, FAM2, wanted2)
        m2[empty_c] = ("I", 200000, 0, "")
        m2.setdefault(small, msmall[small])
        unreachable += ["%s later=%d" % (kind, c) for c in sorted(wanted2) if c not in m2]
        for c1, p1, c2 in pairs:
            if c2 in m2:
                files.append(("align", kind, [p1, m2[c2]]))
        for c1, c2, c3 in triples:
            p1 = m1.get(c1) if c1 != small else msmall[small]
            if p1 is not None and c2 in m2 and c3 in m2:
                files.append(("align", kind, [p1, m2[c2], m2[c3]]))
        # a stream whose payload is exactly the default read size (1 MiB) and whose compressed end falls d bytes
        # behind a multiple of the read-ahead size, between a short first and a 60000-byte last stream
        big = ("I", 0, MIB, "")
        cbig = len(compress_piece(kind, big))
        grid = 5000 if kind == "bzip2" else 8192
        wantedb = {}
        for d in (range(-10, 21) if tier == "thorough" else range(-2, 13)):
            c1 = (d - cbig) % grid
            while c1 < 200:
                c1 += grid
            wantedb[d] = c1
        mb = find_exact(pool, kind, FAM1, set(wantedb.values()))
        for d, c1 in sorted(wantedb.items()):
            if c1 in mb:
                files.append(("align", kind, [mb[c1], big, ("I", 0, 60000, "")]))
            else:
                unreachable.append("%s big-first=%d" % (kind, c1))
    missing = len(unreachable)
    _tick("align: exact-length search")

    # ---- ltrunc: truncations / corruptions of larger files (reference evaluated per case)
    big = [[("I", 0, 65536, "")], [("C", 0, 300000, "")], [("I", 0, 40000, ""), ("I", 40000, 40000, "")],
           [("I", 0, MIB + 1, "")], [("I", 0, 2 * MIB, ""), ("C", 0, 70000, "")], [("I", 0, 300000, "1")]]
    for kind in KINDS:
        for pieces in big:
            files.append(("ltrunc", kind, pieces))
            muts_of[len(files) - 1] = "auto"

    # ---- phase 1: compress every distinct piece once
    pieces_idx = {}
    for part, kind, pieces in files:
        for p in pieces:
            pieces_idx.setdefault((kind, p), len(pieces_idx))
    plen = dict(pool.map(w_compress, [(i, k, p) for (k, p), i in pieces_idx.items()], chunksize=1))

    _tick("compress pieces")
    # ---- phase 2: assemble files, reference-check them
    ftasks = []
    for fidx, (part, kind, pieces) in enumerate(files):
        pidx = [pieces_idx[(kind, p)] for p in pieces]
        muts = []
        if muts_of.get(fidx) == "auto":
            cl = [plen[i] for i in pidx]
            S = sum(cl)
            cand = {1, 2, 4, 4095, 4096, 4999, 5000, 5001, 10000, S // 2, S - 10, S - 8, S - 4, S - 1}
            e = 0
            for c in cl[:-1]:
                e += c
                cand |= {e - 1, e, e + 1, e + 10}
            muts = ["t%d" % t for t in sorted(cand) if 0 < t < S]
            data_probe = [S // 3, S - 5, cl[0] // 2, min(S - 1, cl[0] + 5)]
            muts += ["c%d" % p for p in sorted(set(data_probe)) if 0 <= p < S]   # value chosen in w_file (must differ)
        ftasks.append((fidx, part, kind, pieces, pidx, muts))
    # big files first so the pool stays busy
    ftasks.sort(key=lambda t: -sum(plen[i] for i in t[4]))
    lines_of = dict(pool.map(w_file, ftasks, chunksize=4))
    for i in pieces_idx.values():
        os.unlink(os.path.join(out, "p%d.bin" % i))

    _tick("assemble + reference")
    # ---- sweep: every truncation and single-byte corruption of small files
    V = 255 if tier == "thorough" else 8
    small_files = {
        "gzip": [[("I", 0, 1900, "")], [("C", 0, 3000, "")], [("I", 0, 600, ""), ("C", 0, 900, "")],
                 [("H", 0, 800, "n")], [("I", 0, 0, "")], [("C", 0, 300, ""), ("H", 0, 0, ""), ("H", 0, 500, "")]],
        "bzip2": [[("I", 0, 1500, "")], [("C", 0, 3000, "")], [("I", 0, 500, ""), ("C", 0, 900, "")],
                  [("H", 0, 800, "1")], [("I", 0, 0, "")], [("C", 0, 300, ""), ("H", 0, 0, ""), ("H", 0, 500, "")]],
    }
    sweeps = []
    stasks = []
    for kind in KINDS:
        for pieces in small_files[kind]:
            blobs = [compress_piece(kind, p) for p in pieces]
            data = b"".join(blobs)
            if len(data) > 2048:
                raise SystemExit("sweep base file too large: %s %d" % (fmt_pieces(pieces), len(data)))
            P = payload_of(pieces)
            if reference(kind, data) != ("B", P):
                raise SystemExit("C09 gen self-check failed on sweep base " + fmt_pieces(pieces))
            sidx = len(sweeps)
            path = "s%d.%s" % (sidx, EXT[kind])
            with open(os.path.join(out, path), "wb") as f:
                f.write(data)
            sweeps.append((kind, pieces, path, data, P, blobs))
            total = len(data) * (1 + V)
            step = max(256, total // (jobs * 4) + 1)
            for lo in range(0, total, step):
                stasks.append((sidx, kind, data, V, lo, min(total, lo + step)))
    parts = {}
    for sidx, lo, codes, local in pool.map(w_sweep, stasks, chunksize=1):
        parts.setdefault(sidx, []).append((lo, codes, local))
    pool.close()
    pool.join()
    _tick("sweep reference tables")
    sweep_lines = []
    lenient = 0
    for sidx, (kind, pieces, path, data, P, blobs) in enumerate(sweeps):
        table = array.array("H")
        res_id = {}
        for lo, codes, local in sorted(parts[sidx], key=lambda t: t[0]):
            for v in local:
                if v not in res_id:
                    res_id[v] = len(res_id) + 1
                    with open(os.path.join(out, "%s.res%d" % (path, res_id[v])), "wb") as f:
                        f.write(v)
            table.extend(res_id[local[c - 1]] if c else 0 for c in codes)
        assert len(table) == len(data) * (1 + V)
        if sys.byteorder != "little":
            table.byteswap()
        with open(os.path.join(out, path + ".tab"), "wb") as f:
            table.tofile(f)
        # self-check of the reference on the valid prefixes: truncation at a stream boundary yields that many streams
        e = 0
        cum = 0
        for b, p in zip(blobs[:-1], pieces[:-1]):
            e += len(b)
            cum += p[2]
            k = table[e]
            got = open(os.path.join(out, "%s.res%d" % (path, k)), "rb").read() if k else None
            if got != P[:cum]:
                raise SystemExit("C09 gen self-check failed: reference on whole-stream prefix of " + fmt_pieces(pieces))
        bounds = set([0])
        e = 0
        for b in blobs:
            e += len(b)
            bounds.add(e)
        lenient += sum(1 for t in range(len(data)) if t not in bounds and table[t] != 0)
        sweep_lines.append("S\tsweep\t%s\t%s\t%s\t%s\t%s\t%d\t%s\t%d" % (
            kind, path, fmt_pieces(pieces), digest(P), ",".join(str(len(b)) for b in blobs), V, path + ".tab", len(res_id)))

    with open(os.path.join(out, "manifest.txt"), "w") as mf:
        # small things first (bounds are iterated smallest first): sweep files, align, lattice, ltrunc
        order = {"align": 1, "lattice": 2, "ltrunc": 3}
        mf.write("N\talign targets not reachable with an exact compressed length\t%d\t%s\n" % (missing, " ".join(unreachable[:40])))
        mf.write("N\tsweep truncations that are not at a stream boundary but for which the reference returned bytes\t%d\n" % lenient)
        for ln in sweep_lines:
            mf.write(ln + "\n")
        for fidx in sorted(lines_of, key=lambda i: (order[files[i][0]], i)):
            for ln in lines_of[fidx]:
                mf.write(ln + "\n")


def build_one(spec, out):
    """one file for `h09 --replay`: mut = '-' (F line) | 'T' (S line with V=0: every truncation) | m[,m...] (M lines)"""
    kind, pieces_s, mut = spec.split(";")
    pieces = parse_pieces(pieces_s)
    blobs = [compress_piece(kind, p) for p in pieces]
    data = b"".join(blobs)
    P = payload_of(pieces)
    if reference(kind, data) != ("B", P):
        raise SystemExit("C09 gen self-check failed: reference does not return the payload for " + spec)
    path = "one." + EXT[kind]
    with open(os.path.join(out, path), "wb") as f:
        f.write(data)
    head = "%s\t%s\t%s\t%s\t%s" % (kind, path, pieces_s, digest(P), ",".join(str(len(b)) for b in blobs))
    with open(os.path.join(out, "manifest.txt"), "w") as mf:
        if mut == "-":
            mf.write("F\tone\t" + head + "\n")
        elif mut == "T":
            _, _, codes, local = w_sweep((0, kind, data, 0, 0, len(data)))
            for k, v in enumerate(local):
                with open(os.path.join(out, "%s.res%d" % (path, k + 1)), "wb") as f:
                    f.write(v)
            table = array.array("H", codes)
            if sys.byteorder != "little":
                table.byteswap()
            with open(os.path.join(out, path + ".tab"), "wb") as f:
                table.tofile(f)
            mf.write("S\tone\t%s\t0\t%s\t%d\n" % (head, path + ".tab", len(local)))
        else:
            for k, m in enumerate(mut.split(",")):
                t, v = reference(kind, apply_mut(data, m))
                exp = "E"
                if t == "B":
                    exp = path + ".m%d" % k
                    with open(os.path.join(out, exp), "wb") as f:
                        f.write(v)
                mf.write("M\tone\t" + head + "\t" + m + "\t" + exp + "\n")


def main():
    ap = argparse.ArgumentParser()
    ap.add_argument("--tier", default="quick")
    ap.add_argument("--out", required=True)
    ap.add_argument("--one")
    ap.add_argument("--jobs", type=int, default=os.cpu_count() or 4)
    a = ap.parse_args()
    os.makedirs(a.out, exist_ok=True)
    if a.one:
        build_one(a.one, a.out)
    else:
        build_corpus(a.tier, a.out, a.jobs)


if __name__ == "__main__":
    main()
