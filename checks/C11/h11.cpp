// C11 - relation managers complete each relation exactly once with all its members.
//
// Explicit-state style enumeration of histories. A history is
//     (manager configuration, set of relations, interest predicates, member stream, feeding mode);
// it is replayed on a FRESH real manager (RelationsManager<TM,N,W,R> for all 7 flag combinations, or
// area::MultipolygonManager with a trivial assembler) and compared step by step (after every handler call,
// and inside every completion callback) with the set-based reference model `Hist` below.
//
// parts:   main     generic managers, all bounds of the tier (release lookups are probed only in the NDEBUG build)
//          mp       MultipolygonManager histories
//          release  small family, every (relation set, stream) in its own isolation rank, probing released ids
//                   (in a debug build the library may die in an assertion there - that is attributed to the probe)
//          long     deterministic long histories (> 10000 removals) that make ItemStash collect inside add_item
//
// Everything runs in forked children (benum::run_isolated); a death is attributed to the history that was running.
#include <benum/benum.hpp>

#include <osmium/area/multipolygon_manager.hpp>
#include <osmium/builder/osm_object_builder.hpp>
#include <osmium/memory/buffer.hpp>
#include <osmium/osm/object_comparisons.hpp>
#include <osmium/relations/relations_manager.hpp>
#include <osmium/visitor.hpp>

#include <algorithm>
#include <functional>
#include <map>
#include <memory>
#include <string>
#include <unordered_set>
#include <vector>

#include <new>
#if defined(__SANITIZE_ADDRESS__)
# include <sanitizer/asan_interface.h>
#else
# define ASAN_POISON_MEMORY_REGION(a, s) ((void)(a), (void)(s))
# define ASAN_UNPOISON_MEMORY_REGION(a, s) ((void)(a), (void)(s))
#endif

using benum::Args;
using osmium::memory::Buffer;

// ------------------------------------------------------------------------------------------------
// Every manager allocates two 1 MB buffers (stash, output). Under ASan each such allocation is an mmap/munmap pair
// plus fresh shadow pages (~0.5 ms per history). Large new[] blocks are therefore recycled: the block stays one live
// malloc chunk (its redzones keep catching overruns) and is poisoned while it sits in the pool (a stale pointer into
// a freed buffer is still reported, as use-after-poison). The library code is untouched by this.
namespace blockpool {
    constexpr std::size_t min_size = 512 * 1024;
    struct Slot { void* p; std::size_t size; bool used; };
    static Slot slots[24];
    // the small histories use only the first few kB of their buffers: poisoning that prefix is enough to catch a stale
    // pointer there and saves most of the shadow writes; the long histories poison whole blocks
    static std::size_t poison_extent = 64 * 1024;
    static std::size_t extent(std::size_t n) { return n < poison_extent ? n : poison_extent; }
}
void* operator new[](std::size_t n) {
    if (n >= blockpool::min_size) {
        for (auto& s : blockpool::slots) if (s.p && !s.used && s.size == n) { s.used = true; ASAN_UNPOISON_MEMORY_REGION(s.p, blockpool::extent(n)); return s.p; }
        for (auto& s : blockpool::slots) if (!s.p) { s.p = malloc(n); if (!s.p) throw std::bad_alloc{}; s.size = n; s.used = true; return s.p; }
    }
    void* p = malloc(n ? n : 1);
    if (!p) throw std::bad_alloc{};
    return p;
}
void operator delete[](void* p) noexcept {
    if (!p) return;
    for (auto& s : blockpool::slots) if (s.p == p && s.used) { s.used = false; ASAN_POISON_MEMORY_REGION(s.p, blockpool::extent(s.size)); return; }
    free(p);
}
void operator delete[](void* p, std::size_t) noexcept { operator delete[](p); }

#ifdef NDEBUG
static const bool NDEBUG_BUILD = true;
#else
static const bool NDEBUG_BUILD = false;
#endif

static benum::Counters C;       // coverage counters (shared memory, survive a dying child)
static benum::Counters FLAGS;   // not emitted: what the child is doing right now (for attributing a death)
static benum::Violations V;
static const char* const TN[3] = {"node", "way", "relation"};
static const osmium::item_type IT[3] = {osmium::item_type::node, osmium::item_type::way, osmium::item_type::relation};
static int tindex(osmium::item_type t) { return t == osmium::item_type::node ? 0 : t == osmium::item_type::way ? 1 : 2; }

// ================================================================================================
// input objects
struct Alphabet { int64_t id[3][3]; int64_t unrelated; };   // id[type][k]; relations have three ids (the relations of the set)
static const Alphabet ALPHA[2] = {
    {{{1, 2, 0}, {1, 2, 0}, {1, 2, 3}}, 5},
    {{{-1, (1LL << 40) + 1, 0}, {-2, -1, 0}, {-7, 1, 1LL << 35}}, 5},
};
// member reference r in 0..5: type r/2, id ALPHA.id[r/2][r%2]; role "x" for the first id of a type, "y" for the second
static int ref_type(int r) { return r / 2; }
static const char* ref_role(int r) { return (r % 2) ? "y" : "x"; }

static size_t build_node(Buffer& b, int64_t id) {
    {
        osmium::builder::NodeBuilder nb{b};
        nb.set_id(id).set_version(3).set_uid(7).set_location(osmium::Location{static_cast<int32_t>(id % 1000) * 1000, 4242});
        nb.set_user("u");
        osmium::builder::TagListBuilder tb{nb};
        tb.add_tag("n", std::to_string(id));
    }
    return b.commit();
}
static size_t build_way(Buffer& b, int64_t id, bool closed, size_t big_nodes = 0) {
    {
        osmium::builder::WayBuilder wb{b};
        wb.set_id(id).set_version(2).set_uid(9);
        wb.set_user("");
        {
            osmium::builder::TagListBuilder tb{wb};
            tb.add_tag("w", std::to_string(id));
            if (closed) tb.add_tag("area", "yes");
        }
        osmium::builder::WayNodeListBuilder nl{wb};
        if (closed) {
            nl.add_node_ref(osmium::NodeRef{100, osmium::Location{0, 0}});
            nl.add_node_ref(osmium::NodeRef{101, osmium::Location{10, 0}});
            nl.add_node_ref(osmium::NodeRef{102, osmium::Location{10, 10}});
            nl.add_node_ref(osmium::NodeRef{100, osmium::Location{0, 0}});
        } else if (big_nodes) {
            for (size_t i = 0; i < big_nodes; ++i) nl.add_node_ref(osmium::NodeRef{static_cast<int64_t>(i + 1)});
        } else {
            nl.add_node_ref(osmium::NodeRef{id * 10 + 1});
            nl.add_node_ref(osmium::NodeRef{id * 10 + 2});
        }
    }
    return b.commit();
}
struct MemberIn { int type; int64_t ref; const char* role; };
static size_t build_relation(Buffer& b, int64_t id, const char* tagk, const char* tagv, const std::vector<MemberIn>& ms) {
    {
        osmium::builder::RelationBuilder rb{b};
        rb.set_id(id).set_version(1).set_uid(3);
        rb.set_user("r");
        {
            osmium::builder::TagListBuilder tb{rb};
            if (tagk) tb.add_tag(tagk, tagv);
            tb.add_tag("rel", std::to_string(id));
        }
        osmium::builder::RelationMemberListBuilder mb{rb};
        for (const auto& m : ms) mb.add_member(IT[m.type], m.ref, m.role);
    }
    return b.commit();
}

// the ~830 kB item written into the output buffer in feed mode 'g' (exceeds the 800 kB flush threshold of CallbackBuffer)
static const osmium::Way& big_item() {
    static Buffer buf{2 * 1024 * 1024, Buffer::auto_grow::yes};
    static bool done = false;
    if (!done) { build_way(buf, 999999, false, 52000); done = true; }
    return buf.get<osmium::Way>(0);
}
static const int64_t BIG_ID = 999999;

// ================================================================================================
// reference model + oracle for ONE history
struct ObjM {
    int type; int64_t id;
    const osmium::OSMObject* in = nullptr;   // the input object (nullptr: never built, i.e. not in any stream)
    std::vector<int> needers;                // one entry per WANTED reference: index of the relation
    int pending = 0;                         // wanted references from relations not completed yet
    bool arrived = false;                    // accepted by the manager (type enabled and wanted by someone)
    bool area_way = false;
};
struct RelM {
    int64_t id; const osmium::Relation* in = nullptr;
    bool interest = false;
    std::vector<int> wanted;                 // per member position: object index if wanted, else -1
    int nwanted = 0, missing = 0, cb = 0;
    bool completed = false;
};

struct Hist {
    // ---- configuration
    char kind = 'G';            // 'G' generic RelationsManager, 'M' MultipolygonManager
    int flags = 7;              // bit0 nodes, bit1 ways, bit2 relations
    char relpred = 'a';         // 'a' all relations, 't' only relations tagged keep=yes, 'm' the multipolygon rule
    char mempred = 'a';         // 'a' all, 'w' ways only, 'r' role "x" only, 'p' even positions only
    char feed = 'b';            // 'b' apply(whole buffer)+callback, 'n' same without callback then read(),
                                // 'i' apply() per item (flush after every object), 'g' like 'b' with > 800 kB written per completion
    bool probe_released = false;
    bool light = false;         // long histories: sampled probes, full checks at intervals
    std::string spec;
    std::function<std::string()> textfn;
    std::string text() const { return textfn ? textfn() : std::string(); }
    uint64_t hseed = 0;         // identifies (configuration, relation set): part of the canonical state

    // ---- model state
    std::vector<RelM> rels;     // pass-1 order
    std::vector<ObjM> objs;
    std::map<std::pair<int, int64_t>, int> obj_by_id;
    std::map<int64_t, int> rel_by_id;
    std::vector<int> stream;    // object indices in CheckOrder-sorted order
    std::vector<std::pair<int, int64_t>> probes;
    int64_t live_objs = 0, incomplete_rels = 0, interest_rels = 0;
    size_t tracked_refs[3] = {0, 0, 0};

    // ---- step state
    osmium::relations::RelationsManagerBase* base = nullptr;
    int cur = -1; bool cur_enabled = false, seen_before = false, seen_after = false, seen_nia = false;
    std::vector<int> expectC;
    int pending_finish = -1;
    size_t cursor = 0, steps_begun = 0, committed_at_begin = 0;
    int p1_rel = -1; size_t p1_member = 0;     // pass 1: relation being offered / next member position expected
    std::vector<int64_t> completed_order, out_ids;
    size_t out_callbacks = 0, area_calls = 0;
    bool failed = false;
    std::set<std::string> keys_reported;
    std::unordered_set<uint64_t>* states = nullptr;
    uint64_t n_released_probes = 0, n_live_probes = 0, gc_runs = 0, open_zero = 0;

    bool enabled(int type) const { return (flags >> type) & 1; }

    void fail(const std::string& key, const std::string& detail) {
        failed = true;
        if (!keys_reported.insert(key).second) return;
        V.report(key, detail + " | history: " + text(), spec);
    }

    // ---------------------------------------------------------------- building the model from the inputs
    int obj_index(int type, int64_t id) {
        auto it = obj_by_id.find({type, id});
        if (it != obj_by_id.end()) return it->second;
        ObjM o; o.type = type; o.id = id;
        objs.push_back(o);
        obj_by_id[{type, id}] = static_cast<int>(objs.size()) - 1;
        return static_cast<int>(objs.size()) - 1;
    }
    // the interest predicates are inputs of the history: the manager under test calls them through its
    // new_relation()/new_member() overrides, the model evaluates them on the input data
    bool pred_relation(const osmium::Relation& r) const {
        if (relpred == 'a') return true;
        if (relpred == 't') return r.tags().has_tag("keep", "yes");
        // 'm': MultipolygonManager::new_relation as documented: type=multipolygon|boundary and at least one way member
        const char* t = r.tags().get_value_by_key("type");
        if (!t || (strcmp(t, "multipolygon") && strcmp(t, "boundary"))) return false;
        for (const auto& m : r.members()) if (m.type() == osmium::item_type::way) return true;
        return false;
    }
    bool pred_member(osmium::item_type type, const char* role, size_t n) const {
        switch (mempred) {
            case 'w': return type == osmium::item_type::way;
            case 'r': return !strcmp(role, "x");
            case 'p': return n % 2 == 0;
            default: return true;
        }
    }
    void add_relation_input(const osmium::Relation& r) {
        RelM m; m.id = r.id(); m.in = &r;
        m.interest = pred_relation(r);
        size_t n = 0;
        for (const auto& mem : r.members()) {
            const int t = tindex(mem.type());
            const int oi = obj_index(t, mem.ref());
            const bool w = m.interest && enabled(t) && pred_member(mem.type(), mem.role(), n);
            m.wanted.push_back(w ? oi : -1);
            if (w) { ++m.nwanted; objs[oi].needers.push_back(static_cast<int>(rels.size())); ++objs[oi].pending; ++tracked_refs[t]; }
            ++n;
        }
        m.missing = m.nwanted;
        rel_by_id[m.id] = static_cast<int>(rels.size());
        rels.push_back(m);
    }
    void add_stream_object(const osmium::OSMObject& o) {
        const int oi = obj_index(tindex(o.type()), o.id());
        objs[oi].in = &o;
        stream.push_back(oi);
    }
    void sort_stream() {
        std::sort(stream.begin(), stream.end(), [&](int a, int b) {
            if (objs[a].type != objs[b].type) return objs[a].type < objs[b].type;
            return osmium::id_order{}(objs[a].id, objs[b].id);
        });
    }

    // ---------------------------------------------------------------- classes for keys
    std::string rel_class(int ri) const {
        const RelM& r = rels[ri];
        bool dup = false, shared = false, self = false;
        for (size_t a = 0; a < r.wanted.size(); ++a) {
            if (r.wanted[a] < 0) continue;
            const ObjM& o = objs[r.wanted[a]];
            if (o.type == 2 && o.id == r.id) self = true;
            for (size_t b = a + 1; b < r.wanted.size(); ++b) if (r.wanted[b] == r.wanted[a]) dup = true;
            for (int n : o.needers) if (n != ri) shared = true;
        }
        std::string s;
        if (self) s += "self-ref+";
        if (dup) s += "dup-member+";
        if (shared) s += "shared-member+";
        if (s.empty()) return "plain";
        s.pop_back();
        return s;
    }
    std::string obj_class(const ObjM& o) const {
        std::set<int> rs(o.needers.begin(), o.needers.end());
        std::string s = TN[o.type];
        if (rs.size() > 1) s += "/shared";
        else if (o.needers.size() > 1) s += "/dup";
        else s += "/single";
        return s;
    }
    std::string mk() const { return std::string(1, kind); }

    // ---------------------------------------------------------------- lookups
    const osmium::OSMObject* lookup(int type, int64_t id) const {
        switch (type) {
            case 0: return base->get_member_node(id);
            case 1: return base->get_member_way(id);
            default: return base->get_member_relation(id);
        }
    }
    static bool same_bytes(const osmium::OSMObject* got, const osmium::OSMObject* in) {
        return got->byte_size() == in->byte_size() && !memcmp(reinterpret_cast<const void*>(got), reinterpret_cast<const void*>(in), in->byte_size());
    }
    // model: what a lookup of (type,id) must give right now
    //   unknown / not wanted by anyone / not arrived yet -> absent
    //   arrived and still wanted by a relation that has not completed -> the input object
    //   arrived and every relation that wanted it has completed -> released -> absent ("like any unknown id")
    void probe(int type, int64_t id, const char* where) {
        auto it = obj_by_id.find({type, id});
        const ObjM* o = it == obj_by_id.end() ? nullptr : &objs[it->second];
        if (id == 0 || !o || !o->arrived) {
            const auto* p = lookup(type, id);
            if (p) fail("lookup/absent-id-present/" + std::string(!o || o->needers.empty() ? "unknown" : "not-arrived") + "/" + mk(),
                        std::string("get_member_") + TN[type] + "(" + std::to_string(id) + ") " + where + " is non-null although the object " + (!o || o->needers.empty() ? "is not wanted by any relation" : "has not arrived"));
            return;
        }
        if (o->pending > 0) {
            ++n_live_probes;
            const auto* p = lookup(type, id);
            if (!p) { fail("lookup/live-member-absent/" + obj_class(*o) + "/" + mk(), std::string("get_member_") + TN[type] + "(" + std::to_string(id) + ") " + where + " is null although " + std::to_string(o->pending) + " reference(s) of incomplete relations still need the object"); return; }
            if (!same_bytes(p, o->in)) fail("lookup/live-member-differs/" + obj_class(*o) + "/" + mk(), std::string("get_member_") + TN[type] + "(" + std::to_string(id) + ") " + where + " differs from the input object (got id " + std::to_string(p->id()) + ", " + std::to_string(p->byte_size()) + " bytes)");
            return;
        }
        if (!probe_released) return;
        ++n_released_probes;
        FLAGS["in_release_probe"] = 1;
        const auto* p = lookup(type, id);
        FLAGS["in_release_probe"] = 0;
        static const std::string rkey = std::string("lookup-after-release/non-null/") + (NDEBUG_BUILD ? "ndebug" : "debug");
        if (p && keys_reported.count(rkey)) { failed = true; return; }   // already reported for this history (hot while the defect exists)
        if (p) fail(rkey,
                    std::string("get_member_") + TN[type] + "(" + std::to_string(id) + ") " + where + " returns a non-null pointer although every relation that wanted the object has completed and it was released from the stash (an unknown id gives nullptr)");
    }
    void probe_all(const char* where) {
        if (!light) { for (const auto& p : probes) probe(p.first, p.second, where); return; }
        // long histories: deterministic picks
        static uint64_t lcg = 12345;
        for (int k = 0; k < 3 && !objs.empty(); ++k) {
            lcg = lcg * 6364136223846793005ull + 1442695040888963407ull;
            const ObjM& o = objs[(lcg >> 33) % objs.size()];
            probe(o.type, o.id, where);
        }
    }
    void probe_everything(const char* where) { for (size_t i = 0; i < objs.size(); ++i) probe(objs[i].type, objs[i].id, where); }

    // ---------------------------------------------------------------- canonical state of the real manager
    uint64_t state_hash() const {
        uint64_t h = 1469598103934665603ull ^ hseed;
        auto mix = [&](uint64_t v) { h ^= v + 0x9e3779b97f4a7c15ull + (h << 6) + (h >> 2); h *= 1099511628211ull; };
        for (const auto& e : base->m_relations_db.m_elements) { mix(e.handle.value); mix(e.members); }
        const osmium::relations::MembersDatabaseCommon* dbs[3] = {&base->m_member_nodes_db, &base->m_member_ways_db, &base->m_member_relations_db};
        for (const auto* db : dbs) {
            mix(db->m_elements.size());
            for (const auto& e : db->m_elements) { mix(static_cast<uint64_t>(e.member_id)); mix(e.member_num); mix(e.relation_pos); mix(e.object_handle.value); }
        }
        mix(base->m_stash.m_count_items); mix(base->m_stash.m_count_removed); mix(base->m_stash.m_buffer.committed());
        for (size_t off : base->m_stash.m_index) mix(off);
        const auto um = base->used_memory();
        mix(um.relations_db); mix(um.members_db); mix(um.stash);
        return h;
    }
    void note_state() { ++C["state_visits"]; if (states) states->insert(state_hash()); }

    // ---------------------------------------------------------------- counts that must agree in every settled state
    void check_counts(const char* where) {
        size_t tr[3] = {0, 0, 0}, av[3] = {0, 0, 0};
        for (const auto& o : objs) { if (!o.arrived) tr[o.type] += o.needers.size(); else av[o.type] += static_cast<size_t>(std::max(0, o.pending)); }
        for (int t = 0; t < 3; ++t) {
            const auto c = base->member_database(IT[t]).count();
            const size_t rm = tracked_refs[t] - tr[t] - av[t];
            if (base->member_database(IT[t]).size() != tracked_refs[t] || c.tracked != tr[t] || c.available != av[t] || c.removed != rm)
                fail(std::string("counts/members-db/") + TN[t] + "/" + mk(), std::string(where) + ": member " + TN[t] + " database has size/tracked/available/removed " + std::to_string(base->member_database(IT[t]).size()) + "/" + std::to_string(c.tracked) + "/" + std::to_string(c.available) + "/" + std::to_string(c.removed) + ", model " + std::to_string(tracked_refs[t]) + "/" + std::to_string(tr[t]) + "/" + std::to_string(av[t]) + "/" + std::to_string(rm));
        }
        const size_t cr = base->relations_database().count_relations();
        if (cr != static_cast<size_t>(incomplete_rels) || base->relations_database().size() != static_cast<size_t>(interest_rels))
            fail("counts/relations-db/" + mk(), std::string(where) + ": relations database holds " + std::to_string(cr) + " of " + std::to_string(base->relations_database().size()) + " relations, model " + std::to_string(incomplete_rels) + " of " + std::to_string(interest_rels));
    }
    void check_stash(const char* where) {
        const size_t sz = base->m_stash.size();
        const size_t want = static_cast<size_t>(incomplete_rels + live_objs);
        if (sz != want)
            fail(std::string("counts/stash-size/") + (sz > want ? "not-released" : "released-too-much") + "/" + mk(), std::string(where) + ": the stash holds " + std::to_string(sz) + " items, model: " + std::to_string(incomplete_rels) + " incomplete relations + " + std::to_string(live_objs) + " members still needed");
    }
    void check_settled(const char* where, bool full) {
        check_stash(where);
        if (full) { check_counts(where); if (light) probe_everything(where); note_state(); }
        probe_all(where);
    }

    // ---------------------------------------------------------------- pass 1 callbacks
    bool on_new_relation(const osmium::Relation& r) {
        auto it = rel_by_id.find(r.id());
        if (it == rel_by_id.end() || !same_bytes(&r, rels[it->second].in)) { fail("pass1/new_relation-argument/" + mk(), "new_relation() called with a relation that is not the input relation"); return false; }
        p1_rel = it->second; p1_member = 0;
        return pred_relation(r);
    }
    bool on_new_member(const osmium::Relation& r, const osmium::RelationMember& m, size_t n) {
        // positions of disabled types are skipped by the manager; n must be the position in the input relation
        const RelM* rm = p1_rel >= 0 ? &rels[p1_rel] : nullptr;
        bool ok = rm && r.id() == rm->id && n < rm->wanted.size() && n >= p1_member;
        if (ok) {
            auto it = rm->in->members().begin(); std::advance(it, n);
            ok = it->type() == m.type() && it->ref() == m.ref() && !strcmp(it->role(), m.role()) && enabled(tindex(m.type()));
        }
        if (!ok) fail("pass1/new_member-argument/" + mk(), "new_member() called with relation " + std::to_string(r.id()) + " member " + std::to_string(n) + " (" + TN[tindex(m.type())] + " " + std::to_string(m.ref()) + "): not the member at that position of the input relation, or of a disabled type, or out of order");
        p1_member = n + 1;
        return pred_member(m.type(), m.role(), n);
    }

    // ---------------------------------------------------------------- pass 2: steps
    void finish_pending() {
        if (pending_finish < 0) return;
        RelM& r = rels[pending_finish];
        pending_finish = -1;
        r.completed = true; --incomplete_rels;
        // the manager releases the members of a completed relation: every wanted reference is given back
        for (int oi : r.wanted) if (oi >= 0 && --objs[oi].pending == 0 && objs[oi].arrived) --live_objs;
    }
    void begin_step(size_t k) {
        finish_pending();
        cur = stream[k]; cursor = k + 1; ++steps_begun;
        committed_at_begin = base->m_stash.m_buffer.committed();
        ObjM& o = objs[cur];
        cur_enabled = enabled(o.type);
        seen_before = seen_after = seen_nia = false;
        expectC.clear();
        ++C["transitions"];
        if (cur_enabled && !o.needers.empty()) {
            o.arrived = true;
            if (o.pending > 0) ++live_objs;
            // a relation completes at this step iff this object satisfies its last missing wanted reference
            for (int ri : o.needers) if (--rels[ri].missing == 0) expectC.push_back(ri);
        }
    }
    void end_step() {
        finish_pending();
        const ObjM& o = objs[cur];
        for (int ri : expectC) if (rels[ri].cb == 0)
            fail("complete/not-called/" + rel_class(ri) + "/" + mk(), "relation " + std::to_string(rels[ri].id) + " got its last wanted member with " + TN[o.type] + " " + std::to_string(o.id) + " but complete_relation() was not called");
        if (kind == 'G' && cur_enabled) {
            if (!seen_before || !seen_after) fail(std::string("hooks/before-after-missing/") + TN[o.type], std::string("before_/after_ callback missing for ") + TN[o.type] + " " + std::to_string(o.id));
            if (o.needers.empty() && !seen_nia) fail(std::string("not-in-any/not-reported/") + TN[o.type], std::string(TN[o.type]) + " " + std::to_string(o.id) + " is wanted by no relation but " + TN[o.type] + "_not_in_any_relation() was not called");
            if (!o.needers.empty() && seen_nia) fail(std::string("not-in-any/reported-for-member/") + TN[o.type], std::string(TN[o.type]) + " " + std::to_string(o.id) + " is a wanted member but " + TN[o.type] + "_not_in_any_relation() was called");
        }
        if (!cur_enabled && (seen_before || seen_after || seen_nia)) ++C["open_callbacks_for_disabled_type"];
        // the stash buffer only ever shrinks when the stash collected garbage (inside add_item of this step)
        const bool gc = base->m_stash.m_buffer.committed() < committed_at_begin;
        if (gc) { ++gc_runs; ++C["stash_gc_runs"]; }
        check_settled(gc ? "right after a stash garbage collection" : "after the step", !light || gc || (steps_begun & 4095) == 0);
        cur = -1;
    }
    // in whole-buffer feeding the steps are delimited by the manager's own before_/after_ callbacks
    void on_before(int type, int64_t id) {
        if (feed != 'i') {
            finish_pending();
            if (cur >= 0) { fail("hooks/step-not-closed", "before_ callback while the previous object had no after_ callback"); end_step(); }
            size_t k = cursor;
            while (k < stream.size() && !enabled(objs[stream[k]].type)) { begin_step(k); end_step(); ++k; }   // objects of disabled types: silent steps
            if (k >= stream.size() || objs[stream[k]].type != type || objs[stream[k]].id != id) { fail("hooks/unexpected-object", std::string("before_ callback for ") + TN[type] + " " + std::to_string(id) + " which is not the next object of the stream"); return; }
            begin_step(k);
        } else if (cur < 0 || objs[cur].type != type || objs[cur].id != id) { fail("hooks/unexpected-object", std::string("before_ callback for ") + TN[type] + " " + std::to_string(id) + " outside its step"); return; }
        if (seen_before) fail("hooks/before-twice", "before_ callback twice");
        seen_before = true;
    }
    void on_after(int type, int64_t id) {
        finish_pending();
        if (cur < 0 || objs[cur].type != type || objs[cur].id != id) { fail("hooks/unexpected-object", std::string("after_ callback for ") + TN[type] + " " + std::to_string(id) + " outside its step"); return; }
        if (seen_after) fail("hooks/after-twice", "after_ callback twice");
        seen_after = true;
        if (feed != 'i') end_step();
    }
    void on_nia(int type, int64_t id) {
        finish_pending();
        if (cur < 0 || objs[cur].type != type || objs[cur].id != id) { fail("hooks/unexpected-object", std::string("_not_in_any_relation callback for ") + TN[type] + " " + std::to_string(id) + " outside its step"); return; }
        if (seen_nia) fail(std::string("not-in-any/twice/") + TN[type], "_not_in_any_relation called twice for one object");
        if (seen_after) fail("hooks/order", "_not_in_any_relation after after_");
        seen_nia = true;
    }

    // completion callback (complete_relation of the generic manager / the assembler call of the multipolygon manager)
    void on_complete(const osmium::Relation& rel, Buffer& out, const std::vector<const osmium::Way*>* mp_ways) {
        finish_pending();
        auto it = rel_by_id.find(rel.id());
        if (it == rel_by_id.end()) { fail("complete/unknown-relation/" + mk(), "complete_relation() called with relation id " + std::to_string(rel.id()) + " that is not in the input"); return; }
        const int ri = it->second;
        RelM& r = rels[ri];
        const std::string at = cur >= 0 ? std::string(" (while handling ") + TN[objs[cur].type] + " " + std::to_string(objs[cur].id) + ")" : std::string(" (outside any member step)");
        completed_order.push_back(rel.id());
        bool as_expected = false;
        if (!r.interest) fail("complete/not-of-interest/" + mk(), "relation " + std::to_string(r.id) + " was rejected by new_relation() but completed" + at);
        else if (r.cb > 0 || r.completed) fail("complete/twice/" + rel_class(ri) + "/" + mk(), "relation " + std::to_string(r.id) + " completed a second time" + at);
        else if (r.nwanted == 0) { ++open_zero; ++C["open_zero_wanted_completed"]; }   // statement leaves relations without wanted members open
        else if (r.missing > 0) fail("complete/early/" + rel_class(ri) + "/" + mk(), "relation " + std::to_string(r.id) + " completed" + at + " while " + std::to_string(r.missing) + " wanted member reference(s) have not arrived");
        else if (std::find(expectC.begin(), expectC.end(), ri) == expectC.end()) fail("complete/late/" + rel_class(ri) + "/" + mk(), "relation " + std::to_string(r.id) + " completed" + at + " but its last wanted member arrived in an earlier step");
        else as_expected = true;
        const bool first = r.cb == 0;
        ++r.cb;
        if (!first) return;
        // the relation handed over is the input relation; members that are not wanted have ref 0, wanted ones keep their ref
        {
            bool same = rel.byte_size() == r.in->byte_size() && rel.members().size() == r.in->members().size();
            if (same) {
                std::unique_ptr<unsigned char[]> tmp{new unsigned char[r.in->byte_size() + 8]};
                unsigned char* al = tmp.get() + ((8 - reinterpret_cast<uintptr_t>(tmp.get()) % 8) % 8);
                memcpy(al, reinterpret_cast<const void*>(r.in), r.in->byte_size());
                auto& cp = *reinterpret_cast<osmium::Relation*>(al);
                size_t n = 0; bool marks = true;
                auto mi = rel.members().begin();
                for (auto& m : cp.members()) {
                    if (r.wanted[n] < 0) m.set_ref(0);
                    if ((mi->ref() != 0) != (r.wanted[n] >= 0)) marks = false;
                    ++n; ++mi;
                }
                if (!marks) fail("complete/wanted-marks/" + mk(), "relation " + std::to_string(r.id) + " handed to complete_relation(): the members with ref != 0 are not exactly the wanted members");
                else if (memcmp(al, reinterpret_cast<const void*>(&rel), r.in->byte_size())) same = false;
            }
            if (!same) fail("complete/relation-differs/" + mk(), "relation " + std::to_string(r.id) + " handed to complete_relation() differs from the input relation (beyond the zeroed refs of unwanted members)");
        }
        // every wanted member is retrievable and identical to the input object
        if (as_expected) {
            size_t n = 0, wn = 0;
            for (const auto& m : rel.members()) {
                if (n >= r.wanted.size()) break;
                const int oi = r.wanted[n++];
                const auto* p = base->get_member_object(m);
                if (oi < 0) { if (p && m.ref() == 0) fail("complete/unwanted-member-present/" + mk(), "get_member_object() of an unwanted member is non-null"); continue; }
                const ObjM& o = objs[oi];
                const auto* q = lookup(o.type, o.id);
                if (!p || !q) fail(std::string("complete/member-unavailable/") + obj_class(o) + "/" + mk(), "inside complete_relation(" + std::to_string(r.id) + ")" + at + ": wanted member " + TN[o.type] + " " + std::to_string(o.id) + " is not retrievable (get_member_object " + (p ? "ok" : "null") + ", get_member_" + TN[o.type] + " " + (q ? "ok" : "null") + ")");
                else if (p != q || !same_bytes(p, o.in)) fail(std::string("complete/member-differs/") + obj_class(o) + "/" + mk(), "inside complete_relation(" + std::to_string(r.id) + "): wanted member " + TN[o.type] + " " + std::to_string(o.id) + " differs from the input object");
                if (mp_ways) {
                    if (wn >= mp_ways->size() || (*mp_ways)[wn] != q) fail("complete/assembler-ways/M", "the way list given to the assembler is not the list of wanted member ways in member order");
                    ++wn;
                }
            }
            if (mp_ways && wn != mp_ways->size()) fail("complete/assembler-ways/M", "the way list given to the assembler has " + std::to_string(mp_ways->size()) + " entries, " + std::to_string(wn) + " wanted way members");
            probe_all("inside complete_relation()");
        }
        // output marker: a copy of the relation (plus > 800 kB in feed mode 'g')
        out.add_item(rel); out.commit();
        if (feed == 'g') { out.add_item(big_item()); out.commit(); }
        pending_finish = ri;
    }
    void on_output(Buffer&& b) {
        ++out_callbacks;
        if (!b || b.committed() == 0) fail("output/empty-buffer-flushed/" + mk(), "the output callback was called with an empty buffer");
        else for (const auto& item : b) {
            if (item.type() == osmium::item_type::relation) out_ids.push_back(static_cast<const osmium::Relation&>(item).id());
        }
    }

    // ---------------------------------------------------------------- running the history on a real manager
    template <class M>
    void run(M& mgr, const Buffer& relbuf, const Buffer& streambuf) {
        base = &mgr;
        // pass 1, one relation at a time
        size_t nrel = 0;
        for (auto it = relbuf.begin(); it != relbuf.end();) {
            auto nx = std::next(it);
            p1_rel = -1;
            osmium::apply(it, nx, mgr);
            ++C["transitions"];
            const RelM& r = rels[nrel++];
            if (r.interest) { ++interest_rels; ++incomplete_rels; }
            if (mgr.relations_database().size() != static_cast<size_t>(interest_rels) || base->m_stash.size() != static_cast<size_t>(interest_rels))
                fail("pass1/relations-kept/" + mk(), "after relation " + std::to_string(r.id) + ": relations database has " + std::to_string(mgr.relations_database().size()) + " entries, model " + std::to_string(interest_rels));
            if (!light || nrel == rels.size()) note_state();
            it = nx;
        }
        for (int t = 0; t < 3; ++t) if (mgr.member_database(IT[t]).size() != tracked_refs[t])
            fail(std::string("pass1/members-tracked/") + TN[t] + "/" + mk(), std::string("member ") + TN[t] + " database tracks " + std::to_string(mgr.member_database(IT[t]).size()) + " references, model " + std::to_string(tracked_refs[t]));
        mgr.prepare_for_lookup();
        ++C["transitions"];
        check_settled("after prepare_for_lookup()", true);
        // pass 2
        std::function<void(Buffer&&)> cb;
        if (feed != 'n') cb = [this](Buffer&& b) { on_output(std::move(b)); };
        auto& handler = mgr.handler(cb);
        if (feed == 'i') {
            size_t k = 0;
            for (auto it = streambuf.begin(); it != streambuf.end(); ++k) {
                auto nx = std::next(it);
                begin_step(k);
                osmium::apply(it, nx, handler);
                end_step();
                it = nx;
            }
        } else {
            osmium::apply(streambuf, handler);
            finish_pending();
            if (cur >= 0) { fail("hooks/step-not-closed", "no after_ callback for the last object"); end_step(); }
            for (size_t k = cursor; k < stream.size(); ++k) {
                if (enabled(objs[stream[k]].type)) { fail(std::string("hooks/object-not-handled/") + TN[objs[stream[k]].type], std::string("no before_ callback for ") + TN[objs[stream[k]].type] + " " + std::to_string(objs[stream[k]].id)); break; }
                begin_step(k); end_step();
            }
        }
        finish_pending();
        // output: every completion wrote one marker; all of them must come out, once, in order
        if (feed == 'n') {
            Buffer rest = mgr.read();
            if (rest) for (const auto& item : rest) if (item.type() == osmium::item_type::relation) out_ids.push_back(static_cast<const osmium::Relation&>(item).id());
        } else if (mgr.buffer().committed() != 0) {
            fail("output/not-flushed/" + mk(), "after the final flush the output buffer still holds " + std::to_string(mgr.buffer().committed()) + " bytes");
        }
        if (out_ids != completed_order) {
            std::vector<int64_t> a = out_ids, b = completed_order; std::sort(a.begin(), a.end()); std::sort(b.begin(), b.end());
            fail(std::string("output/") + (a == b ? "order" : a.size() < b.size() ? "lost" : "duplicated-or-foreign") + "/" + mk(), "the output delivered " + std::to_string(out_ids.size()) + " relation markers, " + std::to_string(completed_order.size()) + " were written by the completion callback");
        }
        check_settled("at the end", true);
        final_checks(mgr);
    }
    template <class M>
    void final_checks(M& mgr) {
        // relations with a missing wanted member were never completed and are exactly the incomplete ones
        std::vector<int64_t> got;
        mgr.for_each_incomplete_relation([&](const osmium::relations::RelationHandle& h) {
            got.push_back(h->id());
            auto it = rel_by_id.find(h->id());
            if (it == rel_by_id.end()) return;
            const RelM& r = rels[it->second];
            if (light && (got.size() & 255)) return;
            size_t n = 0;
            for (const auto& m : h->members()) {
                if (n >= r.wanted.size()) break;
                const int oi = r.wanted[n++];
                const auto* p = base->get_member_object(m);
                if ((m.ref() != 0) != (oi >= 0)) { fail("incomplete/wanted-marks/" + mk(), "incomplete relation " + std::to_string(r.id) + ": members with ref != 0 are not exactly the wanted members"); continue; }
                if (oi < 0) continue;
                const ObjM& o = objs[oi];
                if (o.arrived && (!p || !same_bytes(p, o.in))) fail(std::string("incomplete/arrived-member-unavailable/") + obj_class(o) + "/" + mk(), "incomplete relation " + std::to_string(r.id) + ": member " + TN[o.type] + " " + std::to_string(o.id) + " arrived but is " + (p ? "different from the input" : "not retrievable"));
                if (!o.arrived && p) fail(std::string("incomplete/missing-member-present/") + TN[o.type] + "/" + mk(), "incomplete relation " + std::to_string(r.id) + ": member " + TN[o.type] + " " + std::to_string(o.id) + " never arrived but get_member_object() is non-null");
            }
        });
        std::vector<int64_t> want, open;
        for (const auto& r : rels) {
            if (!r.interest) continue;
            if (r.nwanted == 0) { open.push_back(r.id); continue; }   // open: listed or not
            if (r.missing > 0) want.push_back(r.id);
        }
        std::vector<int64_t> g2;
        for (int64_t id : got) if (std::find(open.begin(), open.end(), id) == open.end()) g2.push_back(id); else ++C["open_zero_wanted_listed_incomplete"];
        std::sort(g2.begin(), g2.end()); std::sort(want.begin(), want.end());
        if (g2 != want) {
            std::string a, b; for (auto i : g2) a += " " + std::to_string(i); for (auto i : want) b += " " + std::to_string(i);
            if (a.size() > 200) a = a.substr(0, 200) + "..."; if (b.size() > 200) b = b.substr(0, 200) + "...";
            fail(std::string("incomplete/list-mismatch/") + (g2.size() < want.size() ? "missing" : g2.size() > want.size() ? "extra" : "other") + "/" + mk(), "for_each_incomplete_relation() lists {" + a + " }, relations with a missing wanted member: {" + b + " }");
        }
        for (size_t i = 0; i < rels.size(); ++i) {
            const RelM& r = rels[i];
            if (r.interest && r.nwanted > 0 && r.missing == 0 && r.cb == 0) fail("complete/never/" + rel_class(static_cast<int>(i)) + "/" + mk(), "relation " + std::to_string(r.id) + ": all wanted members occurred in the stream but it was never completed");
        }
    }
};

static Hist* G = nullptr;

// ================================================================================================
// managers under test
template <bool N, bool W, bool R>
struct TM : public osmium::relations::RelationsManager<TM<N, W, R>, N, W, R, true> {
    bool new_relation(const osmium::Relation& r) { return G->on_new_relation(r); }
    bool new_member(const osmium::Relation& r, const osmium::RelationMember& m, std::size_t n) { return G->on_new_member(r, m, n); }
    void complete_relation(const osmium::Relation& r) { G->on_complete(r, this->buffer(), nullptr); }
    void before_node(const osmium::Node& o) { G->on_before(0, o.id()); }
    void node_not_in_any_relation(const osmium::Node& o) { G->on_nia(0, o.id()); }
    void after_node(const osmium::Node& o) { G->on_after(0, o.id()); }
    void before_way(const osmium::Way& o) { G->on_before(1, o.id()); }
    void way_not_in_any_relation(const osmium::Way& o) { G->on_nia(1, o.id()); }
    void after_way(const osmium::Way& o) { G->on_after(1, o.id()); }
    void before_relation(const osmium::Relation& o) { G->on_before(2, o.id()); }
    void relation_not_in_any_relation(const osmium::Relation& o) { G->on_nia(2, o.id()); }
    void after_relation(const osmium::Relation& o) { G->on_after(2, o.id()); }
};

// the assembler is the only observation point inside MultipolygonManager::complete_relation()
struct TrivAssembler {
    struct config_type { int unused = 0; };
    explicit TrivAssembler(const config_type&) {}
    // After the observation every relation with an odd id makes the assembler fail the way a real one does on a way node without a
    // location: MultipolygonManager swallows osmium::invalid_location, and whatever it keeps between two complete_relation() calls
    // must not leak from the failed relation into the next one.
    bool operator()(const osmium::Relation& rel, const std::vector<const osmium::Way*>& ways, Buffer& out) {
        G->on_complete(rel, out, &ways);
        if (rel.id() % 2 != 0) throw osmium::invalid_location{"assembler: way node without location (injected by the harness)"};
        return true;
    }
    bool operator()(const osmium::Way&, Buffer&) { ++G->area_calls; return true; }
    const osmium::area::area_stats& stats() const { static const osmium::area::area_stats s{}; return s; }
};
using MPM = osmium::area::MultipolygonManager<TrivAssembler>;

static void run_on_manager(Hist& h, const Buffer& relbuf, const Buffer& streambuf) {
    G = &h;
    try {
        if (h.kind == 'M') { MPM m{TrivAssembler::config_type{}}; h.run(m, relbuf, streambuf); }
        else switch (h.flags) {
            case 1: { TM<true, false, false> m; h.run(m, relbuf, streambuf); break; }
            case 2: { TM<false, true, false> m; h.run(m, relbuf, streambuf); break; }
            case 3: { TM<true, true, false> m; h.run(m, relbuf, streambuf); break; }
            case 4: { TM<false, false, true> m; h.run(m, relbuf, streambuf); break; }
            case 5: { TM<true, false, true> m; h.run(m, relbuf, streambuf); break; }
            case 6: { TM<false, true, true> m; h.run(m, relbuf, streambuf); break; }
            default: { TM<true, true, true> m; h.run(m, relbuf, streambuf); break; }
        }
    } catch (const std::exception& e) {
        h.fail(std::string("exception/") + (dynamic_cast<const osmium::out_of_order_error*>(&e) ? "out_of_order_error" : "other") + "/" + h.mk(), std::string("unexpected exception: ") + e.what());
    }
    G = nullptr;
}

// ================================================================================================
// small histories: one "outer" case = configuration + relation set; inner loop = every stream subset
struct Outer {
    char kind = 'G'; int flags = 7; char relpred = 'a'; char mempred = 'a'; char feed = 'b'; int alpha = 0;
    std::vector<std::string> rels;   // per relation: first char = tag class, then member refs '0'..'5'
                                     // tag class generic: 'T' keep=yes, 'U' untagged; multipolygon: 'm' 'b' 'r'(route) 'n'(no type tag)
    std::string str() const {
        std::string s; s += kind; s += ':'; s += static_cast<char>('0' + flags); s += ':'; s += relpred; s += ':'; s += mempred; s += ':'; s += feed; s += ':'; s += static_cast<char>('0' + alpha); s += ':';
        for (size_t i = 0; i < rels.size(); ++i) { if (i) s += '.'; s += rels[i]; }
        return s;
    }
};
static std::vector<std::string> split(const std::string& s, char d) { std::vector<std::string> v; size_t st = 0; for (;;) { size_t e = s.find(d, st); v.push_back(s.substr(st, e == std::string::npos ? e : e - st)); if (e == std::string::npos) break; st = e + 1; } return v; }
static bool parse_outer(const std::vector<std::string>& f, Outer& o) {
    if (f.size() < 7 || f[0].size() != 1 || f[1].size() != 1 || f[2].size() != 1 || f[3].size() != 1 || f[4].size() != 1 || f[5].size() != 1) return false;
    o.kind = f[0][0]; o.flags = f[1][0] - '0'; o.relpred = f[2][0]; o.mempred = f[3][0]; o.feed = f[4][0]; o.alpha = f[5][0] - '0';
    o.rels = split(f[6], '.');
    if (o.flags < 1 || o.flags > 7 || o.alpha < 0 || o.alpha > 1 || o.rels.empty() || o.rels.size() > 3) return false;
    for (const auto& r : o.rels) { if (r.empty()) return false; for (size_t i = 1; i < r.size(); ++i) if (r[i] < '0' || r[i] > '5') return false; }
    return true;
}

// static member objects per alphabet: nodes, ways (second way id and the unrelated way are closed, tagged "areas")
struct Statics {
    Buffer buf{64 * 1024, Buffer::auto_grow::yes};
    const osmium::OSMObject* ref[4] = {};       // n0 n1 w0 w1
    const osmium::OSMObject* unrel[3] = {};     // node, way, relation
    explicit Statics(const Alphabet& a) {
        size_t off[7];
        off[0] = build_node(buf, a.id[0][0]); off[1] = build_node(buf, a.id[0][1]);
        off[2] = build_way(buf, a.id[1][0], false); off[3] = build_way(buf, a.id[1][1], true);
        off[4] = build_node(buf, a.unrelated); off[5] = build_way(buf, a.unrelated, true);
        off[6] = build_relation(buf, a.unrelated, "type", "multipolygon", {MemberIn{1, 424242, "outer"}});
        for (int i = 0; i < 4; ++i) ref[i] = &buf.get<osmium::OSMObject>(off[i]);
        for (int i = 0; i < 3; ++i) unrel[i] = &buf.get<osmium::OSMObject>(off[4 + i]);
    }
};
static const Statics& statics(int alpha) { static Statics s0{ALPHA[0]}, s1{ALPHA[1]}; return alpha ? s1 : s0; }

static std::string describe(const Outer& o, unsigned mask) {
    const Alphabet& a = ALPHA[o.alpha];
    std::string s = o.kind == 'M' ? "MultipolygonManager" : std::string("RelationsManager<") + ((o.flags & 1) ? "N" : "-") + ((o.flags & 2) ? "W" : "-") + ((o.flags & 4) ? "R" : "-") + ">";
    if (o.kind == 'G') s += std::string(" new_relation=") + (o.relpred == 'a' ? "all" : "tag keep=yes") + " new_member=" + (o.mempred == 'a' ? "all" : o.mempred == 'w' ? "ways-only" : o.mempred == 'r' ? "role-x" : "even-positions");
    s += std::string(" feed=") + (o.feed == 'b' ? "apply(buffer)" : o.feed == 'n' ? "apply(buffer),no-callback,read()" : o.feed == 'i' ? "apply-per-item" : "apply(buffer),>800kB-per-completion");
    s += " relations:";
    for (size_t i = 0; i < o.rels.size(); ++i) {
        s += " r" + std::to_string(a.id[2][i]);
        const char tc = o.rels[i][0];
        s += tc == 'T' ? "[keep=yes](" : tc == 'm' ? "[type=multipolygon](" : tc == 'b' ? "[type=boundary](" : tc == 'r' ? "[type=route](" : "(";
        for (size_t j = 1; j < o.rels[i].size(); ++j) { const int r = o.rels[i][j] - '0'; if (j > 1) s += ","; s += std::string(1, "nwr"[ref_type(r)]) + std::to_string(a.id[ref_type(r)][r % 2]) + ":" + ref_role(r); }
        s += ")";
    }
    s += " stream:";
    for (int r = 0; r < 6; ++r) if (mask & (1u << r)) s += " " + std::string(1, "nwr"[ref_type(r)]) + std::to_string(a.id[ref_type(r)][r % 2]);
    s += " +unrelated n,w,r" + std::to_string(a.unrelated);
    return s;
}

// which refs vary in the stream: referenced by a member list and of an enabled type; referenced refs of
// disabled types are always fed (the manager ignores them); unreferenced refs are never fed (the unrelated id stands for them)
static void stream_bits(const Outer& o, unsigned& vary, unsigned& always) {
    vary = always = 0;
    const int flags = o.kind == 'M' ? 2 : o.flags;
    for (const auto& r : o.rels) for (size_t j = 1; j < r.size(); ++j) {
        const int ref = r[j] - '0';
        if (ref >= 4 && static_cast<size_t>(ref - 4) >= o.rels.size()) { always |= 0; continue; }   // reference to a relation that is not in the set: can never arrive
        if ((flags >> ref_type(ref)) & 1) vary |= 1u << ref; else always |= 1u << ref;
    }
}

struct SmallRunner {
    std::unordered_set<uint64_t> states;
    uint64_t samples_left = 2;
    bool sampling = false;

    // run one history; returns false if it failed
    bool run(const Outer& o, unsigned mask, bool probe_released, uint64_t hseed) {
        const Alphabet& a = ALPHA[o.alpha];
        const Statics& st = statics(o.alpha);
        Buffer relbuf{4096, Buffer::auto_grow::yes};
        std::vector<size_t> roff;
        // pass-1 order = id order of the relation ids
        std::vector<int> order;
        for (size_t i = 0; i < o.rels.size(); ++i) order.push_back(static_cast<int>(i));
        std::sort(order.begin(), order.end(), [&](int x, int y) { return osmium::id_order{}(a.id[2][x], a.id[2][y]); });
        for (int i : order) {
            std::vector<MemberIn> ms;
            for (size_t j = 1; j < o.rels[i].size(); ++j) { const int r = o.rels[i][j] - '0'; ms.push_back(MemberIn{ref_type(r), a.id[ref_type(r)][r % 2], ref_role(r)}); }
            const char tc = o.rels[i][0];
            const char* k = nullptr; const char* v = nullptr;
            if (tc == 'T') { k = "keep"; v = "yes"; } else if (tc == 'm') { k = "type"; v = "multipolygon"; } else if (tc == 'b') { k = "type"; v = "boundary"; } else if (tc == 'r') { k = "type"; v = "route"; }
            roff.push_back(build_relation(relbuf, a.id[2][i], k, v, ms));
        }
        Hist h;
        h.kind = o.kind; h.flags = o.kind == 'M' ? 2 : o.flags; h.relpred = o.kind == 'M' ? 'm' : o.relpred; h.mempred = o.kind == 'M' ? 'a' : o.mempred; h.feed = o.feed;
        h.probe_released = probe_released; h.hseed = hseed; h.states = &states;
        h.spec = std::string("S:") + o.str() + ":" + std::to_string(mask) + ":" + (probe_released ? "R" : "S");
        h.textfn = [&o, mask]() { return describe(o, mask); };
        for (size_t off : roff) h.add_relation_input(relbuf.get<osmium::Relation>(off));
        // stream
        for (int r = 0; r < 4; ++r) if (mask & (1u << r)) h.add_stream_object(*st.ref[r]);
        for (int r = 4; r < 6; ++r) if ((mask & (1u << r)) && static_cast<size_t>(r - 4) < o.rels.size()) {
            for (size_t q = 0; q < order.size(); ++q) if (order[q] == r - 4) h.add_stream_object(relbuf.get<osmium::Relation>(roff[q]));
        }
        for (int t = 0; t < 3; ++t) h.add_stream_object(*st.unrel[t]);
        h.sort_stream();
        Buffer streambuf{4096, Buffer::auto_grow::yes};
        for (int oi : h.stream) { streambuf.add_item(*h.objs[oi].in); streambuf.commit(); }
        // probes: the alphabet of every type, the unrelated id, an id nobody knows, and 0
        for (int t = 0; t < 3; ++t) {
            for (int k = 0; k < 3; ++k) for (int t2 = 0; t2 < 3; ++t2) if (a.id[t2][k] != 0) h.probes.emplace_back(t, a.id[t2][k]);
            h.probes.emplace_back(t, a.unrelated); h.probes.emplace_back(t, 77); h.probes.emplace_back(t, 0);
        }
        std::sort(h.probes.begin(), h.probes.end()); h.probes.erase(std::unique(h.probes.begin(), h.probes.end()), h.probes.end());
        run_on_manager(h, relbuf, streambuf);
        // bookkeeping
        ++C["evaluations"]; ++C["traces_validated_against_impl"];
        bool interest = false, member_seen = false; int ncomp = 0, ninc = 0, nrel = 0;
        for (const auto& r : h.rels) { if (r.interest) interest = true; if (r.completed) ++ncomp; else if (r.interest) ++ninc; }
        for (const auto& ob : h.objs) { if (ob.arrived) member_seen = true; if (ob.arrived && ob.pending == 0) ++nrel; }
        if (interest && member_seen) ++C["distinct_nontrivial"];
        C["completions"] += static_cast<uint64_t>(ncomp); C["released_lookups_probed"] += h.n_released_probes; C["live_lookups_probed"] += h.n_live_probes;
        if (ncomp >= 2) ++C["histories_with_2plus_completions"];
        if (ncomp >= 1 && ninc >= 1) ++C["histories_with_completion_and_incomplete"];
        if (h.out_callbacks >= 2) ++C["histories_with_2plus_output_flushes"];
        C["area_way_calls"] += h.area_calls;
        if (sampling) {
            static std::set<std::string> seen;
            const std::string oc = std::string(1, o.kind) + " completed=" + std::to_string(ncomp) + " incomplete=" + std::to_string(ninc) + " released=" + std::to_string(nrel) + " flushes=" + std::to_string(std::min<size_t>(h.out_callbacks, 3));
            if (seen.insert(oc).second) benum::setv("outcomes", oc);
            if (samples_left && ncomp >= 1 && ninc >= 1 && nrel >= 1) {
                --samples_left;
                std::string co; for (auto id : h.completed_order) co += " r" + std::to_string(id);
                benum::sample(h.text() + " => completed in order:" + co + "; incomplete: " + std::to_string(ninc) + "; members released: " + std::to_string(nrel) + "; output flushes: " + std::to_string(h.out_callbacks) + " [" + h.spec + "]");
            }
        }
        return !h.failed;
    }
};

// ---------------------------------------------------------------- enumeration of the outer cases
static void member_lists(int maxlen, std::vector<std::string>& out) {   // all ref lists of length <= maxlen over 6 refs
    out.clear();
    for (int len = 0; len <= maxlen; ++len) {
        const uint64_t n = benum::ipow(6, len);
        for (uint64_t r = 0; r < n; ++r) { std::string s; uint64_t x = r; for (int i = 0; i < len; ++i) { s += static_cast<char>('0' + x % 6); x /= 6; } out.push_back(s); }
    }
}
struct Bound {
    std::string name; char kind; int nrels, maxlen;
    std::vector<int> flags; std::vector<std::string> relcfg;   // relcfg: relpred char followed by one tag-class char per relation
    std::string mempreds, feeds; std::vector<int> alphas;
    std::vector<std::string> lists;
    uint64_t total() const { return benum::ipow(lists.size(), nrels) * flags.size() * relcfg.size() * mempreds.size() * feeds.size() * alphas.size(); }
    Outer decode(uint64_t r) const {
        Outer o; o.kind = kind;
        o.flags = flags[r % flags.size()]; r /= flags.size();
        const std::string& rc = relcfg[r % relcfg.size()]; r /= relcfg.size();
        o.relpred = rc[0];
        o.mempred = mempreds[r % mempreds.size()]; r /= mempreds.size();
        o.feed = feeds[r % feeds.size()]; r /= feeds.size();
        o.alpha = alphas[r % alphas.size()]; r /= alphas.size();
        for (int i = 0; i < nrels; ++i) { o.rels.push_back(std::string(1, rc[1 + i]) + lists[r % lists.size()]); r /= lists.size(); }
        return o;
    }
};
static std::vector<std::string> tagcfgs(int nrels, bool with_bytag) {   // "a" + all tagged; "t" + every mask with at least one untagged relation
    std::vector<std::string> v;
    v.push_back("a" + std::string(nrels, 'T'));
    if (with_bytag) for (unsigned m = 0; m + 1 < (1u << nrels); ++m) { std::string s = "t"; for (int i = 0; i < nrels; ++i) s += (m >> i) & 1 ? 'T' : 'U'; v.push_back(s); }
    return v;
}
static std::vector<std::string> mpcfgs(int nrels, const std::string& classes) {
    std::vector<std::string> v;
    const uint64_t n = benum::ipow(classes.size(), nrels);
    for (uint64_t r = 0; r < n; ++r) { std::string s = "m"; uint64_t x = r; for (int i = 0; i < nrels; ++i) { s += classes[x % classes.size()]; x /= classes.size(); } v.push_back(s); }
    return v;
}
static Bound mkbound(const std::string& name, char kind, int nrels, int maxlen, std::vector<int> flags, std::vector<std::string> relcfg, const std::string& mempreds, const std::string& feeds, std::vector<int> alphas) {
    Bound b; b.name = name; b.kind = kind; b.nrels = nrels; b.maxlen = maxlen; b.flags = std::move(flags); b.relcfg = std::move(relcfg); b.mempreds = mempreds; b.feeds = feeds; b.alphas = std::move(alphas);
    member_lists(maxlen, b.lists);
    return b;
}
static const std::vector<int> ALLF = {7, 1, 2, 3, 4, 5, 6};
static std::vector<Bound> bounds_main(bool thorough) {
    std::vector<Bound> v;
    v.push_back(mkbound("1 relation, <=3 members x 7 flag sets x new_relation{all,tag} x new_member{all,ways,role,position} x feed{buffer,per-item}", 'G', 1, 3, ALLF, tagcfgs(1, true), "awrp", "bi", {0}));
    v.push_back(mkbound("1 relation, <=3 members x NWR x new_member{all,role} x feed{no-callback+read(),>800kB/completion} x 2 id alphabets", 'G', 1, 3, {7}, tagcfgs(1, false), "ar", "ng", {0, 1}));
    v.push_back(mkbound("2 relations, <=2 members x NWR x new_relation{all,tag x every tag mask} x 4 new_member predicates", 'G', 2, 2, {7}, tagcfgs(2, true), "awrp", "b", {0}));
    v.push_back(mkbound("2 relations, <=2 members each x the 6 partial type-flag sets", 'G', 2, 2, {1, 2, 3, 4, 5, 6}, tagcfgs(2, false), "a", "b", {0}));
    v.push_back(mkbound("2 relations, <=2 members x NWR x feed{per-item,no-callback,>800kB} x 2 id alphabets (negative, >2^32)", 'G', 2, 2, {7}, tagcfgs(2, false), "a", "ing", {0, 1}));
    if (thorough) {
        v.push_back(mkbound("2 relations, <=3 members each x flags NWR x 4 new_member predicates", 'G', 2, 3, {7}, tagcfgs(2, false), "awrp", "b", {0}));
        v.push_back(mkbound("3 relations, <=2 members each x flags NWR x new_member{all,position}", 'G', 3, 2, {7}, tagcfgs(3, false), "ap", "b", {0}));
        v.push_back(mkbound("2 relations, <=3 members each x the 6 partial type-flag sets", 'G', 2, 3, {1, 2, 3, 4, 5, 6}, tagcfgs(2, false), "a", "b", {0}));
        v.push_back(mkbound("2 relations, <=3 members each x flags NWR x feed per-item x id alphabet with negative and > 2^32 ids", 'G', 2, 3, {7}, tagcfgs(2, false), "a", "i", {1}));
        v.push_back(mkbound("3 relations, <=2 members each x flags NWR x by-tag with every tag mask x feed per-item", 'G', 3, 2, {7}, tagcfgs(3, true), "a", "i", {0}));
    }
    return v;
}
static std::vector<Bound> bounds_mp(bool thorough) {
    std::vector<Bound> v;
    v.push_back(mkbound("multipolygon manager: 1 relation, <=3 members x type tag {multipolygon,boundary,route,none}", 'M', 1, 3, {2}, mpcfgs(1, "mbrn"), "a", "i", {0, 1}));
    v.push_back(mkbound("multipolygon manager: 2 relations, <=2 members each x type tags {multipolygon,boundary,route,none}^2", 'M', 2, 2, {2}, mpcfgs(2, "mbrn"), "a", "i", {0}));
    if (thorough) {
        v.push_back(mkbound("multipolygon manager: 2 relations, <=3 members each x type tags {multipolygon,route}^2", 'M', 2, 3, {2}, mpcfgs(2, "mr"), "a", "i", {0}));
        v.push_back(mkbound("multipolygon manager: 3 relations, <=2 members each x type tags {multipolygon,boundary}^3", 'M', 3, 2, {2}, mpcfgs(3, "mb"), "a", "i", {0}));
    }
    return v;
}
// release lookups: every (relation set, stream) is its own isolation rank
static std::vector<Bound> bounds_release(bool thorough) {
    std::vector<Bound> v;
    v.push_back(mkbound("lookups of released members: 1 relation, <=2 members x 7 type-flag sets, every stream its own forked case", 'G', 1, 2, ALLF, tagcfgs(1, false), "a", "b", {0}));
    v.push_back(mkbound("lookups of released members: multipolygon manager, 1 relation, <=2 members", 'M', 1, 2, {2}, mpcfgs(1, "m"), "a", "i", {0}));
    if (thorough) v.push_back(mkbound("lookups of released members: 2 relations, <=2 members each, flags NWR", 'G', 2, 2, {7}, tagcfgs(2, false), "a", "b", {0}));
    return v;
}

static uint64_t hseed_of(const std::string& part, size_t bi, uint64_t rank) { return (std::hash<std::string>{}(part) * 1000003ull + bi) * 0x9E3779B97F4A7C15ull + rank * 0xD1B54A32D192ED03ull; }

// a tree that crashes everywhere would cost one fork per case: after this many crashes in one shard the sweep is cut short
// (the bound is then reported as not completed); deaths inside a release lookup do not count
static const uint64_t CRASH_BUDGET = 30;
static uint64_t crashes_here = 0;
static void count_crash(Args& b) { if (!FLAGS["in_release_probe"] && ++crashes_here >= CRASH_BUDGET) { b.deadline_s = 0; benum::note("crash budget used up in this shard - sweep cut short"); } }

static std::string death_key(const std::string& what, const std::string& err, const std::string& part) {
    std::string dc = benum::death_class(what, err);
    for (char& c : dc) if (c == ' ') c = '_';      // keys must not contain blanks
    if (FLAGS["in_release_probe"]) return "lookup-after-release/" + dc + "/" + (NDEBUG_BUILD ? "ndebug" : "debug");
    return "crash/" + dc + "/" + part;
}

// part main / mp: rank = outer case, the child runs all stream subsets of it
static void part_sweep(const Args& a0, const std::string& part, const std::vector<Bound>& bounds) {
    Args a = a0;
    SmallRunner R;
    R.sampling = a.nshards == 1 || a.shard == (a.seed + 3) % a.nshards;
    bool complete = true;
    for (size_t bi = 0; bi < bounds.size(); ++bi) {
        const Bound& b = bounds[bi];
        if (complete) {
            R.samples_left = 1;
            complete = benum::run_isolated(a, 0, b.total(), [&](uint64_t r) {
                const Outer o = b.decode(r);
                unsigned vary, always; stream_bits(o, vary, always);
                R.states.clear();
                const uint64_t hs = hseed_of(part, bi, r);
                for (unsigned sub = vary;; sub = (sub - 1) & vary) {     // every subset of the varying refs
                    FLAGS["cur_mask"] = sub | always;
                    R.run(o, sub | always, NDEBUG_BUILD, hs);
                    if (sub == 0) break;
                }
                C["states"] += R.states.size();
            }, [&](uint64_t r, const std::string& what, const std::string& err) {
                ++C["child_deaths"]; count_crash(a);
                const Outer o = b.decode(r);
                const unsigned mask = static_cast<unsigned>(FLAGS["cur_mask"]);
                V.report(death_key(what, err, part), "the process died (" + what + ") in history: " + describe(o, mask) + " | " + benum::clean(err.substr(0, 400)),
                         "S:" + o.str() + ":" + std::to_string(mask) + ":" + (NDEBUG_BUILD ? "R" : "S"));
                FLAGS["in_release_probe"] = 0;
            });
        }
        benum::bound(part + ": " + b.name + " x all stream subsets" + (NDEBUG_BUILD ? " [ASan,NDEBUG]" : " [ASan,asserts]"), complete);
        if (!complete) { for (size_t k = bi + 1; k < bounds.size(); ++k) benum::bound(part + ": " + bounds[k].name + " x all stream subsets" + (NDEBUG_BUILD ? " [ASan,NDEBUG]" : " [ASan,asserts]"), false); break; }
    }
}

// part release: rank = (outer, stream subset)
static void part_release(const Args& a0, const std::vector<Bound>& bounds) {
    Args a = a0;
    SmallRunner R;
    bool complete = true;
    for (size_t bi = 0; bi < bounds.size() && complete; ++bi) {
        const Bound& b = bounds[bi];
        std::vector<std::pair<uint64_t, unsigned>> cases;
        for (uint64_t r = 0; r < b.total(); ++r) {
            const Outer o = b.decode(r);
            unsigned vary, always; stream_bits(o, vary, always);
            for (unsigned sub = vary;; sub = (sub - 1) & vary) { cases.emplace_back(r, sub | always); if (sub == 0) break; }
        }
        complete = benum::run_isolated(a, 0, cases.size(), [&](uint64_t i) {
            R.states.clear();
            R.run(b.decode(cases[i].first), cases[i].second, true, hseed_of("release", bi, cases[i].first));
            C["states"] += R.states.size();
        }, [&](uint64_t i, const std::string& what, const std::string& err) {
            ++C["child_deaths"]; count_crash(a);
            const Outer o = b.decode(cases[i].first);
            V.report(death_key(what, err, "release"), "the process died (" + what + ") in history: " + describe(o, cases[i].second) + " | " + benum::clean(err.substr(0, 400)),
                     "S:" + o.str() + ":" + std::to_string(cases[i].second) + ":R");
            FLAGS["in_release_probe"] = 0;
        });
        benum::bound("release: " + b.name + (NDEBUG_BUILD ? " [ASan, NDEBUG]" : " [ASan, assertions on]"), complete);
    }
}

// ================================================================================================
// long deterministic histories
struct LongCase { int family; int n; };
static const char* const FAMILY[] = {
    "chain: r_i(w_i), all complete",
    "every third relation lacks a member: r_i(w_i, w_N+i), w_N+i missing for i%3==0",
    "all but one complete: r_i(w_i), r_N/2 has a missing member",
    "overlap: r_i(w_i, w_i+1), every way shared by two relations",
    "hub in the middle: r_i(w_2i, w_hub), hub id ~N: half of the relations complete in one step, the rest one by one",
    "hub first: r_i(w_hub, w_i) with the hub way first",
    "mixed: r_i(n_i, w_i, w_i, r_i+1) nodes, duplicate ways and member relations (r_N+1 missing)",
    "multipolygon manager: r_i(w_i, w_N+i), every fourth w_N+i missing",
    "chain fed per item (flush after every object)",
};
static const int NFAMILY = 9;
static std::string long_spec(const LongCase& c, bool pr) { return "L:" + std::to_string(c.family) + ":" + std::to_string(c.n) + ":" + (pr ? "R" : "S"); }

static bool run_long(const LongCase& c, bool probe_released) {
    const int N = c.n, f = c.family;
    Buffer relbuf{1024 * 1024, Buffer::auto_grow::yes}, objbuf{1024 * 1024, Buffer::auto_grow::yes};
    std::vector<size_t> roff, ooff;
    const bool mp = f == 7;
    for (int i = 1; i <= N; ++i) {
        std::vector<MemberIn> ms;
        switch (f) {
            case 0: case 2: case 8: ms = {MemberIn{1, i, "a"}}; if (f == 2 && i == N / 2) ms.push_back(MemberIn{1, 3LL * N, "gone"}); break;
            case 1: case 7: ms = {MemberIn{1, i, "outer"}, MemberIn{1, static_cast<int64_t>(N) + i, "inner"}}; break;
            case 3: ms = {MemberIn{1, i, "a"}, MemberIn{1, i + 1, "b"}}; break;
            case 4: ms = {MemberIn{1, 2LL * i, "a"}, MemberIn{1, static_cast<int64_t>(N) | 1, "hub"}}; break;
            case 5: ms = {MemberIn{1, 1, "hub"}, MemberIn{1, i + 1, "a"}}; break;
            default: ms = {MemberIn{0, i, "n"}, MemberIn{1, i, "a"}, MemberIn{1, i, "b"}, MemberIn{2, i + 1, "sub"}}; break;
        }
        roff.push_back(build_relation(relbuf, i, mp ? "type" : nullptr, "multipolygon", ms));
    }
    auto way = [&](int64_t id) { ooff.push_back(build_way(objbuf, id, false)); };
    switch (f) {
        case 0: case 2: case 8: for (int i = 1; i <= N; ++i) way(i); break;
        case 1: for (int i = 1; i <= N; ++i) way(i); for (int i = 1; i <= N; ++i) if (i % 3) way(static_cast<int64_t>(N) + i); break;
        case 7: for (int i = 1; i <= N; ++i) way(i); for (int i = 1; i <= N; ++i) if (i % 4) way(static_cast<int64_t>(N) + i); break;
        case 3: case 5: for (int i = 1; i <= N + 1; ++i) way(i); break;
        case 4: for (int i = 1; i <= N; ++i) way(2LL * i); way(static_cast<int64_t>(N) | 1); break;
        default: for (int i = 1; i <= N; ++i) ooff.push_back(build_node(objbuf, i)); for (int i = 1; i <= N; ++i) way(i); break;
    }
    Hist h;
    h.kind = mp ? 'M' : 'G'; h.flags = mp ? 2 : 7; h.relpred = mp ? 'm' : 'a'; h.mempred = 'a'; h.feed = (mp || f == 8) ? 'i' : 'b';
    h.light = true; h.probe_released = probe_released; h.hseed = hseed_of("long", static_cast<size_t>(f), static_cast<uint64_t>(N));
    std::unordered_set<uint64_t> states; h.states = &states;
    h.spec = long_spec(c, probe_released);
    h.textfn = [N, f]() { return std::string("long history, N=") + std::to_string(N) + " relations, family '" + FAMILY[f] + "'"; };
    for (size_t off : roff) h.add_relation_input(relbuf.get<osmium::Relation>(off));
    for (size_t off : ooff) h.add_stream_object(objbuf.get<osmium::OSMObject>(off));
    if (f == 6) for (size_t off : roff) h.add_stream_object(relbuf.get<osmium::Relation>(off));   // relations as member objects in pass 2
    h.sort_stream();
    Buffer streambuf{1024 * 1024, Buffer::auto_grow::yes};
    for (int oi : h.stream) { streambuf.add_item(*h.objs[oi].in); streambuf.commit(); }
    run_on_manager(h, relbuf, streambuf);
    ++C["evaluations"]; ++C["traces_validated_against_impl"]; ++C["distinct_nontrivial"]; ++C["long_histories"];
    C["states"] += states.size();
    uint64_t ncomp = 0, ninc = 0; for (const auto& r : h.rels) { if (r.completed) ++ncomp; else ++ninc; }
    C["completions"] += ncomp; C["released_lookups_probed"] += h.n_released_probes; C["live_lookups_probed"] += h.n_live_probes;
    uint64_t removals = ncomp; for (const auto& ob : h.objs) if (ob.arrived && ob.pending == 0) ++removals;
    benum::maxv("long_max_stash_removals_in_one_history", removals);
    C["long_histories_with_gc"] += h.gc_runs ? 1 : 0;
    if (c.n == 12000 && (f == 1 || f == 4 || f == 6 || f == 7)) benum::sample(h.text() + " => " + std::to_string(ncomp) + " completed, " + std::to_string(ninc) + " incomplete, stash collections inside add_item: " + std::to_string(h.gc_runs) + " [" + h.spec + "]");
    benum::setv("outcomes", std::string("long family ") + std::to_string(f) + " gc=" + (h.gc_runs ? "yes" : "no"));
    return !h.failed;
}

static std::vector<LongCase> long_cases(bool thorough) {
    std::vector<LongCase> v;
    const std::vector<int> sizes = thorough ? std::vector<int>{10000, 12000, 14000, 17000, 20000, 24000, 29000, 35000, 42000, 50000, 120000} : std::vector<int>{12000, 17000, 29000};
    for (int n : sizes) for (int f = 0; f < NFAMILY; ++f) {
        if (n > 50000 && (f == 4 || f == 5)) continue;   // the hub families are quadratic in the library (count_not_removed over the hub's range)
        v.push_back(LongCase{f, n});
    }
    return v;
}
static void part_long(const Args& a0) {
    Args a = a0;
    blockpool::poison_extent = ~static_cast<std::size_t>(0);
    const std::vector<LongCase> cs = long_cases(a.thorough);
    benum::Isolation iso; iso.case_timeout_s = 120;
    const bool complete = benum::run_isolated(a, 0, cs.size(), [&](uint64_t r) { run_long(cs[r], NDEBUG_BUILD); },
        [&](uint64_t r, const std::string& what, const std::string& err) {
            ++C["child_deaths"]; count_crash(a);
            V.report(death_key(what, err, "long"), std::string("the process died (") + what + ") in long history N=" + std::to_string(cs[r].n) + " family '" + FAMILY[cs[r].family] + "' | " + benum::clean(err.substr(0, 400)), long_spec(cs[r], NDEBUG_BUILD));
            FLAGS["in_release_probe"] = 0;
        }, iso);
    benum::bound(std::string("long: ") + std::to_string(NFAMILY) + " deterministic families x N in {" + (a.thorough ? "10000,12000,14000,17000,20000,24000,29000,35000,42000,50000,120000" : "12000,17000,29000") + "} relations (> 10000 stash removals, collection inside add_item with live handles)" + (NDEBUG_BUILD ? " [ASan, NDEBUG]" : " [ASan, assertions on]"), complete);
}

// ================================================================================================
static int do_replay(const Args& a0) {
    Args a = a0; a.shard = 0; a.nshards = 1;
    const std::vector<std::string> f = split(a.replay_spec, ':');
    if (f[0] == "S" && f.size() == 10) {
        Outer o;
        if (!parse_outer(std::vector<std::string>(f.begin() + 1, f.begin() + 8), o)) { fprintf(stderr, "bad replay spec\n"); return 2; }
        const unsigned mask = static_cast<unsigned>(strtoul(f[8].c_str(), nullptr, 10));
        const bool pr = f[9] == "R";
        SmallRunner R; R.sampling = false;
        benum::run_isolated(a, 0, 1, [&](uint64_t) { R.run(o, mask, pr, 1); },
            [&](uint64_t, const std::string& what, const std::string& err) {
                V.report(death_key(what, err, o.kind == 'M' ? "mp" : pr && !NDEBUG_BUILD ? "release" : "main"), "the process died (" + what + ") in history: " + describe(o, mask) + " | " + benum::clean(err.substr(0, 400)), a.replay_spec);
            });
        return 0;
    }
    if (f[0] == "L" && f.size() == 4) {
        blockpool::poison_extent = ~static_cast<std::size_t>(0);
        LongCase c{atoi(f[1].c_str()), atoi(f[2].c_str())};
        if (c.family < 0 || c.family >= NFAMILY || c.n < 1) { fprintf(stderr, "bad replay spec\n"); return 2; }
        const bool pr = f[3] == "R";
        benum::Isolation iso; iso.case_timeout_s = 120;
        benum::run_isolated(a, 0, 1, [&](uint64_t) { run_long(c, pr); },
            [&](uint64_t, const std::string& what, const std::string& err) {
                V.report(death_key(what, err, "long"), std::string("the process died (") + what + ") in long history | " + benum::clean(err.substr(0, 400)), a.replay_spec);
            }, iso);
        return 0;
    }
    fprintf(stderr, "bad replay spec\n");
    return 2;
}

int main(int argc, char** argv) {
    Args a = benum::parse_args(argc, argv);
    (void)big_item(); (void)statics(0); (void)statics(1);
    FLAGS["in_release_probe"] = 0; FLAGS["cur_mask"] = 0;
    if (a.replay) return do_replay(a);
    std::string part;
    for (size_t i = 0; i + 1 < a.rest.size(); i += 2) if (a.rest[i] == "--part") part = a.rest[i + 1];
    if (part == "main") part_sweep(a, "main", bounds_main(a.thorough));
    else if (part == "mp") part_sweep(a, "mp", bounds_mp(a.thorough));
    else if (part == "release") part_release(a, bounds_release(a.thorough));
    else if (part == "long") part_long(a);
    else { fprintf(stderr, "unknown part\n"); return 2; }
    C.emit();
    return 0;
}
