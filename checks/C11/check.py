"""C11 - relation managers complete each relation exactly once with all its members (DESIGN.md section 5, C11)."""
LEVEL = "model_checking"
RULE = ("explicit-state style enumeration of histories: (manager: RelationsManager with each of the 7 type-flag sets, or "
        "MultipolygonManager with a trivial assembler) x (1..3 relations with member lists of length <= 2|3 over two node, two way "
        "and two relation ids, duplicates and shared members included, relations may reference each other and themselves) x "
        "(new_relation: all | by tag with every tag mask; new_member: all | ways only | by role | by position) x (member stream: "
        "every subset of the referenced ids of enabled types, plus an unrelated node, way and relation, CheckOrder-sorted) x "
        "(feeding: apply(whole buffer) with callback | without callback + read() | apply per item = flush after every object | "
        "> 800 kB written per completion so the flush threshold is crossed inside the pass). Every history is replayed on a fresh "
        "real manager and compared with a set-based model after every handler call and inside every completion callback: which "
        "relations complete at which stream position (exactly once, any order within one step), relation handed over = input "
        "with unwanted refs zeroed, every wanted member retrievable and byte-identical, lookups of every alphabet id of every "
        "type (unknown / not arrived / still needed / released), *_not_in_any_relation, member database counts, stash size = "
        "incomplete relations + members still needed, incomplete list and its member availability, output markers delivered "
        "once and in order. Long part: 9 deterministic families with 12000..120000 relations (> 10000 stash removals) so that "
        "ItemStash collects inside add_item while handles are live. Each case runs under ASan in a forked child, once in an NDEBUG "
        "build and once with assertions on (there the lookups of released ids are confined to part 'release', one fork per history). "
        "states = distinct canonical manager states (hash of relations-db elements, the three member-db element vectors, stash "
        "index/counters/fill and used_memory, read with -fno-access-control, keyed by configuration and relation set; the cases "
        "are partitioned over the shards by relation set, so the per-shard sets are disjoint), transitions = handler calls "
        "executed (pass-1 relation(), prepare_for_lookup, pass-2 node/way/relation), traces_validated_against_impl = histories "
        "run on the implementation (all of them). distinct_nontrivial = histories in which >= 1 relation is of interest and >= 1 "
        "wanted member occurs in the stream (each history is distinct by construction within one build; both builds are counted).")
DEADLINE = {"quick": 240, "thorough": 1500}


def build(ctx):
    flags = ["-fno-access-control"]
    exes = ctx.build_many([
        dict(name="h11", sources=["h11.cpp"], flags=flags, opt="-O2", asan=True, ndebug=True),
        dict(name="h11d", sources=["h11.cpp"], flags=flags, opt="-O2", asan=True, ndebug=False),
        # hook H9: a 256-byte stash buffer is reallocated every few add_item() calls - whatever points into the stash across an
        # insertion (cached relation, member pointer) dangles within a three-relation history and ASan sees the access
        dict(name="h11s", sources=["h11.cpp"], flags=flags + ["-DOSMIUM_VERIF_ITEM_STASH_BUFFER_SIZE=256"], opt="-O2", asan=True, ndebug=True),
    ])
    return {"h11": exes[0], "h11d": exes[1], "h11s": exes[2]}


ASAN = {"ASAN_OPTIONS": "detect_leaks=0:abort_on_error=0:allocator_may_return_null=1:quarantine_size_mb=16"}


def run(ctx):
    exes = build(ctx)
    if getattr(ctx, "build_only", False):
        return
    import time
    plan = [("h11", "long"), ("h11d", "long"), ("h11d", "release"), ("h11", "mp"), ("h11d", "mp"), ("h11", "main"), ("h11d", "main"), ("h11s", "mp"), ("h11s", "main")]
    for name, part in plan:
        t = time.time()
        ctx.run_harness(exes[name], ["--part", part], shards=16, env=ASAN)
        ctx.notes.append("%s --part %s: %.1fs" % (name, part, time.time() - t))
    ctx.assume("relations of interest without any wanted member are left open by the statement: completed (at most once) or "
               "never completed, listed as incomplete or not - only counted")
    ctx.assume("the order of several completions caused by one member object is not specified; callbacks (before_/after_/"
               "not_in_any) for objects of a type the manager was instantiated without are not demanded either way")
    ctx.assume("ids in the input are unique and non-zero (documented precondition of RelationsManager); streams are sorted as "
               "CheckOrder demands; the stash collection heuristic is free to run or not inside any add_item")
