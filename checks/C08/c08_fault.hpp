// C08 fault injection: link-time interposers for the libc calls through which an output file is
// written (write/fsync/close directly from libosmium's reliable_* and from zlib's gz layer,
// fwrite/fflush/fclose from libbz2 and bzip2_compression.hpp's file_wrapper), plus the
// RLIMIT_FSIZE helper for real-kernel byte-offset faults.
//
// Include this header in exactly ONE translation unit of the harness executable. The definitions
// below take precedence over libc's for every caller that goes through the PLT (the harness itself,
// libz.so, libbz2.so). Calls on descriptors that do not refer to the watched output file (identified
// by st_dev/st_ino) are forwarded untouched, so the harness' own stdout/pipes are never affected.
//
// The injector counts what it did (Stats lives in shared memory so a parent can read it after the
// child exited): a fault plan only counts as a fault when `injected` or `natural` is non-zero.
#ifndef C08_FAULT_HPP
#define C08_FAULT_HPP

#include <dlfcn.h>
#include <sys/mman.h>
#include <sys/resource.h>
#include <sys/stat.h>
#include <unistd.h>
#include <signal.h>

#include <cerrno>
#include <cstdio>
#include <cstring>
#include <string>

namespace c08f {

enum Kind {
    NONE = 0,
    WRITE_NTH,     // the n-th write() on the output fails with errno err (nothing written)
    WRITE_EINTR,   // the n-th write() on the output fails once with EINTR (a repeated call succeeds)
    WRITE_SHORT,   // every write() on the output transfers at most maxlen bytes
    WRITE_OFF,     // the first write() reaching byte offset n: partial up to n, the next one fails with err
    FSYNC_NTH,     // the n-th fsync() on the output fails with err
    CLOSE_NTH,     // the n-th close() on a descriptor of the output really closes it but reports err
    FWRITE_NTH,    // the n-th fwrite() on the output stream fails (returns 0, error flag set, errno err)
    FFLUSH_NTH,    // the n-th fflush() on the output stream fails (EOF, error flag set, errno err)
    FCLOSE_NTH,    // the n-th fclose() on the output stream closes it but reports EOF/err
    FWRITE_OFF     // the fwrite() reaching byte offset n of the stream: partial up to n, short count, error flag, errno err
};

struct Plan {
    int kind = NONE;
    long n = 0;
    int err = 0;
    size_t maxlen = 0;
};

// all fields are updated with __atomic builtins (several threads of the child write them)
struct Stats {
    int n_write, n_fsync, n_close, n_fwrite, n_fflush, n_fclose;
    int injected;          // number of times the plan changed the answer of a call
    int natural;           // number of calls on the output that failed by themselves (e.g. EFBIG)
    int natural_errno;     // errno of the first such failure
    long bytes;            // bytes accepted by write() on the output so far
    long max_write_len;    // longest single write() request seen
    int released_fd;       // 1 + descriptor number of the output after it was given back to the kernel by close() (0: none)
    int n_close_released;  // close() calls on that number while nobody owned it (EBADF): the library closed a descriptor it had released
};

static Plan g_plan;
static bool g_armed = false;
static dev_t g_dev;
static ino_t g_ino;
static Stats* g_stats = nullptr;

inline Stats* stats() {
    if (!g_stats) {
        g_stats = static_cast<Stats*>(mmap(nullptr, sizeof(Stats), PROT_READ | PROT_WRITE, MAP_SHARED | MAP_ANONYMOUS, -1, 0));
        memset(g_stats, 0, sizeof(Stats));
    }
    return g_stats;
}

inline void reset_stats() { memset(stats(), 0, sizeof(Stats)); }

// (Re)create the output file empty and remember its identity; the Writer must then be opened with
// overwrite::allow (O_TRUNC keeps the inode).
inline bool watch(const std::string& path) {
    FILE* f = std::fopen(path.c_str(), "wb");
    if (!f) return false;
    struct stat st;
    const bool ok = fstat(fileno(f), &st) == 0;
    std::fclose(f);
    g_dev = st.st_dev; g_ino = st.st_ino;
    return ok;
}

inline void arm(const Plan& p) { stats(); g_plan = p; g_armed = true; }
inline void disarm() { g_armed = false; g_plan = Plan(); }

// Real-kernel fault: after this call the first write crossing byte offset `limit` of any regular file
// is cut short at `limit`, and a write starting at or beyond it fails with EFBIG.
inline void set_fsize_limit(unsigned long limit) {
    signal(SIGXFSZ, SIG_IGN);
    struct rlimit rl;
    getrlimit(RLIMIT_FSIZE, &rl);
    rl.rlim_cur = limit;
    setrlimit(RLIMIT_FSIZE, &rl);
}

inline bool is_target(int fd) {
    if (!g_armed || fd < 0) return false;
    struct stat st;
    if (fstat(fd, &st) != 0) return false;
    return st.st_dev == g_dev && st.st_ino == g_ino;
}

inline int bump(int& c) { return __atomic_add_fetch(&c, 1, __ATOMIC_SEQ_CST); }

inline void note_natural(int e) {
    Stats* s = g_stats;
    if (bump(s->natural) == 1) s->natural_errno = e;
}

template <class F>
inline F real(const char* name) { return reinterpret_cast<F>(dlsym(RTLD_NEXT, name)); }

}  // namespace c08f

extern "C" {

ssize_t write(int fd, const void* buf, size_t count) {
    using namespace c08f;
    static const auto fn = real<ssize_t (*)(int, const void*, size_t)>("write");
    if (!is_target(fd)) return fn(fd, buf, count);
    Stats* s = g_stats;
    const int idx = bump(s->n_write);
    if (static_cast<long>(count) > s->max_write_len) s->max_write_len = static_cast<long>(count);
    switch (g_plan.kind) {
        case WRITE_NTH:
            if (idx == g_plan.n) { bump(s->injected); errno = g_plan.err; return -1; }
            break;
        case WRITE_EINTR:
            if (idx == g_plan.n) { bump(s->injected); errno = EINTR; return -1; }
            break;
        case WRITE_SHORT:
            if (count > g_plan.maxlen) { bump(s->injected); count = g_plan.maxlen; }
            break;
        case WRITE_OFF:
            if (count > 0 && s->bytes + static_cast<long>(count) > g_plan.n) {
                if (s->bytes >= g_plan.n) { bump(s->injected); errno = g_plan.err; return -1; }
                count = static_cast<size_t>(g_plan.n - s->bytes);   // partial write up to the offset
            }
            break;
        default:
            break;
    }
    const ssize_t r = fn(fd, buf, count);
    if (r < 0) { const int e = errno; note_natural(e); errno = e; }
    else __atomic_add_fetch(&s->bytes, static_cast<long>(r), __ATOMIC_SEQ_CST);
    return r;
}

int fsync(int fd) {
    using namespace c08f;
    static const auto fn = real<int (*)(int)>("fsync");
    if (!is_target(fd)) return fn(fd);
    Stats* s = g_stats;
    const int idx = bump(s->n_fsync);
    if (g_plan.kind == FSYNC_NTH && idx == g_plan.n) { bump(s->injected); errno = g_plan.err; return -1; }
    const int r = fn(fd);
    if (r != 0) { const int e = errno; note_natural(e); errno = e; }
    return r;
}

int close(int fd) {
    using namespace c08f;
    static const auto fn = real<int (*)(int)>("close");
    if (!is_target(fd)) {
        // A second close() of the number the output descriptor had: if nothing owns the number now (fstat says EBADF) the library is
        // closing a descriptor it has already released - between the two calls any open() of another thread may have received that
        // number, and the stray close then takes away a file the Writer does not own.
        struct stat st;
        if (g_armed && g_stats && fd >= 0 && fd == g_stats->released_fd - 1 && fstat(fd, &st) != 0 && errno == EBADF) { bump(g_stats->n_close_released); g_stats->released_fd = 0; }
        return fn(fd);
    }
    Stats* s = g_stats;
    const int idx = bump(s->n_close);
    s->released_fd = fd + 1;      // (stored + 1 so that the zero-initialised value means "none")
    if (g_plan.kind == CLOSE_NTH && idx == g_plan.n) { fn(fd); bump(s->injected); errno = g_plan.err; return -1; }
    const int r = fn(fd);
    if (r != 0) { const int e = errno; note_natural(e); errno = e; }
    return r;
}

size_t fwrite(const void* p, size_t size, size_t n, FILE* f) {
    using namespace c08f;
    static const auto fn = real<size_t (*)(const void*, size_t, size_t, FILE*)>("fwrite");
    if (!f || !is_target(fileno(f))) return fn(p, size, n, f);
    Stats* s = g_stats;
    const int idx = bump(s->n_fwrite);
    if (g_plan.kind == FWRITE_NTH && idx == g_plan.n) {
        bump(s->injected); f->_flags |= 0x20 /* _IO_ERR_SEEN: what a failing fwrite leaves behind */; errno = g_plan.err; return 0;
    }
    if (g_plan.kind == FWRITE_OFF && size > 0 && s->bytes + static_cast<long>(size * n) > g_plan.n) {
        // what stdio reports when the device fills up at offset n: the bytes before n are accepted, the call
        // returns a short count with the stream's error flag set (a stream in error state keeps failing)
        const long part = g_plan.n > s->bytes ? g_plan.n - s->bytes : 0;
        const size_t done = part > 0 ? fn(p, 1, static_cast<size_t>(part), f) : 0;
        __atomic_add_fetch(&s->bytes, static_cast<long>(done), __ATOMIC_SEQ_CST);
        bump(s->injected); f->_flags |= 0x20; errno = g_plan.err;
        return done / size;
    }
    const size_t r = fn(p, size, n, f);
    if (r < n) { const int e = errno; note_natural(e); errno = e; }
    __atomic_add_fetch(&s->bytes, static_cast<long>(r * size), __ATOMIC_SEQ_CST);
    return r;
}

int fflush(FILE* f) {
    using namespace c08f;
    static const auto fn = real<int (*)(FILE*)>("fflush");
    if (!f || !is_target(fileno(f))) return fn(f);
    Stats* s = g_stats;
    const int idx = bump(s->n_fflush);
    if (g_plan.kind == FFLUSH_NTH && idx == g_plan.n) {
        bump(s->injected); f->_flags |= 0x20; errno = g_plan.err; return EOF;
    }
    const int r = fn(f);
    if (r != 0) { const int e = errno; note_natural(e); errno = e; }
    return r;
}

int fclose(FILE* f) {
    using namespace c08f;
    static const auto fn = real<int (*)(FILE*)>("fclose");
    if (!f || !is_target(fileno(f))) return fn(f);
    Stats* s = g_stats;
    const int idx = bump(s->n_fclose);
    if (g_plan.kind == FCLOSE_NTH && idx == g_plan.n) { fn(f); bump(s->injected); errno = g_plan.err; return EOF; }
    const int r = fn(f);
    if (r != 0) { const int e = errno; note_natural(e); errno = e; }
    return r;
}

}  // extern "C"

#endif
