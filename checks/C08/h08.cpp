// C08 - the Writer produces the complete file or throws; OS write errors are never lost.
//
// Fault enumeration on the real osmium::io::Writer (real write thread, real pool, real zlib/libbz2):
// configurations {xml, opl, pbf} x {none, gz, bz2} x fsync {no, yes} x histories x queue/pool sizes,
// and for each configuration every fault plan of the lists built in plans_for():
//   rlimit o      setrlimit(RLIMIT_FSIZE, o), SIGXFSZ ignored: the kernel cuts the write crossing byte
//                 offset o short and fails the next one with EFBIG - on every path, also libc-internal
//                 stdio flushes (bzip2)
//   write_off o   the same offset fault for ENOSPC / EIO (interposed write(): plain and gzip output)
//   fwrite_off o  the same at the stdio level (bzip2 output)
//   write_nth / fsync_nth / close_nth / fwrite_nth / fflush_nth / fclose_nth n: the n-th such call on
//                 the output file fails, for every n up to the number of calls of the fault-free run
//   write_eintr n the n-th write() fails once with EINTR;  write_short m: write() transfers <= m bytes
//   encoder j     (OPL with locations_on_ways) way j carries a tag value ending in an incomplete UTF-8 sequence: the encoder throws
//                 in the pool worker
// Every case runs in a forked child (benum::run_isolated; a crash or hang is attributed to its case).
//
// ORACLE (per case), independent of the Writer's encoders:
//   outcome (i)  no call threw and close() returned s: then the file must exist with st_size == s, its
//                compression framing must be complete (own inflate / BZ2_bzDecompress loop, every input
//                byte consumed) and decoding the plain bytes with osmium::io::Reader must give exactly
//                the abstract objects that were handed over, in order. If an error plan's injector
//                demonstrably fired (counter of injected / observed failing calls > 0) outcome (i) is
//                the violation "error-lost".
//   outcome (ii) operator()/flush()/close() threw. After an exception from operator()/flush() further
//                operator()(Item) and operator()(Buffer) calls must throw (io_error expected).
//   always       afterwards (Writer and Pool destroyed) the process has as many threads as before.
//   EINTR and short writes are no errors: either outcome is accepted, (i) only with a correct file.
#define OSMIUM_TEST_RUNNER
#include <cstdlib>
#include <map>
#include <string>
namespace osmium { namespace detail {
    static std::map<std::string, std::string> g_env;
    inline const char* getenv_wrapper(const char* var) noexcept {
        auto it = g_env.find(var);
        return it == g_env.end() ? nullptr : it->second.c_str();
    }
} }

#include "c08_fault.hpp"

#include <benum/benum.hpp>
#include <ref/osmdata.hpp>

#include <osmium/io/bzip2_compression.hpp>
#include <osmium/io/gzip_compression.hpp>
#include <osmium/io/opl_input.hpp>
#include <osmium/io/opl_output.hpp>
#include <osmium/io/pbf_input.hpp>
#include <osmium/io/pbf_output.hpp>
#include <osmium/io/reader.hpp>
#include <osmium/io/writer.hpp>
#include <osmium/io/xml_input.hpp>
#include <osmium/io/xml_output.hpp>
#include <osmium/thread/pool.hpp>

#include <bzlib.h>
#include <dirent.h>
#include <time.h>
#include <zlib.h>

#include <algorithm>
#include <set>
#include <sstream>

using osmdata::Obj;

namespace {

// ------------------------------------------------------------------------------------------------
// abstract data and histories
struct Op { char k; int from, to; };      // 'B' operator()(Buffer&&) with objects [from,to); 'I' operator()(Item) for each; 'F' flush()

struct History {
    std::vector<Obj> objs;
    std::vector<Op> ops;
    size_t ibuf = 0;                      // Writer::set_buffer_size (0 = default): small values exercise buffer_is_full -> do_flush
    std::vector<std::string> want;        // canonical text of every object, in hand-over order
};

std::string rnd_text(uint64_t& st, int len) {
    static const char* al = "abcdefghijklmnopqrstuvwxyz0123456789";
    std::string s;
    for (int i = 0; i < len; ++i) { st = st * 6364136223846793005ull + 1442695040888963407ull; s += al[(st >> 33) % 36]; }
    return s;
}

Obj mk_node(int i, int vlen, uint64_t& st) {
    Obj o{'n', 10 + i, static_cast<uint32_t>(1 + i % 3), 100u + i, 7u + i % 5, 1420070400u + i, "user" + std::to_string(i % 4), {}};
    o.tags.push_back({"k" + std::to_string(i), rnd_text(st, vlen)});
    if (i % 3 == 0) o.tags.push_back({"name", "node " + std::to_string(i)});
    o.x = 10000000 * (i % 17) + i; o.y = -5000000 * (i % 13) - 3 * i;
    return o;
}
Obj mk_way(int i, int vlen, uint64_t& st) {
    Obj o{'w', 7 + i, 1u, 200u + i, 9u, 1420080000u + i, "w", {}};
    o.tags.push_back({"highway", i % 2 ? "primary" : "secondary"});
    o.tags.push_back({"ref", rnd_text(st, vlen)});
    for (int k = 0; k < 2 + i % 4; ++k) o.refs.push_back(10 + (i + k) % 6);
    return o;
}
Obj mk_rel(int i, int vlen, uint64_t& st) {
    Obj o{'r', 3 + i, 2u, 300u + i, 11u, 1420090000u + i, "rel", {}};
    o.tags.push_back({"type", "multipolygon"});
    o.tags.push_back({"note", rnd_text(st, vlen)});
    o.members.emplace_back('w', 7 + i % 6, "outer");
    o.members.emplace_back('n', 10 + i % 6, "");
    if (i % 2) o.members.emplace_back('r', 3, "sub");
    return o;
}

// A / B: the 3-buffer history of the design (6 nodes as a buffer; 4 ways as items; flush; 2 ways as items;
// 4 relations as a buffer - which flushes the internal buffer first; 1 relation as item; close).
// B is A with a 512 byte internal buffer (operator()(Item) hits buffer_is_full and flushes by itself).
// L: long history, incompressible tag values: the compressed output is larger than zlib's and stdio's
//    buffers, so write errors surface while the history is still running. Object types alternate (many PBF blobs).
// H: huge history (650 KB of XML) for bzip2 and gzip: the input is larger than one bzip2 block / several deflate blocks,
//    so BZ2_bzWrite and gzwrite themselves write to the file (otherwise everything is written by the close functions).
History make_history(char h) {
    History H;
    uint64_t st = 0x243F6A8885A308D3ull;
    auto add = [&](char k, char type, int first, int n, int vlen) {
        const int from = static_cast<int>(H.objs.size());
        for (int i = first; i < first + n; ++i) H.objs.push_back(type == 'n' ? mk_node(i, vlen, st) : type == 'w' ? mk_way(i, vlen, st) : mk_rel(i, vlen, st));
        H.ops.push_back(Op{k, from, from + n});
    };
    if (h == 'A' || h == 'B' || h == 'E') {
        add('B', 'n', 0, 6, 12); add('I', 'w', 0, 4, 12); H.ops.push_back(Op{'F', 0, 0}); add('I', 'w', 4, 2, 12);
        add('B', 'r', 0, 4, 12); add('I', 'r', 4, 1, 12);
        if (h == 'B') H.ibuf = 512;
    } else if (h == 'L') {
        for (int r = 0; r < 6; ++r) {
            add('B', 'n', r * 10, 10, 150); add('I', 'w', r * 6, 6, 150);
            if (r % 2) H.ops.push_back(Op{'F', 0, 0});
            add(r % 2 ? 'B' : 'I', 'r', r * 4, 4, 150);
        }
        H.ibuf = 4096;
    } else if (h == 'H') {
        for (int r = 0; r < 8; ++r) { add('B', 'n', r * 400, 400, 40); add('I', 'w', r * 3, 3, 40); }
    }
    for (auto& o : H.objs) H.want.push_back(osmdata::canon(o, true));
    return H;
}

std::map<char, History> g_hist;

// ------------------------------------------------------------------------------------------------
struct Cfg {
    std::string fmt, comp; int fsync; char hist; int q, pool, paced;
    std::string ext() const { return fmt + (comp == "none" ? "" : "." + comp); }
    std::string name() const {
        std::ostringstream o;
        o << ext() << ",fsync=" << fsync << ",hist=" << hist << ",q=" << q << ",pool=" << pool << ",paced=" << paced;
        return o.str();
    }
};

struct Plan {
    std::string kind = "none"; long n = 0; int err = 0;
    std::string name() const { return kind + ":" + std::to_string(n) + ":" + std::to_string(err); }
    // plans that model a failing operation (as opposed to EINTR / short transfers, which are not errors)
    bool is_error() const { return kind != "none" && kind != "write_eintr" && kind != "write_short"; }
};

bool parse_spec(const std::string& spec, Cfg& c, Plan& p) {
    // "<ext>,fsync=F,hist=H,q=Q,pool=P,paced=X|kind:n:err"
    const size_t bar = spec.find('|');
    if (bar == std::string::npos) return false;
    char ext[64] = "", hist = 'A', kind[64] = "";
    if (sscanf(spec.c_str(), "%63[^,],fsync=%d,hist=%c,q=%d,pool=%d,paced=%d", ext, &c.fsync, &hist, &c.q, &c.pool, &c.paced) != 6) return false;
    c.hist = hist;
    std::string e = ext;
    const size_t dot = e.find('.');
    c.fmt = e.substr(0, dot); c.comp = dot == std::string::npos ? "none" : e.substr(dot + 1);
    if (sscanf(spec.c_str() + bar + 1, "%63[^:]:%ld:%d", kind, &p.n, &p.err) != 3) return false;
    p.kind = kind;
    return true;
}

std::string g_path_base;     // /verif/build/C08-data/<pid>

int count_threads() {
    int n = 0;
    DIR* d = opendir("/proc/self/task");
    if (!d) return -1;
    while (dirent* e = readdir(d)) if (e->d_name[0] != '.') ++n;
    closedir(d);
    return n;
}

// close descriptors of the output file that the library left open on an error path (several
// compressors do not close their descriptor after a failure; the property does not speak about that,
// but a child runs thousands of cases). Returns how many there were.
int close_leaked_fds() {
    static const auto real_close = c08f::real<int (*)(int)>("close");
    int n = 0;
    for (int fd = 3; fd < 64; ++fd) {
        struct stat st;
        if (fstat(fd, &st) == 0 && st.st_dev == c08f::g_dev && st.st_ino == c08f::g_ino) { real_close(fd); ++n; }
    }
    return n;
}

// ------------------------------------------------------------------------------------------------
// independent decoding of the compression layer: complete framing, every input byte consumed
bool gunzip_all(const std::string& in, std::string& out, std::string& why) {
    z_stream zs; memset(&zs, 0, sizeof zs);
    if (inflateInit2(&zs, 16 + 15) != Z_OK) { why = "inflateInit2"; return false; }
    zs.next_in = reinterpret_cast<Bytef*>(const_cast<char*>(in.data())); zs.avail_in = static_cast<uInt>(in.size());
    char buf[65536]; int r = Z_OK;
    while (r == Z_OK) {
        zs.next_out = reinterpret_cast<Bytef*>(buf); zs.avail_out = sizeof buf;
        r = inflate(&zs, Z_NO_FLUSH);
        out.append(buf, sizeof buf - zs.avail_out);
        if (r == Z_BUF_ERROR || (r == Z_OK && zs.avail_in == 0 && zs.avail_out != 0)) { r = Z_BUF_ERROR; break; }
    }
    const uInt left = zs.avail_in;
    inflateEnd(&zs);
    if (r != Z_STREAM_END) { why = r == Z_BUF_ERROR ? "gzip stream ends early" : "gzip stream corrupt"; return false; }
    if (left != 0) { why = "bytes after the gzip stream"; return false; }
    return true;
}

bool bunzip_all(const std::string& in, std::string& out, std::string& why) {
    bz_stream bs; memset(&bs, 0, sizeof bs);
    if (BZ2_bzDecompressInit(&bs, 0, 0) != BZ_OK) { why = "bzDecompressInit"; return false; }
    bs.next_in = const_cast<char*>(in.data()); bs.avail_in = static_cast<unsigned>(in.size());
    char buf[65536]; int r = BZ_OK;
    while (r == BZ_OK) {
        bs.next_out = buf; bs.avail_out = sizeof buf;
        r = BZ2_bzDecompress(&bs);
        out.append(buf, sizeof buf - bs.avail_out);
        if (r == BZ_OK && bs.avail_in == 0 && bs.avail_out != 0) { r = BZ_UNEXPECTED_EOF; break; }
    }
    const unsigned left = bs.avail_in;
    BZ2_bzDecompressEnd(&bs);
    if (r != BZ_STREAM_END) { why = r == BZ_UNEXPECTED_EOF ? "bzip2 stream ends early" : "bzip2 stream corrupt"; return false; }
    if (left != 0) { why = "bytes after the bzip2 stream"; return false; }
    return true;
}

// Decode the file at `path`; true iff it is a complete valid file with exactly the objects `want`.
bool verify_file(const Cfg& c, const std::string& path, const std::vector<std::string>& want, std::string& why) {
    const std::string raw = benum::slurp(path, 1u << 30);
    std::string plain;
    if (c.comp == "gz") { if (!gunzip_all(raw, plain, why)) return false; }
    else if (c.comp == "bz2") { if (!bunzip_all(raw, plain, why)) return false; }
    else plain = raw;
    std::vector<std::string> got;
    try {
        osmium::thread::Pool pool{1, 0};
        osmium::io::File f{plain.data(), plain.size(), c.fmt};
        osmium::io::Reader r{f, pool};
        while (osmium::memory::Buffer b = r.read()) for (const auto& o : b.select<osmium::OSMObject>()) got.push_back(osmdata::canon(o, true));
        r.close();
    } catch (const std::exception& e) {
        why = std::string("file does not decode: ") + e.what();
        return false;
    }
    if (got.size() != want.size()) { why = "file holds " + std::to_string(got.size()) + " objects, " + std::to_string(want.size()) + " were written"; return false; }
    for (size_t i = 0; i < got.size(); ++i) if (got[i] != want[i]) { why = "object " + std::to_string(i) + " differs: " + got[i] + " vs " + want[i]; return false; }
    return true;
}

// ------------------------------------------------------------------------------------------------
void build(osmium::memory::Buffer& buf, const Obj& o, bool with_loc, bool bad_loc) {
    if (o.type != 'w' || !with_loc) { osmdata::build_object(buf, o); return; }
    using namespace osmium::builder;
    WayBuilder b{buf};
    b.set_id(o.id).set_version(o.version).set_changeset(o.changeset).set_uid(o.uid).set_timestamp(o.ts).set_visible(true);
    b.set_user(o.user);
    // the bad way carries a tag value that ends in an incomplete UTF-8 sequence: the OPL encoder throws std::out_of_range for it
    // (an invalid way node location, used here first, stopped being an encoder error with the repair f7d4a33 in /repo)
    { TagListBuilder tb{b}; for (auto& t : o.tags) tb.add_tag(t.first, t.second); if (bad_loc) tb.add_tag("bad", "x\xE2\x82"); }
    {
        WayNodeListBuilder wb{b};
        for (size_t i = 0; i < o.refs.size(); ++i) {
            osmium::Location loc = osmium::Location{int32_t(1000 * o.refs[i]), int32_t(2000 * o.refs[i])};
            wb.add_node_ref(osmium::NodeRef{o.refs[i], loc});
        }
    }
    buf.commit();
}

struct Outcome {
    int nops = 0;
    int threw_at = -1;            // index of the op whose call threw first (nops = close()); -2 = constructor
    std::string ex_type, ex_what;
    bool have_size = false; size_t size = 0;
    std::string refusal;          // "" = fine / not applicable, otherwise what went wrong
    int refusal_other = 0;        // refused with an exception that is not io_error (accepted, counted)
    int threads_before = 0, threads_after = 0;
    c08f::Stats st;
    int leaked_fds = 0;
};

void pace() { struct timespec ts{0, 300000}; nanosleep(&ts, nullptr); }

// Run one history on a real Writer under a fault plan. Everything the oracle needs goes into Outcome.
Outcome run_history(const Cfg& c, const Plan& p, const std::string& path) {
    const History& H = g_hist.at(c.hist);
    Outcome out; out.nops = static_cast<int>(H.ops.size());
    osmium::detail::g_env.clear();
    osmium::detail::g_env["OSMIUM_MAX_OUTPUT_QUEUE_SIZE"] = std::to_string(c.q);
    osmium::detail::g_env["OSMIUM_MAX_WORK_QUEUE_SIZE"] = std::to_string(c.q);
    c08f::watch(path);
    c08f::reset_stats();
    c08f::Plan fp;
    if (p.kind == "write_nth") fp.kind = c08f::WRITE_NTH;
    else if (p.kind == "write_eintr") fp.kind = c08f::WRITE_EINTR;
    else if (p.kind == "write_short") { fp.kind = c08f::WRITE_SHORT; fp.maxlen = static_cast<size_t>(p.n); }
    else if (p.kind == "write_off") fp.kind = c08f::WRITE_OFF;
    else if (p.kind == "fsync_nth") fp.kind = c08f::FSYNC_NTH;
    else if (p.kind == "close_nth") fp.kind = c08f::CLOSE_NTH;
    else if (p.kind == "fwrite_nth") fp.kind = c08f::FWRITE_NTH;
    else if (p.kind == "fflush_nth") fp.kind = c08f::FFLUSH_NTH;
    else if (p.kind == "fclose_nth") fp.kind = c08f::FCLOSE_NTH;
    else if (p.kind == "fwrite_off") fp.kind = c08f::FWRITE_OFF;
    fp.n = p.n; fp.err = p.err;
    const bool with_loc = c.hist == 'E';
    const int bad_way = p.kind == "encoder" ? static_cast<int>(p.n) : -1;     // index among the ways
    // a case starts single-threaded; threads of the previous case (its Reader) may still be vanishing from /proc
    for (int i = 0; i < 10000 && (out.threads_before = count_threads()) != 1; ++i) { struct timespec ts{0, 1000000}; nanosleep(&ts, nullptr); }
    c08f::arm(fp);
    if (p.kind == "rlimit") c08f::set_fsize_limit(static_cast<unsigned long>(p.n));
    {
        osmium::thread::Pool pool{c.pool, 0};
        osmium::io::File file{path, c.ext()};
        if (with_loc) file.set("locations_on_ways", true);
        osmium::io::Header header;
        header.set("generator", "verif-c08");
        std::unique_ptr<osmium::io::Writer> w;
        try {
            w.reset(new osmium::io::Writer{file, header, osmium::io::overwrite::allow, c.fsync ? osmium::io::fsync::yes : osmium::io::fsync::no, pool});
        } catch (const std::exception& e) { out.threw_at = -2; out.ex_type = "ctor"; out.ex_what = e.what(); }
        if (w) {
            if (H.ibuf) w->set_buffer_size(H.ibuf);
            int way_no = 0;
            auto is_bad = [&](const Obj& o) { return o.type == 'w' && way_no++ == bad_way; };
            auto note = [&](int i, const char* type, const char* what) { out.threw_at = i; out.ex_type = type; out.ex_what = what; };
            for (int i = 0; i < out.nops && out.threw_at == -1; ++i) {
                const Op& op = H.ops[i];
                try {
                    if (op.k == 'B') {
                        osmium::memory::Buffer buf{4096, osmium::memory::Buffer::auto_grow::yes};
                        for (int k = op.from; k < op.to; ++k) build(buf, H.objs[k], with_loc, is_bad(H.objs[k]));
                        (*w)(std::move(buf));
                    } else if (op.k == 'I') {
                        for (int k = op.from; k < op.to; ++k) {
                            osmium::memory::Buffer buf{1024, osmium::memory::Buffer::auto_grow::yes};
                            build(buf, H.objs[k], with_loc, is_bad(H.objs[k]));
                            (*w)(buf.get<osmium::memory::Item>(0));
                        }
                    } else {
                        w->flush();
                    }
                } catch (const osmium::io_error& e) { note(i, "io_error", e.what()); }
                catch (const std::system_error& e) { note(i, "system_error", e.what()); }
                catch (const std::exception& e) { note(i, "exception", e.what()); }
                catch (...) { note(i, "unknown", ""); }
                if (c.paced) pace();
            }
            if (out.threw_at == -1) {
                try { out.size = w->close(); out.have_size = true; }
                catch (const osmium::io_error& e) { note(out.nops, "io_error", e.what()); }
                catch (const std::system_error& e) { note(out.nops, "system_error", e.what()); }
                catch (const std::exception& e) { note(out.nops, "exception", e.what()); }
                catch (...) { note(out.nops, "unknown", ""); }
            } else {
                // "a Writer in error state refuses further data"
                auto refused = [&](const char* what, const std::function<void()>& call) {
                    try { call(); out.refusal += std::string(what) + " accepted after an exception; "; }
                    catch (const osmium::io_error&) {}
                    catch (...) { ++out.refusal_other; }
                };
                osmium::memory::Buffer b1{1024, osmium::memory::Buffer::auto_grow::yes}, b2{1024, osmium::memory::Buffer::auto_grow::yes};
                build(b1, H.objs[0], false, false); build(b2, H.objs[0], false, false);
                refused("operator()(Item)", [&] { (*w)(b1.get<osmium::memory::Item>(0)); });
                refused("operator()(Buffer)", [&] { (*w)(std::move(b2)); });
                try { w->close(); } catch (...) {}       // whatever it does, it must come back
            }
            w.reset();
        }
    }   // ~Pool
    if (p.kind == "rlimit") c08f::set_fsize_limit(RLIM_INFINITY);
    out.st = *c08f::stats();
    c08f::disarm();
    out.leaked_fds = close_leaked_fds();
    // pthread_join() returns when the kernel has cleared the thread's tid, a moment before the task disappears
    // from /proc: poll (up to 10 s) before believing that a thread was left behind
    for (int i = 0; i < 10000 && (out.threads_after = count_threads()) != out.threads_before; ++i) { struct timespec ts{0, 1000000}; nanosleep(&ts, nullptr); }
    return out;
}

// ------------------------------------------------------------------------------------------------
benum::Counters* g_cnt;
benum::Violations g_viol;
std::set<std::string> g_sets_emitted;
void set_once(const std::string& key, const std::string& v) { if (g_sets_emitted.insert(key + "\t" + v).second) benum::setv(key, v); }

std::string where_name(const Cfg& c, const Outcome& o) {
    if (o.threw_at == -1) return "none";
    if (o.threw_at == -2) return "constructor";
    if (o.threw_at == o.nops) return "close";
    const char k = g_hist.at(c.hist).ops[o.threw_at].k;
    return k == 'B' ? "operator()(Buffer)" : k == 'I' ? "operator()(Item)" : "flush";
}

// The oracle. Returns true if the case violated the property (already reported).
bool judge(const Cfg& c, const Plan& p, const Outcome& o, const std::string& path, bool quiet_counters = false) {
    const History& H = g_hist.at(c.hist);
    const std::string spec = c.name() + "|" + p.name();
    const std::string tag = c.ext() + "/" + p.kind;
    const bool fired = p.kind == "encoder" ? true : (o.st.injected > 0 || o.st.natural > 0);
    bool bad = false;
    auto viol = [&](const std::string& key, const std::string& detail) {
        bad = true;
        g_viol.report(key, "[" + spec + "] " + detail, spec);
    };
    std::ostringstream inj;
    inj << "injected=" << o.st.injected << " failing-calls-seen=" << o.st.natural << "(errno " << o.st.natural_errno << ") write/fsync/close/fwrite/fflush/fclose calls="
        << o.st.n_write << "/" << o.st.n_fsync << "/" << o.st.n_close << "/" << o.st.n_fwrite << "/" << o.st.n_fflush << "/" << o.st.n_fclose;
    struct stat st;
    const bool exists = stat(path.c_str(), &st) == 0;
    if (o.threw_at == -1) {
        // outcome (i)
        std::string why;
        const bool size_ok = exists && o.have_size && static_cast<size_t>(st.st_size) == o.size;
        const bool file_ok = exists && verify_file(c, path, H.want, why);
        if (p.is_error() && fired) {
            viol("writer/error-lost/" + tag, "the fault fired (" + inj.str() + ") but no call threw, close() returned " + std::to_string(o.size) +
                 "; file on disk: " + (exists ? std::to_string(st.st_size) + " bytes, " : "missing, ") + (file_ok ? "complete" : "NOT a complete file: " + why));
        } else if (!file_ok) {
            viol("writer/bad-file-reported-as-success/" + tag, "no call threw, close() returned " + std::to_string(o.size) + " but " + (exists ? why : "the file does not exist") + " (" + inj.str() + ")");
        } else if (!size_ok) {
            viol("writer/close-returns-wrong-size/" + tag, "close() returned " + std::to_string(o.size) + ", the file has " + std::to_string(st.st_size) + " bytes");
        }
    } else {
        // outcome (ii)
        // a run in which nothing was injected and that fails anyway is a failing fault-free run
        if (!fired) viol("writer/fault-free-history-fails/" + c.ext(), "no fault fired but " + where_name(c, o) + " threw " + o.ex_type + ": " + o.ex_what);
        if (!o.refusal.empty()) viol("writer/no-refusal-after-error/" + tag, o.refusal + "first exception came from " + where_name(c, o) + " (" + o.ex_what + ")");
    }
    if (o.st.n_close_released > 0)
        viol("writer/closes-a-descriptor-it-has-released/" + tag, std::to_string(o.st.n_close_released) + " close() call(s) on the output's descriptor number after it had been given back to the kernel (EBADF; " + inj.str() +
             "): any open() between the two calls receives that number and loses its file to the second close - another Writer's output is then cut short without an error");
    if (o.threads_after != o.threads_before)
        viol("writer/threads-left-running/" + tag, std::to_string(o.threads_before) + " threads before the Writer was created, " + std::to_string(o.threads_after) + " after it and its pool were destroyed");
    if (!quiet_counters) {
        benum::Counters& C = *g_cnt;
        ++C["evaluations"];
        if (fired) ++C["distinct_nontrivial"];
        ++C[("plans_" + p.kind).c_str()];
        if (fired) ++C[("fired_" + p.kind).c_str()];
        if (o.threw_at == -1) ++C["outcome_success_file_verified"];
        else ++C[("exception_from_" + where_name(c, o)).c_str()];
        if (o.threw_at >= 0 && o.threw_at < o.nops) ++C["refusal_checked"];
        if (o.refusal_other) ++C["refusal_by_other_exception_type"];
        if (o.leaked_fds) ++C["note_runs_with_output_fd_left_open_by_library"];
        if (p.kind == "rlimit" && !fired) ++C["rlimit_plans_not_fired"];
        std::string w = o.ex_what.substr(0, o.ex_what.find(": ") == std::string::npos ? 60 : std::min<size_t>(60, o.ex_what.find(": ")));
        set_once("outcomes", c.comp + "/" + p.kind + " -> " + where_name(c, o) + (o.threw_at == -1 ? "" : " " + o.ex_type + " '" + w + "'"));
    }
    return bad;
}

// ------------------------------------------------------------------------------------------------
// fault-free run of a configuration (in a forked child): output size and call counts
struct Dry { int ok; long size; c08f::Stats st; char msg[200]; };
Dry* g_dry;

bool dry_run(const Cfg& c, Dry& d) {
    memset(g_dry, 0, sizeof(Dry));
    fflush(stdout);
    pid_t pid = fork();
    if (pid == 0) {
        const std::string path = g_path_base + "-dry." + c.ext();
        Outcome o = run_history(c, Plan(), path);
        struct stat st;
        std::string why;
        if (o.threw_at != -1) snprintf(g_dry->msg, sizeof g_dry->msg, "%s threw %s: %s", where_name(c, o).c_str(), o.ex_type.c_str(), o.ex_what.c_str());
        else if (stat(path.c_str(), &st) != 0 || !verify_file(c, path, g_hist.at(c.hist).want, why)) snprintf(g_dry->msg, sizeof g_dry->msg, "written file is wrong: %s", why.c_str());
        else { g_dry->ok = 1; g_dry->size = st.st_size; g_dry->st = o.st; }
        unlink(path.c_str());
        _exit(0);
    }
    int status = 0;
    waitpid(pid, &status, 0);
    d = *g_dry;
    if (!(WIFEXITED(status) && WEXITSTATUS(status) == 0)) { d.ok = 0; snprintf(d.msg, sizeof d.msg, "fault-free run died (status %d)", status); }
    return d.ok == 1;
}

// offsets to enumerate in [0,size): all (thorough) or a strided subset plus every buffer boundary +-1
std::vector<long> offsets(long size, bool all, long stride) {
    std::set<long> s;
    if (all) { for (long o = 0; o < size; ++o) s.insert(o); }
    else {
        for (long o = 0; o < size; o += stride) s.insert(o);
        for (long b : {0L, 10L, 4096L, 5000L, 8192L, 10000L, 16384L, 32768L, 65536L}) for (long d = -1; d <= 1; ++d) if (b + d >= 0 && b + d < size) s.insert(b + d);
        for (long d = 1; d <= 12 && d <= size; ++d) s.insert(size - d);
        if (size > 65536) for (long unit : {4096L, 5000L, 8192L}) for (long b = unit; b < size; b += unit) for (long d = -1; d <= 1; ++d) if (b + d < size) s.insert(b + d);
    }
    return std::vector<long>(s.begin(), s.end());
}

bool g_force_every = false;      // development aid: "--every-offset" enumerates every offset for every plan kind and history

std::vector<Plan> plans_for(const Cfg& c, const Dry& d, bool thorough) {
    std::vector<Plan> v;
    auto add = [&](const char* kind, long n, int err) { Plan p; p.kind = kind; p.n = n; p.err = err; v.push_back(p); };
    add("none", 0, 0);
    if (c.hist == 'E') {                        // encoder failure: every way in turn carries the unencodable tag value
        int nways = 0; for (auto& o : g_hist.at('E').objs) if (o.type == 'w') ++nways;
        for (int j = 0; j < nways; ++j) add("encoder", j, 0);
        return v;
    }
    const bool stdio = c.comp == "bz2";         // libbz2 writes through stdio: write() inside libc is not interposable
    // which lists are complete: quick - the kernel (RLIMIT_FSIZE) faults of history A with the fast producer and fsync (a
    // superset of the calls made without fsync); thorough - histories A and B everywhere, history L for the kernel faults
    // with fsync; the rest is strided
    const bool every = g_force_every || (thorough && (c.hist == 'A' || c.hist == 'B'));
    const bool every_rlimit = every || (thorough && c.hist == 'L' && !c.paced && c.fsync) || (!thorough && c.hist == 'A' && !c.paced && c.fsync);
    const long stride = c.hist == 'H' ? (thorough ? 997 : 9973) : c.hist == 'L' ? (thorough ? 13 : 251) : 7;
    const std::vector<long> offs = offsets(d.size, every, stride);
    for (long o : offsets(d.size, every_rlimit, stride)) add("rlimit", o, EFBIG);
    const bool offset_sim = thorough || c.hist != 'H';      // quick, history H: kernel faults and call indices only
    if (!stdio) {
        if (offset_sim) for (long o : offs) add("write_off", o, (o & 1) ? EIO : ENOSPC);
        if (thorough && c.hist != 'L') for (long o : offs) add("write_off", o, (o & 1) ? ENOSPC : EIO);
        for (int n = 1; n <= d.st.n_write; ++n) { add("write_nth", n, ENOSPC); add("write_nth", n, EIO); add("write_eintr", n, EINTR); }
        for (long m : offsets(d.st.max_write_len, every, stride)) if (m >= 1) add("write_short", m, 0);
        for (int n = 1; n <= d.st.n_close; ++n) { add("close_nth", n, EIO); add("close_nth", n, ENOSPC); }
    } else {
        if (offset_sim) for (long o : offs) add("fwrite_off", o, (o & 1) ? EIO : ENOSPC);
        for (int n = 1; n <= d.st.n_fwrite; ++n) { add("fwrite_nth", n, ENOSPC); add("fwrite_nth", n, EIO); }
        for (int n = 1; n <= d.st.n_fflush; ++n) { add("fflush_nth", n, ENOSPC); add("fflush_nth", n, EIO); }
        for (int n = 1; n <= d.st.n_fclose; ++n) { add("fclose_nth", n, ENOSPC); add("fclose_nth", n, EIO); }
    }
    for (int n = 1; n <= d.st.n_fsync; ++n) { add("fsync_nth", n, EIO); add("fsync_nth", n, ENOSPC); }
    return v;
}

struct Group { std::string name; std::vector<Cfg> cfgs; };

std::vector<Group> groups(bool T) {
    std::vector<Group> g;
    const std::vector<std::string> fmts = {"osm", "opl", "pbf"}, comps = {"none", "gz", "bz2"};
    auto product = [&](const std::string& name, char hist, int q, int pool, int paced) {
        Group gr; gr.name = name;
        for (auto& f : fmts) for (auto& cm : comps) for (int fs = 0; fs < 2; ++fs) gr.cfgs.push_back(Cfg{f, cm, fs, hist, q, pool, paced});
        g.push_back(gr);
    };
    product(std::string("history A (3 buffers), output queue 2, pool 1: ") + (T ? "every byte offset for every offset plan" : "every byte offset through RLIMIT_FSIZE with fsync, other offset plans strided by 7 + buffer boundaries") + ", every call index", 'A', 2, 1, 0);
    {
        Group gr; gr.name = "encoder failure (OPL, locations_on_ways, tag value ending in an incomplete UTF-8 sequence), every way position";
        for (auto& cm : comps) for (int fs = 0; fs < 2; ++fs) for (int paced = 0; paced < 2; ++paced) gr.cfgs.push_back(Cfg{"opl", cm, fs, 'E', 2, paced ? 2 : 1, paced});
        g.push_back(gr);
    }
    product(std::string("history A, paced producer (errors surface from operator()/flush()), queue 20, pool 2: ") + (T ? "every byte offset" : "offsets strided by 7 + buffer boundaries"), 'A', 20, 2, 1);
    product(std::string("history B (512 byte internal buffer, operator()(Item) flushes by itself), paced producer: ") + (T ? "every byte offset" : "offsets strided by 7 + buffer boundaries"), 'B', 2, 2, 1);
    {
        Group gr; gr.name = std::string("history H (650 KB of XML: BZ2_bzWrite and gzwrite themselves write to the file): offsets strided by ") + (T ? "997" : "9973 (RLIMIT_FSIZE only)") + " + all multiples of 4096/5000/8192 +-1, every call index";
        for (const char* cm : {"bz2", "gz"}) for (int fs = T ? 0 : 1; fs < 2; ++fs) gr.cfgs.push_back(Cfg{"osm", cm, fs, 'H', 20, 2, 0});     // quick: with fsync only
        g.push_back(gr);
    }
    product(std::string("history L (output larger than the zlib/stdio buffers): ") + (T ? "every byte offset through RLIMIT_FSIZE with fsync, other offset plans strided by 13 + buffer boundaries" : "offsets strided by 251 + buffer boundaries"), 'L', 3, 2, 0);
    if (T) product("history L, paced producer: offsets strided by 13 + buffer boundaries", 'L', 20, 1, 1);
    return g;
}

}  // namespace

int main(int argc, char** argv) {
    benum::Args a = benum::parse_args(argc, argv);
    signal(SIGXFSZ, SIG_IGN);
    c08f::stats();
    g_dry = static_cast<Dry*>(mmap(nullptr, sizeof(Dry), PROT_READ | PROT_WRITE, MAP_SHARED | MAP_ANONYMOUS, -1, 0));
    benum::Counters counters; g_cnt = &counters;
    for (char h : {'A', 'B', 'E', 'L', 'H'}) g_hist[h] = make_history(h);
    mkdir("/verif/build", 0777);
    mkdir("/verif/build/C08-data", 0777);
    const std::string scratch = "/verif/build/C08-data/f" + std::to_string(getpid());      // scratch directory of this process, removed at the end
    mkdir(scratch.c_str(), 0777);
    g_path_base = scratch + "/w";
    struct Cleanup { std::string dir; ~Cleanup() {
        if (DIR* d = opendir(dir.c_str())) { while (dirent* e = readdir(d)) if (e->d_name[0] != '.') unlink((dir + "/" + e->d_name).c_str()); closedir(d); }
        rmdir(dir.c_str());
    } } cleanup{scratch};      // runs in this process only (children leave through _exit)

    if (a.replay) {
        // one case; real threads make the point where an error surfaces timing dependent, so a recorded
        // violation is looked for in up to 20 runs of the same case
        Cfg c; Plan p;
        if (!parse_spec(a.replay_spec, c, p) || !g_hist.count(c.hist)) { fprintf(stderr, "bad replay spec\n"); return 2; }
        const std::string path = g_path_base + "-replay." + c.ext();
        bool seen = false;
        for (int attempt = 0; attempt < 20 && !seen; ++attempt) {
            fflush(stdout);
            pid_t pid = fork();
            if (pid == 0) {
                alarm(600);
                const int efd = open((path + ".err").c_str(), O_WRONLY | O_CREAT | O_TRUNC, 0600);   // what the child says when it dies
                if (efd >= 0) { dup2(efd, 2); close(efd); }
                // timing aid: the later attempts pace the producer (same data, same plan; only the moment at which the
                // producer makes its next call changes), so that an error is noticed by operator()/flush() already
                Cfg c2 = c;
                if (attempt >= 8) c2.paced = 1;
                Outcome o = run_history(c2, p, path);
                const bool bad = judge(c2, p, o, path, true);
                unlink(path.c_str());
                _exit(bad ? 1 : 0);
            }
            int status = 0;
            waitpid(pid, &status, 0);
            if (WIFSIGNALED(status)) {
                const std::string what = WTERMSIG(status) == SIGALRM ? "hang" : "signal:" + std::to_string(WTERMSIG(status));
                const std::string err = benum::slurp(path + ".err");
                benum::viol("writer/" + benum::death_class(what, err) + "/" + c.ext() + "/" + p.kind, "[" + a.replay_spec + "] child died: " + what + " | " + benum::clean(err.substr(0, 600)), a.replay_spec);
                seen = true;
            } else if (WEXITSTATUS(status) == 1) seen = true;
        }
        unlink(path.c_str());
        unlink((path + ".err").c_str());
        return 0;
    }

    std::string only_hist;
    for (size_t i = 0; i < a.rest.size(); ++i) {
        if (a.rest[i] == "--every-offset") g_force_every = true;
        if (a.rest[i] == "--only-hist" && i + 1 < a.rest.size()) only_hist = a.rest[i + 1];
    }
    for (size_t i = 0; i + 2 < a.rest.size(); ++i) if (a.rest[i] == "--leaktest") {     // development aid: same case n times in one process
        Cfg c; Plan p; parse_spec(a.rest[i + 1], c, p);
        const std::string path = g_path_base + "-leak." + c.ext();
        for (int k = 0, n = atoi(a.rest[i + 2].c_str()); k < n; ++k) {
            Outcome o = run_history(c, p, path); judge(c, p, o, path, true);
            if (k % (n / 10 ? n / 10 : 1) == 0) { std::string st = benum::slurp("/proc/self/statm"); printf("iter %d statm %s", k, st.c_str()); }
        }
        unlink(path.c_str());
        return 0;
    }
    std::vector<Group> G = groups(a.thorough);
    if (!only_hist.empty()) {
        std::vector<Group> keep;
        for (auto& gr : G) if (gr.cfgs[0].hist == only_hist[0]) keep.push_back(gr);
        G = keep;
    }
    unsigned gi = 0;
    for (const Group& gr : G) {
        ++gi;
        if (a.expired()) { benum::bound(gr.name, false); continue; }
        // plan lists (every shard computes the same lists: the fault-free run is deterministic in size and call counts)
        struct Case { const Cfg* c; Plan p; };
        std::vector<Case> cases;
        std::vector<Dry> dries(gr.cfgs.size());
        bool dry_ok = true;
        for (size_t i = 0; i < gr.cfgs.size(); ++i) {
            const Cfg& c = gr.cfgs[i];
            if (!dry_run(c, dries[i])) {
                dry_ok = false;
                if (a.shard == 0) benum::viol("writer/fault-free-history-fails/" + c.ext(), "[" + c.name() + "|none:0:0] " + dries[i].msg, c.name() + "|none:0:0");
                continue;
            }
            for (const Plan& p : plans_for(c, dries[i], a.thorough)) cases.push_back(Case{&c, p});
            if (a.shard == 0) {
                benum::maxv("output_bytes_" + c.ext() + "_hist" + c.hist, static_cast<uint64_t>(dries[i].size));
                if (c.fsync == 1 && (c.hist == 'A' || c.hist == 'L' || c.hist == 'H'))
                    benum::note(c.name() + ": fault-free output " + std::to_string(dries[i].size) + " bytes; calls write/fsync/close/fwrite/fflush/fclose = " + std::to_string(dries[i].st.n_write) + "/" +
                                std::to_string(dries[i].st.n_fsync) + "/" + std::to_string(dries[i].st.n_close) + "/" + std::to_string(dries[i].st.n_fwrite) + "/" + std::to_string(dries[i].st.n_fflush) + "/" +
                                std::to_string(dries[i].st.n_fclose) + ", longest write " + std::to_string(dries[i].st.max_write_len));
            }
        }
        benum::Sampler sampler(a.seed + gi, 2, 4999);
        const std::string path_stem = g_path_base + "-g" + std::to_string(gi);
        auto body = [&](uint64_t rank) {
            const Case& cs = cases[rank];
            const std::string path = path_stem + "." + cs.c->ext();
            Outcome o = run_history(*cs.c, cs.p, path);
            judge(*cs.c, cs.p, o, path);
            if (sampler.want(rank)) {
                std::ostringstream s;
                s << cs.c->name() << " | plan " << cs.p.name() << " -> " << (o.threw_at == -1 ? "no exception, close() = " + std::to_string(o.size) + ", file verified" : where_name(*cs.c, o) + " threw " + o.ex_type + " '" + o.ex_what + "'")
                  << " [injected=" << o.st.injected << " failing-calls-seen=" << o.st.natural << " errno=" << o.st.natural_errno << " bytes-through-write=" << o.st.bytes << "]";
                benum::sample(s.str());
            }
            unlink(path.c_str());
            // libbz2 keeps its compression state (several MB) when BZ2_bzWriteClose64 fails and the library never calls it
            // again with abandon=1: a child that runs thousands of failing cases grows. Recycle it (exit code 77 makes
            // run_isolated start a fresh child at the next rank; the case is already judged and counted).
            long vsz = 0, rss = 0;
            if (sscanf(benum::slurp("/proc/self/statm").c_str(), "%ld %ld", &vsz, &rss) == 2 && (rss > 32768 || vsz > 1048576)) { fflush(stdout); _exit(77); }
        };
        bool lost_cases = false;
        std::function<void(uint64_t, const std::string&, const std::string&)> on_death;
        on_death = [&](uint64_t rank, const std::string& what, const std::string& err) {
            if (what == "exit:77") { counters["note_children_recycled_for_memory"]++; return; }
            if (what == "signal:9") {
                // nothing in the library sends SIGKILL and the watchdog's own kill is reported as "hang": the environment
                // (the kernel's OOM killer on a shared machine) took the child. Not a verdict: run the case once more, alone.
                counters["note_children_killed_by_environment"]++;
                static bool retrying = false;
                if (retrying) { lost_cases = true; return; }
                retrying = true;
                benum::Args one = a; one.nshards = 1; one.shard = 0;
                benum::Isolation iso1; iso1.case_timeout_s = 30.0;
                benum::run_isolated(one, rank, rank + 1, body, on_death, iso1);
                retrying = false;
                return;
            }
            const Case& cs = cases[rank];
            const std::string spec = cs.c->name() + "|" + cs.p.name();
            counters["evaluations"]++;
            g_viol.report("writer/" + benum::death_class(what, err) + "/" + cs.c->ext() + "/" + cs.p.kind, "[" + spec + "] child died: " + what + " | " + benum::clean(err.substr(0, 600)), spec);
            unlink((path_stem + "." + cs.c->ext()).c_str());
        };
        // watchdog: a case takes milliseconds (history H: ~0.1 s); a child silent for 8 s (H: 20 s) is killed and the case is
        // re-run alone with ten times that limit before it counts as a hang
        benum::Isolation iso; iso.case_timeout_s = gr.cfgs[0].hist == 'H' ? 20.0 : 8.0;
        const auto t_start = std::chrono::steady_clock::now();
        const bool complete = benum::run_isolated(a, 0, cases.size(), body, on_death, iso);
        if (a.shard == 0) benum::note("group " + std::to_string(gi) + ": " + std::to_string(cases.size()) + " cases over all shards, " + std::to_string(static_cast<int>(std::chrono::duration<double>(std::chrono::steady_clock::now() - t_start).count())) + " s in shard 0");
        benum::bound(gr.name, complete && dry_ok && !lost_cases);
    }
    counters.emit();
    return 0;
}
