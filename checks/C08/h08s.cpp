// C08, interleaving axis - the Writer with a failing compressor / encoder under the vsched scheduler.
//
// The real osmium::io::Writer (OPL encoder in real pool workers, real write thread, real queues and
// futures) writes through a mock compressor registered in the library's CompressionFactory - the seam the
// repo's own test_writer_with_mock_compression.cpp uses - whose j-th write() or whose close() throws; or
// the OPL encoder itself throws in the pool worker (a tag value ending in an incomplete UTF-8 sequence).
// Every schedule of producer, pool workers and write thread with <= k deviations is executed.
//
// ORACLE per execution: no deadlock / livelock / hang / leaked thread (scheduler); with a fault some call
// among operator()/flush()/close() throws, and after an exception from operator()/flush() further
// operator() calls throw; without a fault no call throws and the compressor received exactly the bytes of
// the reference run, whose decoding (Reader, outside the exploration) equals the abstract objects.
#define OSMIUM_TEST_RUNNER
#include <cstdlib>
#include <map>
#include <string>
namespace osmium { namespace detail {
    static std::map<std::string, std::string> g_env;
    inline const char* getenv_wrapper(const char* var) noexcept {
        auto it = g_env.find(var);
        return it == g_env.end() ? nullptr : it->second.c_str();
    }
} }

#include <vsched/vsched.hpp>
#include <ref/osmdata.hpp>

#include <osmium/io/compression.hpp>
#include <osmium/io/opl_input.hpp>
#include <osmium/io/opl_output.hpp>
#include <osmium/io/pbf_input.hpp>
#include <osmium/io/pbf_output.hpp>
#include <osmium/io/reader.hpp>
#include <osmium/io/writer.hpp>
#include <osmium/thread/pool.hpp>

#include <dirent.h>
#include <sys/stat.h>
#include <sys/wait.h>
#include <unistd.h>

#include <algorithm>
#include <chrono>
#include <condition_variable>
#include <mutex>
#include <sstream>
#include <vector>

using osmdata::Obj;

namespace {

struct MockPlan { int fail_write = 0; bool fail_close = false; bool fail_ctor = false; } g_mp;
struct MockStats { int writes = 0, closes = 0, writes_after_failure = 0; bool failed = false; std::string data; } g_ms;

class MockCompressor final : public osmium::io::Compressor {
    int m_fd;
public:
    MockCompressor(int fd, osmium::io::fsync sync) : Compressor(sync), m_fd(fd) {
        if (g_mp.fail_ctor) { ::close(fd); throw std::runtime_error{"injected constructor error"}; }
    }
    ~MockCompressor() noexcept override { if (m_fd >= 0) ::close(m_fd); }
    void write(const std::string& data) override {
        ++g_ms.writes;
        if (g_ms.failed) ++g_ms.writes_after_failure;
        if (g_ms.writes == g_mp.fail_write) { g_ms.failed = true; throw std::runtime_error{"injected write error"}; }
        g_ms.data += data;
    }
    void close() override {
        if (++g_ms.closes == 1 && g_mp.fail_close) { g_ms.failed = true; throw std::runtime_error{"injected close error"}; }
    }
    std::size_t file_size() const override { return g_ms.data.size(); }
};

struct Cfg {
    std::string fault; int pos; int pool; int q; int paced;
    bool pbf = false;      // PBF instead of OPL: the producer encodes into primitive blocks, the pool workers serialise and compress them
    std::string name() const { std::ostringstream o; o << "fault=" << fault << "@" << pos << ",pool=" << pool << ",q=" << q << ",paced=" << paced << (pbf ? ",pbf" : ""); return o.str(); }
};

// Paced producer: after each call the producer sleeps (timed wait on a private condition variable that nobody
// signals). Under the scheduler a timed-out wait is free only when no other thread can run, so the pool workers
// and the write thread run until they block before the producer goes on: errors then surface from
// operator()/flush() instead of close(), and the deviation budget explores the neighbourhood of that schedule.
void pause_producer() {
    static std::mutex mtx; static std::condition_variable cv;
    // the producer is not a polling loop: it did something between two pauses ("store:" points count as progress
    // for the scheduler's livelock detector even if the call before touched no synchronisation object)
    vsched::point("store:producer.pace");
    std::unique_lock<std::mutex> lock{mtx};
    cv.wait_for(lock, std::chrono::milliseconds(1));
}

std::vector<Obj> g_objs;         // 2 nodes, 2 ways, 2 relations
std::string g_ref;               // bytes the compressor receives in a fault-free run (OPL)
std::string g_ref_pbf;           // ... PBF
int g_ref_writes = 0;            // Compressor::write() calls of that run
std::string g_dir;

void build(osmium::memory::Buffer& buf, const Obj& o, bool bad) {
    if (o.type != 'w') { osmdata::build_object(buf, o); return; }
    using namespace osmium::builder;
    WayBuilder b{buf};
    b.set_id(o.id).set_version(o.version).set_changeset(o.changeset).set_uid(o.uid).set_timestamp(o.ts).set_visible(true);
    b.set_user(o.user);
    // the bad way: a tag value ending in an incomplete UTF-8 sequence makes the OPL encoder throw std::out_of_range in the pool worker
    { TagListBuilder tb{b}; for (auto& t : o.tags) tb.add_tag(t.first, t.second); if (bad) tb.add_tag("bad", "x\xE2\x82"); }
    {
        WayNodeListBuilder wb{b};
        for (size_t i = 0; i < o.refs.size(); ++i)
            wb.add_node_ref(osmium::NodeRef{o.refs[i], osmium::Location{int32_t(100 * o.refs[i]), int32_t(7)}});
    }
    buf.commit();
}

// script: operator()(Buffer{n,n}); operator()(Item way0); operator()(Item way1); flush(); operator()(Buffer{r,r}); close()
struct Result { int threw_at = -1; std::string what; bool is_io_error = false; std::string refusal; bool closed_ok = false; size_t size = 0; };

Result drive(const Cfg& c) {
    auto& env = osmium::detail::g_env;
    env.clear();
    env["OSMIUM_MAX_OUTPUT_QUEUE_SIZE"] = std::to_string(c.q); env["OSMIUM_MAX_WORK_QUEUE_SIZE"] = std::to_string(c.q);
    g_mp = MockPlan(); g_ms = MockStats();
    if (c.fault == "write") g_mp.fail_write = c.pos;
    if (c.fault == "close") g_mp.fail_close = true;
    if (c.fault == "ctor") g_mp.fail_ctor = true;
    const int bad_way = c.fault == "encoder" ? c.pos : -1;
    const std::string path = g_dir + "/" + std::to_string(getpid()) + (c.pbf ? ".osm.pbf.gz" : ".opl.gz");
    Result r;
    {
        osmium::thread::Pool pool{c.pool, 0};
        osmium::io::File file{path};
        file.set("locations_on_ways", true);
        std::unique_ptr<osmium::io::Writer> w;
        try { w.reset(new osmium::io::Writer{file, osmium::io::overwrite::allow, pool}); }
        catch (const std::exception& e) { r.threw_at = 0; r.what = e.what(); }
        if (w) {
            int step = 0;
            auto call = [&](const std::function<void()>& f) {
                ++step;
                if (r.threw_at != -1) return;
                try { f(); }
                catch (const osmium::io_error& e) { r.threw_at = step; r.what = e.what(); r.is_io_error = true; }
                catch (const std::exception& e) { r.threw_at = step; r.what = e.what(); }
                if (c.paced && r.threw_at == -1) pause_producer();
            };
            auto item = [&](int k, bool bad) { call([&] { osmium::memory::Buffer b{1024, osmium::memory::Buffer::auto_grow::yes}; build(b, g_objs[k], bad); (*w)(b.get<osmium::memory::Item>(0)); }); };
            call([&] { osmium::memory::Buffer b{1024, osmium::memory::Buffer::auto_grow::yes}; build(b, g_objs[0], false); build(b, g_objs[1], false); (*w)(std::move(b)); });
            item(2, bad_way == 0);
            item(3, bad_way == 1);
            call([&] { w->flush(); });
            call([&] { osmium::memory::Buffer b{1024, osmium::memory::Buffer::auto_grow::yes}; build(b, g_objs[4], false); build(b, g_objs[5], false); (*w)(std::move(b)); });
            if (r.threw_at == -1) {
                call([&] { r.size = w->close(); r.closed_ok = true; });
            } else {
                auto refused = [&](const char* what, const std::function<void()>& f) {
                    try { f(); r.refusal += std::string(what) + " accepted after an exception; "; } catch (const std::exception&) {}
                };
                refused("operator()(Item)", [&] { osmium::memory::Buffer b{1024, osmium::memory::Buffer::auto_grow::yes}; build(b, g_objs[0], false); (*w)(b.get<osmium::memory::Item>(0)); });
                refused("operator()(Buffer)", [&] { osmium::memory::Buffer b{1024, osmium::memory::Buffer::auto_grow::yes}; build(b, g_objs[0], false); (*w)(std::move(b)); });
                try { w->close(); } catch (const std::exception&) {}
            }
            w.reset();      // joins the write thread
        }
    }   // ~Pool joins the workers
    unlink(path.c_str());
    return r;
}

const char* step_name(int s) {
    static const char* n[] = {"constructor", "operator()(Buffer)#1", "operator()(Item)#1", "operator()(Item)#2", "flush", "operator()(Buffer)#2", "close"};
    return s >= 0 && s <= 6 ? n[s] : "?";
}

void body(const Cfg& c) {
    Result r = drive(c);
    const std::string tag = c.fault;
    // A planned write fault that was never reached (the write thread handed the data to the compressor in fewer
    // write() calls than the planned position) injected nothing: the run must then behave like a fault-free one.
    const bool not_reached = c.fault == "write" && !g_ms.failed;
    if (c.fault == "none" || not_reached) {
        if (r.threw_at != -1) vsched::fail("writer-sched/spurious-exception", std::string(step_name(r.threw_at)) + " threw: " + r.what);
        else if (g_ms.data != (c.pbf ? g_ref_pbf : g_ref)) vsched::fail(std::string("writer-sched/output-differs-from-reference") + (c.pbf ? "/pbf" : ""), std::to_string(g_ms.data.size()) + " bytes reached the compressor, reference has " + std::to_string((c.pbf ? g_ref_pbf : g_ref).size()));
        else if (r.size != (c.pbf ? g_ref_pbf : g_ref).size()) vsched::fail("writer-sched/close-returns-wrong-size", std::to_string(r.size) + " vs " + std::to_string((c.pbf ? g_ref_pbf : g_ref).size()));
        if (g_ms.closes < 1) vsched::fail("writer-sched/compressor-not-closed", "close() returned but Compressor::close() was never called");
    } else {
        if (r.threw_at == -1) vsched::fail("writer-sched/error-lost/" + tag, "the injected failure fired (compressor writes=" + std::to_string(g_ms.writes) + " closes=" + std::to_string(g_ms.closes) + ") but no call threw; close() returned " + std::to_string(r.size));
        if (!r.refusal.empty()) vsched::fail("writer-sched/no-refusal-after-error/" + tag, r.refusal + "first exception from " + step_name(r.threw_at));
        if (g_ms.writes_after_failure > 0) vsched::fail("writer-sched/compressor-written-after-failure/" + tag, std::to_string(g_ms.writes_after_failure) + " write() calls after the compressor had failed");
    }
    vsched::observe(not_reached ? "fault position not reached (" + std::to_string(g_ms.writes) + " compressor writes); success" : r.threw_at == -1 ? "success" : std::string("exception from ") + step_name(r.threw_at) + ": " + r.what.substr(0, 40));
}

}  // namespace

int main(int argc, char** argv) {
    vsched::Main m(argc, argv);
    const bool T = m.thorough();
    osmium::io::CompressionFactory::instance().register_compression(osmium::io::file_compression::gzip,
        [](int fd, osmium::io::fsync s) { return new MockCompressor(fd, s); },
        [](int) { return nullptr; },
        [](const char*, size_t) { return nullptr; });
    mkdir("/verif/build", 0777);
    mkdir("/verif/build/C08-data", 0777);
    g_dir = "/verif/build/C08-data/s" + std::to_string(getpid());      // scratch directory of this run, removed at the end
    mkdir(g_dir.c_str(), 0777);
    struct Cleanup { ~Cleanup() {
        if (DIR* d = opendir(g_dir.c_str())) { while (dirent* e = readdir(d)) if (e->d_name[0] != '.') unlink((g_dir + "/" + e->d_name).c_str()); closedir(d); }
        rmdir(g_dir.c_str());
    } };
    Cleanup cleanup;      // runs in the parent only (workers and the replay child leave through _exit)
    {
        auto d = osmdata::dataset();        // nodes 0-3, ways 4-7, relations 8-10
        g_objs = {d[0], d[1], d[4], d[5], d[8], d[9]};
    }
    // reference: fault-free run on real threads (no exploration active), decoded and compared with the abstract objects
    {
        Cfg c{"none", 0, 1, 20, 0};
        Result r = drive(c);
        g_ref = g_ms.data;
        std::vector<std::string> got, want;
        for (auto& o : g_objs) want.push_back(osmdata::canon(o, true));
        bool ok = r.threw_at == -1;
        if (ok) {
            try {
                osmium::thread::Pool pool{1, 0};
                osmium::io::Reader rd{osmium::io::File{g_ref.data(), g_ref.size(), "opl"}, pool};
                while (osmium::memory::Buffer b = rd.read()) for (const auto& o : b.select<osmium::OSMObject>()) got.push_back(osmdata::canon(o, true));
                rd.close();
            } catch (const std::exception&) { ok = false; }
        }
        g_ref_writes = g_ms.writes;
        if (!ok || got != want) {
            printf("VIOL\twriter-sched/fault-free-reference-run-fails\treference run: %s; %zu objects decoded, %zu written\tfault=none@0,pool=1,q=20|-\n", r.threw_at == -1 ? "no exception" : r.what.c_str(), got.size(), want.size());
            fflush(stdout);
        }
    }
    // PBF reference: fault-free run on real threads, decoded and compared with the abstract objects
    {
        Cfg c{"none", 0, 1, 20, 0}; c.pbf = true;
        Result r = drive(c);
        g_ref_pbf = g_ms.data;
        std::vector<std::string> got, want;
        for (auto& o : g_objs) want.push_back(osmdata::canon(o, true));
        bool ok = r.threw_at == -1;
        if (ok) {
            try {
                osmium::thread::Pool pool{1, 0};
                osmium::io::Reader rd{osmium::io::File{g_ref_pbf.data(), g_ref_pbf.size(), "pbf"}, pool};
                while (osmium::memory::Buffer b = rd.read()) for (const auto& o : b.select<osmium::OSMObject>()) got.push_back(osmdata::canon(o, true));
                rd.close();
            } catch (const std::exception&) { ok = false; }
        }
        if (!ok || got != want) {
            printf("VIOL\twriter-sched/fault-free-reference-run-fails/pbf\treference run: %s; %zu objects decoded, %zu written\tfault=none@0,pool=1,q=20,pbf|-\n", r.threw_at == -1 ? "no exception" : r.what.c_str(), got.size(), want.size());
            fflush(stdout);
        }
    }
    std::vector<Cfg> cfgs;
    // PBF: the producer fills primitive blocks, pool workers serialise them - fault-free runs compared byte for byte, a write fault
    for (int pool : {1, 2}) for (const char* f : {"none", "write"}) { Cfg c{f, 1, pool, 2, 0}; c.pbf = true; cfgs.push_back(c); }
    for (int paced : {0, 1}) for (int pool : {1, 2}) for (int q : {2, 20}) {
        if (q == 20 && !T && !(pool == 1 && paced == 1)) continue;      // quick: the large queue only with the paced producer
        cfgs.push_back(Cfg{"none", 0, pool, q, paced});
        // fault positions: the first three Compressor::write() calls the fault-free reference run makes (a tree that
        // coalesces small pieces makes fewer calls; positions beyond the last call would inject nothing)
        for (int j = 1; j <= 3 && j <= std::max(1, g_ref_writes); ++j) cfgs.push_back(Cfg{"write", j, pool, q, paced});
        cfgs.push_back(Cfg{"close", 0, pool, q, paced});
        cfgs.push_back(Cfg{"encoder", 0, pool, q, paced});
        cfgs.push_back(Cfg{"encoder", 1, pool, q, paced});
        if (!paced) cfgs.push_back(Cfg{"ctor", 0, pool, q, paced});
    }
    const int maxb = T ? 2 : 1;
    if (m.replay_mode()) {
        // the engine reports a worker killed by a signal as crash/signal-N; a replay reproduces that key by
        // running the recorded schedule in a child and looking at how the child ends
        fflush(stdout);
        const pid_t pid = fork();
        if (pid == 0) {
            for (auto& c : cfgs) { vsched::Options o; o.delay_bounded = true; m.run(c.name(), [&] { body(c); }, o); }
            fflush(stdout);
            _exit(0);
        }
        int status = 0;
        waitpid(pid, &status, 0);
        if (WIFSIGNALED(status)) { printf("VIOL\tcrash/signal-%d\tthe replayed execution died by signal %d\t-\n", WTERMSIG(status), WTERMSIG(status)); fflush(stdout); }
        return 0;
    } else {
        for (int b = 0; b <= 2; ++b) for (auto& c : cfgs) {
            // quick: two deviations only where an OS-level fault meets a full output queue (one write thread, one worker, q=2,
            // free-running producer): "producer inside push() while the write thread fails and shuts the queue down" needs one
            // deviation to park the write thread after its pop and one to switch inside the producer's wait entry
            const bool deep = c.paced == 0 && c.q == 2 && c.pool == 1 && (c.fault == "write" || c.fault == "close");
            if (b > maxb && !(b == 2 && deep)) continue;
            vsched::Options o; o.delay_bounded = true; o.min_bound = b; o.max_bound = b; o.workers = 16;
            m.run(c.name(), [&] { body(c); }, o);
        }
    }
    return m.finish();
}
