"""C08 - Writer produces the complete file or throws; OS write errors are never lost (DESIGN.md section 5, C08)."""
LEVEL = "fault_enumeration"
RULE = ("fault plans enumerated on the real osmium::io::Writer (real write thread, pool, zlib, libbz2), one forked child per case: "
        "{xml, opl, pbf} x {none, gz, bz2} x fsync {no, yes} x histories of operator()(Buffer), operator()(Item), flush(), close() "
        "(A: 3 buffers, 1.3-5 KiB of output; B: A with a 512 byte internal buffer; L: output larger than the zlib/stdio buffers; "
        "H: 650 KB of XML, so that BZ2_bzWrite/gzwrite themselves write) x output queue/pool sizes x fast|paced producer. Per configuration the plan list is: "
        "RLIMIT_FSIZE = o for every byte offset o of the fault-free output (kernel EFBIG after a partial write); the same offsets with "
        "ENOSPC/EIO through interposed write() (plain, gzip) or fwrite() (bzip2); the n-th write/fsync/close/fwrite/fflush/fclose fails "
        "(ENOSPC and EIO) for every n up to the call count of the fault-free run; the n-th write fails with EINTR once; every write "
        "transfers at most m bytes for every m below the longest write; OPL encoder failure (invalid way node location with "
        "locations_on_ways) at every way position. quick strides the offsets (7|61|9973 + buffer boundaries +-1 + the last 12) for all but "
        "history A/fast; thorough enumerates every offset for histories A and B (all offset plans) and for history L (RLIMIT_FSIZE plans with fsync; the rest strided by 13). Oracle: either a call threw, or close() returned the "
        "file's size and the file - decompressed by an own inflate/BZ2 loop that demands complete framing - decodes with the Reader to "
        "exactly the abstract objects handed over; a fired error plan followed by success is 'error-lost'; after an exception from "
        "operator()/flush() further operator() calls must throw; thread count before == after; crash/hang of the child is a violation "
        "(hang re-run alone with x10 limit). distinct_nontrivial = plans whose injector fired (injected or observed failing call > 0). "
        "Second harness (vsched): the Writer with a failing mock compressor / mock encoder under every schedule with <= 1 deviation.")
DEADLINE = {"quick": 200, "thorough": 1100}


def build(ctx):
    vs = ctx.vsched_obj()
    exes = ctx.build_many([dict(name="h08", sources=["h08.cpp"], opt="-O1", libs=["-ldl"]),
                           dict(name="h08s", sources=["h08s.cpp"], opt="-O1", objects=[vs])])
    return {"h08": exes[0], "h08s": exes[1]}


def run(ctx):
    exes = build(ctx)
    if getattr(ctx, "build_only", False):
        return
    ctx.run_harness(exes["h08"], [], shards=16)
    # schedule exploration with a failing mock compressor / encoder; its schedule counts are kept apart from the
    # fault-plan counts (evaluations / distinct_nontrivial speak about fault plans)
    before = {k: ctx.cov.get(k, 0) for k in ("evaluations", "distinct_nontrivial")}
    ctx.run_harness(exes["h08s"], [])
    ctx.cov["schedules_explored"] = ctx.cov.get("evaluations", 0) - before["evaluations"]
    ctx.cov["schedules_deviating_from_default"] = ctx.cov.get("distinct_nontrivial", 0) - before["distinct_nontrivial"]
    ctx.cov.update(before)
    if ctx.cov.get("rlimit_plans_not_fired", 0):
        ctx.notes.append("%d RLIMIT_FSIZE plans below the output size did not make any libc call fail" % ctx.cov["rlimit_plans_not_fired"])
    ctx.assume("output of the fault-free run is deterministic in size and in the number of libc calls (measured per configuration by a "
               "dry run); real threads: which call reports the error depends on timing, the verdict does not")
