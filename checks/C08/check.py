"""C08 - Writer produces the complete file or throws; OS write errors are never lost (DESIGN.md section 5, C08)."""
LEVEL = "fault_enumeration"
RULE = ("fault plans enumerated on the real osmium::io::Writer (real write thread, pool, zlib, libbz2) in forked children: "
        "{xml, opl, pbf} x {none, gz, bz2} x fsync {no, yes} x histories of operator()(Buffer), operator()(Item), flush(), close() "
        "(A: 3 buffers, 0.6-4 KiB of output; B: A with a 512 byte internal buffer; L: 14-44 KiB, larger than the zlib/stdio buffers; "
        "H: 650 KB of XML through gz/bz2 so that gzwrite/BZ2_bzWrite themselves write; E: OPL with locations_on_ways) x output "
        "queue {2,3,20} / pool {1,2} x fast|paced producer. Plan list per configuration (lengths taken from a fault-free dry run): "
        "RLIMIT_FSIZE = o for every byte offset o of the output (kernel: partial write up to o, then EFBIG - also inside stdio); the "
        "same offsets with ENOSPC/EIO through interposed write() (plain, gzip) or fwrite() (bzip2); the n-th "
        "write/fsync/close/fwrite/fflush/fclose on the output fails (ENOSPC and EIO) for every n; the n-th write fails once with "
        "EINTR; every write transfers at most m bytes for every m below the longest write; the OPL encoder throws (tag value ending "
        "in an incomplete UTF-8 sequence) for every way position. quick: every offset for history A/fast through RLIMIT_FSIZE with fsync, strides 7 (rest of A, B), 251 (L), 9973 (H, fsync only, kernel "
        "faults only) + buffer boundaries (4096/5000/8192/... +-1) + the last 12 offsets elsewhere; thorough: every offset for A and B "
        "(all offset plans), every offset for L through RLIMIT_FSIZE with fsync, strides 13 (rest of L) and 997 (H). Oracle per case: "
        "either a call threw, or close() returned the file's size and the file - decompressed by an own inflate / BZ2_bzDecompress "
        "loop that demands complete framing and no trailing bytes - decodes with the Reader to exactly the abstract objects handed "
        "over; an error plan whose injector fired followed by success is 'error-lost'; after an exception from operator()/flush() "
        "further operator() calls must throw; thread count afterwards == before; a crashing or hanging child is a violation (hang: "
        "re-run alone with a x10 limit; SIGKILL from outside: re-run, never a verdict). evaluations = (configuration, plan) pairs run; "
        "distinct_nontrivial = those whose injector fired (changed or saw a failing libc call on the output file / bad object handed "
        "over). Second harness (vsched, counted separately as schedules_*): the Writer with a mock compressor whose constructor / j-th "
        "write / close throws, or the OPL encoder failing in the pool worker, fast and paced producer, under every schedule with <= 1 "
        "(thorough <= 2) deviations: an exception must surface in every schedule, no deadlock/livelock/leaked thread, fault-free "
        "schedules deliver the reference bytes.")
DEADLINE = {"quick": 200, "thorough": 1100}


def build(ctx):
    vs = ctx.vsched_obj()
    exes = ctx.build_many([dict(name="h08", sources=["h08.cpp"], opt="-O1", libs=["-ldl"]),
                           dict(name="h08s", sources=["h08s.cpp"], flags=ctx.atomic_points(), opt="-O1", objects=[vs])])
    # the same scheduler-harness bodies free-running on real threads under ThreadSanitizer (guards "no unsynchronised sharing"
    # in the Writer pipeline: producer, pool workers running the encoders, write thread)
    return {"h08": exes[0], "h08s": exes[1], "h08stsan": ctx.build_tsan_free("h08stsan", ["h08s.cpp"])}


def run(ctx):
    exes = build(ctx)
    if getattr(ctx, "build_only", False):
        return
    import os
    ctx.run_harness(exes["h08stsan"], ["--iterations", "20" if ctx.tier == "quick" else "200", "--deadline", "30" if ctx.tier == "quick" else "200"],
                    env={"TSAN_OPTIONS": "halt_on_error=0:exitcode=66:suppressions=" + os.path.join(os.path.dirname(os.path.dirname(ctx.checkdir)), "engine", "vsched", "tsan.supp")},
                    timeout=100 if ctx.tier == "quick" else 400)
    ctx.run_harness(exes["h08"], [], shards=16)
    # schedule exploration with a failing mock compressor / encoder; its schedule counts are kept apart from the
    # fault-plan counts (evaluations / distinct_nontrivial speak about fault plans)
    before = {k: ctx.cov.get(k, 0) for k in ("evaluations", "distinct_nontrivial")}
    ctx.run_harness(exes["h08s"], [])
    ctx.cov["schedules_explored"] = ctx.cov.get("evaluations", 0) - before["evaluations"]
    ctx.cov["schedules_deviating_from_default"] = ctx.cov.get("distinct_nontrivial", 0) - before["distinct_nontrivial"]
    ctx.cov.update(before)
    if ctx.cov.get("rlimit_plans_not_fired", 0):
        ctx.notes.append("%d RLIMIT_FSIZE plans below the output size did not make any libc call fail" % ctx.cov["rlimit_plans_not_fired"])
    ctx.assume("the fault-free output is deterministic in size and in the number of libc calls (measured per configuration by a dry "
               "run whose file is verified); real threads in the fault harness: which call reports the error depends on timing, the "
               "verdict does not (the interleaving axis is covered by the vsched harness: sequentially consistent scheduler, no "
               "spurious wake-ups); bzip2 output goes through stdio, whose write() inside libc cannot be interposed: ENOSPC/EIO at a "
               "byte offset are modelled at the fwrite/fflush/fclose level there, the kernel fault (EFBIG) covers every path")
