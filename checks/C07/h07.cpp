// C07 - the Reader pipeline always terminates and reports the first error to the caller.
// Consumer scripts x fault plans x configurations x schedules (<= k deviations) on the real Reader
// under vsched. OPL/XML input comes through a chunking, fault-injecting decompressor registered in
// the library's CompressionFactory (the seam the repo's own mock-decompressor test uses); PBF input
// comes from real files (corrupted / truncated variants).
#define OSMIUM_TEST_RUNNER
#include <cstdlib>
#include <map>
#include <string>
namespace osmium { namespace detail {
    static std::map<std::string, std::string> g_env;
    inline const char* getenv_wrapper(const char* var) noexcept {
        auto it = g_env.find(var);
        return it == g_env.end() ? nullptr : it->second.c_str();
    }
} }

#include <vsched/vsched.hpp>
#include <ref/osmdata.hpp>

#include <osmium/io/compression.hpp>
#include <osmium/io/opl_input.hpp>
#include <osmium/io/pbf_input.hpp>
#include <osmium/io/xml_input.hpp>
#include <osmium/thread/pool.hpp>

#include <dirent.h>
#include <fcntl.h>
#include <sys/stat.h>
#include <unistd.h>

#include <functional>
#include <sstream>
#include <vector>

using namespace osmdata;

namespace {

// ------------------------------------------------------------------------------------------------
// fault-injecting chunking decompressor (plan is global: one Reader per execution)
struct Plan {
    std::string data;
    size_t chunk = 128;
    std::vector<size_t> pieces;   // if not empty: the n-th read() returns pieces[n] bytes (then `chunk`-sized ones)
    int fail_read = 0;        // the j-th read() throws (1-based); 0 = never
    bool fail_close = false;
} g_plan;

struct MockStats { int reads = 0, reads_after_reader_close = 0, closes = 0; bool reader_closed = false; } g_ms;

class MockDecompressor final : public osmium::io::Decompressor {
    int m_fd; size_t m_pos = 0; int m_n = 0;
public:
    explicit MockDecompressor(int fd) : m_fd(fd) {}
    ~MockDecompressor() noexcept override { if (m_fd >= 0) ::close(m_fd); }
    std::string read() override {
        ++m_n; ++g_ms.reads;
        if (g_ms.reader_closed) ++g_ms.reads_after_reader_close;
        if (g_plan.fail_read == m_n) throw std::runtime_error{"injected read error"};
        const size_t want = static_cast<size_t>(m_n) <= g_plan.pieces.size() ? g_plan.pieces[static_cast<size_t>(m_n) - 1] : g_plan.chunk;
        std::string r = g_plan.data.substr(std::min(m_pos, g_plan.data.size()), want);
        m_pos += r.size();
        set_offset(m_pos);
        return r;
    }
    void close() override {
        ++g_ms.closes;
        if (m_fd >= 0) { ::close(m_fd); m_fd = -1; }
        if (g_plan.fail_close) throw std::runtime_error{"injected close error"};
    }
};

int count_fds() {
    int n = 0;
    DIR* d = opendir("/proc/self/fd");
    if (!d) return -1;
    while (readdir(d)) ++n;
    closedir(d);
    return n;
}

// ------------------------------------------------------------------------------------------------
struct Fault {
    std::string kind;   // none | read | close | corrupt | truncate
    int pos = 0;        // read index / object index / object boundary
    bool expect_error = false;
    size_t intact_objects = 0;      // objects of the fault-free sequence before the fault (upper bound of what may be delivered... for 'truncate' of valid prefixes: exactly)
    bool exact = false;             // delivered sequence must equal the first intact_objects objects when no error is expected
};

struct Script { bool header; int reads; /* -1 = until end/exception */ bool explicit_close; bool idle = false; /* the consumer is slow: before close()/destruction it lets the pipeline run until every thread is blocked (queues full) */ };

struct Cfg {
    std::string fmt; int pool; std::string qsize; Script s; Fault f;
    std::string name() const {
        std::ostringstream o;
        o << fmt << ",pool=" << pool << ",q=" << qsize << (s.header ? ",header" : "") << ",reads=" << (s.reads < 0 ? std::string("all") : std::to_string(s.reads)) << (s.idle ? ",idle" : "") << (s.explicit_close ? ",close" : ",dtor") << ",fault=" << f.kind << "@" << f.pos;
        return o.str();
    }
};

std::string g_dir;
std::vector<Obj> g_data;
std::map<std::string, std::string> g_text;       // fmt -> fault-free text (opl, osm)
std::vector<std::string> g_pbf_blocks;           // pbf: header blob + data blobs as separate byte strings

std::vector<size_t> line_starts(const std::string& t) {
    std::vector<size_t> v{0};
    for (size_t i = 0; i + 1 < t.size(); ++i) if (t[i] == '\n') v.push_back(i + 1);
    return v;
}

// object start offsets inside the XML text (each object element starts with " <node"/" <way"/" <relation")
std::vector<size_t> xml_object_starts(const std::string& t) {
    std::vector<size_t> v;
    for (size_t p = 0; (p = t.find("\n <", p)) != std::string::npos; ++p) if (t.compare(p + 3, 1, "/") != 0) v.push_back(p + 1);
    return v;
}

void body(const Cfg& c) {
    auto& env = osmium::detail::g_env;
    env.clear();
    env["OSMIUM_MAX_INPUT_QUEUE_SIZE"] = c.qsize; env["OSMIUM_MAX_OSMDATA_QUEUE_SIZE"] = c.qsize; env["OSMIUM_MAX_WORK_QUEUE_SIZE"] = c.qsize;
    g_ms = MockStats();
    g_plan = Plan();
    std::string path;
    if (c.fmt == "pbf") {
        path = g_dir + "/" + c.f.kind + std::to_string(c.f.pos) + ".pbf";
    } else if (c.fmt == "pbfq" || c.fmt == "pbfa") {
        // PBF through the read thread and the input queue (a ".pbf.gz" file name makes the Reader use the registered - mock -
        // decompressor): pbfq = 128-byte pieces, pbfa = one piece per blob (every fault then falls on a blob boundary)
        for (auto& b : g_pbf_blocks) g_plan.data += b;
        if (c.fmt == "pbfa") for (auto& b : g_pbf_blocks) g_plan.pieces.push_back(b.size());
        if (c.f.kind == "read") g_plan.fail_read = c.f.pos;
        if (c.f.kind == "close") g_plan.fail_close = true;
        path = g_dir + "/in.pbf.gz";
    } else {
        std::string t = g_text[c.fmt];
        if (c.f.kind == "corrupt") {
            auto starts = c.fmt == "opl" ? line_starts(t) : xml_object_starts(t);
            size_t p = starts[c.f.pos];
            if (c.fmt == "opl") t[p + 1] = 'x';      // "nx0 ..." : id is not a number
            else t.replace(p + 1, 2, "<<");           // " <<de ..." : not well-formed
        } else if (c.f.kind == "truncate") {
            auto starts = c.fmt == "opl" ? line_starts(t) : xml_object_starts(t);
            if (static_cast<size_t>(c.f.pos) < starts.size()) t = t.substr(0, starts[c.f.pos]);     // pos == number of objects: nothing cut off
        }
        g_plan.data = t;
        if (c.f.kind == "read") g_plan.fail_read = c.f.pos;
        if (c.f.kind == "close") g_plan.fail_close = true;
        path = g_dir + "/in." + c.fmt + ".gz";
    }
    int fds_before = count_fds();
    std::vector<std::string> got;
    std::vector<std::string> calls;        // outcome of each consumer call, in order
    bool threw = false, data_after_error = false, non_io_error_after_error = false;
    {
        osmium::thread::Pool pool{c.pool, 0};
        std::unique_ptr<osmium::io::Reader> reader;
        try {
            reader.reset(new osmium::io::Reader{osmium::io::File{path}, pool});
        } catch (const std::exception& e) { calls.push_back(std::string("ctor!") ); threw = true; }
        auto collect = [&](osmium::memory::Buffer& b) { for (const auto& o : b.select<osmium::OSMObject>()) got.push_back(canon(o, true)); };
        if (reader) {
            if (c.s.header) {
                try { reader->header(); calls.push_back("header"); }
                catch (const std::exception&) { calls.push_back("header!"); threw = true; }
            }
            for (int i = 0; c.s.reads < 0 || i < c.s.reads; ++i) {
                try {
                    osmium::memory::Buffer b = reader->read();
                    if (threw && b && b.committed() > 0) data_after_error = true;
                    if (!b) { calls.push_back("eof"); break; }
                    collect(b);
                    calls.push_back("read");
                } catch (const osmium::io_error&) {
                    calls.push_back(threw ? "read!io" : "read!");
                    if (threw) break;      // second failure in a row: the reader refuses, as it should
                    threw = true;
                    if (c.s.reads >= 0) break;
                } catch (const std::exception&) {
                    if (threw) { non_io_error_after_error = true; calls.push_back("read!other-after-error"); break; }
                    calls.push_back("read!"); threw = true;
                    if (c.s.reads >= 0) break;
                }
                if (calls.size() > 200) { vsched::fail("reader/read-loop-does-not-end", "more than 200 consumer calls"); break; }
            }
            if (c.s.idle) vsched::quiesce();
            if (c.s.explicit_close) {
                try { reader->close(); calls.push_back("close"); }
                catch (const std::exception&) { calls.push_back("close!"); threw = true; }
                g_ms.reader_closed = true;
            }
            reader.reset();     // destructor: must not throw, must join everything
            g_ms.reader_closed = true;
        }
    }   // ~Pool
    int fds_after = count_fds();

    // ---- oracle
    const std::string tag = c.fmt + "/" + c.f.kind;
    if (fds_before >= 0 && fds_after != fds_before) vsched::fail("reader/fd-leak/" + tag, std::to_string(fds_before) + " open descriptors before, " + std::to_string(fds_after) + " after");
    if (g_ms.reads_after_reader_close > 0) vsched::fail("reader/input-read-after-close/" + tag, std::to_string(g_ms.reads_after_reader_close) + " decompressor reads after close() returned");
    if (data_after_error) vsched::fail("reader/data-after-error/" + tag, "read() returned data after an exception had been reported");
    if (non_io_error_after_error) vsched::fail("reader/second-error-not-io_error/" + tag, "");
    // delivered objects: a prefix of the fault-free sequence (and exactly the expectation if nothing failed and everything was read)
    std::vector<std::string> want;
    for (auto& o : g_data) want.push_back(canon(o, true));
    bool prefix = got.size() <= want.size();
    for (size_t i = 0; prefix && i < got.size(); ++i) prefix = got[i] == want[i];
    if (!prefix) vsched::fail("reader/delivered-not-a-prefix/" + tag, "delivered " + std::to_string(got.size()) + " objects, first mismatch vs fault-free sequence");
    if (c.s.reads < 0) {
        if (c.f.expect_error && !threw) vsched::fail("reader/error-not-reported/" + tag, "consumer read to the end and closed, no call threw; calls: " + std::to_string(calls.size()));
        if (!c.f.expect_error && threw) vsched::fail("reader/spurious-error/" + tag, "no fault injected but a call threw");
        if (!c.f.expect_error && !threw && c.f.exact && got.size() != c.f.intact_objects) vsched::fail("reader/wrong-object-count/" + tag, std::to_string(got.size()) + " vs " + std::to_string(c.f.intact_objects));
    }
    if (c.f.kind == "corrupt" && got.size() > c.f.intact_objects) vsched::fail("reader/objects-delivered-past-corruption/" + tag, std::to_string(got.size()) + " delivered, corruption at object " + std::to_string(c.f.intact_objects));
    std::string cs;
    for (auto& x : calls) cs += x + " ";
    vsched::observe(cs + "| objects=" + std::to_string(got.size()));
}

// split a pbf file into its blobs (4-byte size + header + blob)
std::vector<std::string> split_pbf(const std::string& f) {
    std::vector<std::string> v;
    size_t p = 0;
    while (p + 4 <= f.size()) {
        uint32_t hs = (static_cast<unsigned char>(f[p]) << 24) | (static_cast<unsigned char>(f[p + 1]) << 16) | (static_cast<unsigned char>(f[p + 2]) << 8) | static_cast<unsigned char>(f[p + 3]);
        // BlobHeader: find datasize (field 3 varint) by a tiny protobuf walk
        size_t q = p + 4, end = q + hs; uint64_t datasize = 0;
        while (q < end) {
            unsigned char tagb = f[q++]; int field = tagb >> 3, wt = tagb & 7;
            uint64_t val = 0; int sh = 0;
            while (true) { unsigned char b = f[q++]; val |= uint64_t(b & 0x7f) << sh; sh += 7; if (!(b & 0x80)) break; }
            if (wt == 2) q += val; else if (field == 3) datasize = val;
        }
        v.push_back(f.substr(p, 4 + hs + datasize));
        p += 4 + hs + datasize;
    }
    return v;
}

std::string slurp(const std::string& path) {
    std::string r; FILE* f = fopen(path.c_str(), "rb"); char buf[4096]; size_t n;
    while ((n = fread(buf, 1, sizeof buf, f)) > 0) r.append(buf, n);
    fclose(f); return r;
}

}  // namespace

int main(int argc, char** argv) {
    vsched::Main m(argc, argv);
    const bool T = m.thorough();
    // --saturate: the build with tiny parser buffers (one object per buffer) runs only the slow-consumer scripts on fault-free input:
    // there the parser blocks on the full osmdata queue while input is still pending, so the read thread blocks on the full input
    // queue as well - the state in which close()/~Reader must still get every thread to finish
    bool saturate = false;
    for (auto& a : m.rest()) if (a == "--saturate") saturate = true;
    osmium::io::CompressionFactory::instance().register_compression(osmium::io::file_compression::gzip,
        [](int, osmium::io::fsync) { return nullptr; },
        [](int fd) { return new MockDecompressor(fd); },
        [](const char*, size_t) { return nullptr; });
    g_data = dataset();
    char tmpl[] = "/dev/shm/verif-c07-XXXXXX";
    g_dir = mkdtemp(tmpl);
    std::vector<std::string> tmpfiles;
    auto put = [&](const std::string& name, const std::string& data) { write_file(g_dir + "/" + name, data); tmpfiles.push_back(name); };
    g_text["opl"] = to_opl(g_data);
    g_text["osm"] = to_xml(g_data);
    put("in.opl.gz", "placeholder");
    put("in.osm.gz", "placeholder");
    put("in.pbf.gz", "placeholder");
    write_pbf(g_dir + "/full.pbf", g_data, true); tmpfiles.push_back("full.pbf");
    g_pbf_blocks = split_pbf(slurp(g_dir + "/full.pbf"));
    const int nblocks = static_cast<int>(g_pbf_blocks.size());     // header + 6 data blocks (2 objects each)
    auto cat = [&](int n) { std::string s; for (int i = 0; i < n; ++i) s += g_pbf_blocks[i]; return s; };
    // objects contained in the first n blobs (fault-free read on real threads, outside any exploration)
    auto objects_in = [&](int n) {
        write_file(g_dir + "/count.pbf", cat(n));
        size_t cnt = 0;
        {
            osmium::thread::Pool pool{1, 0};
            osmium::io::Reader r{osmium::io::File{g_dir + "/count.pbf"}, pool};
            while (osmium::memory::Buffer b = r.read()) for (const auto& o : b.select<osmium::OSMObject>()) { (void)o; ++cnt; }
            r.close();
        }
        unlink((g_dir + "/count.pbf").c_str());
        return cnt;
    };

    std::vector<Fault> faults_text_opl, faults_text_xml, faults_pbf;
    {
        Fault none; none.kind = "none"; none.intact_objects = g_data.size(); none.exact = true;
        size_t nchunks_opl = (g_text["opl"].size() + 127) / 128, nchunks_xml = (g_text["osm"].size() + 127) / 128;
        faults_text_opl.push_back(none); faults_text_xml.push_back(none);
        for (size_t j = 1; j <= nchunks_opl + 1; ++j) { Fault f; f.kind = "read"; f.pos = static_cast<int>(j); f.expect_error = true; f.intact_objects = g_data.size(); faults_text_opl.push_back(f); }
        for (size_t j = 1; j <= nchunks_xml + 1; ++j) { Fault f; f.kind = "read"; f.pos = static_cast<int>(j); f.expect_error = true; f.intact_objects = g_data.size(); if (T || j <= 3 || j + 2 >= nchunks_xml || j % 4 == 0) faults_text_xml.push_back(f); }
        { Fault f; f.kind = "close"; f.expect_error = true; f.intact_objects = g_data.size(); faults_text_opl.push_back(f); faults_text_xml.push_back(f); }
        for (size_t n = 0; n < g_data.size(); ++n) {
            if (!T && !(n == 0 || n == 5 || n + 1 == g_data.size())) continue;
            Fault f; f.kind = "corrupt"; f.pos = static_cast<int>(n); f.expect_error = true; f.intact_objects = n;
            faults_text_opl.push_back(f); faults_text_xml.push_back(f);
        }
        for (size_t n = 0; n <= g_data.size(); n += (T ? 1 : 4)) {
            Fault f; f.kind = "truncate"; f.pos = static_cast<int>(n); f.intact_objects = n;
            f.expect_error = false; f.exact = true; faults_text_opl.push_back(f);                        // a shorter OPL file is a valid file
            if (n < g_data.size()) { Fault x = f; x.expect_error = true; x.exact = false; faults_text_xml.push_back(x); }   // XML without its end is an error
        }
        // pbf variants as files
        put("none0.pbf", cat(nblocks));
        faults_pbf.push_back(none);
        for (int b = 1; b < nblocks; ++b) {
            if (!T && !(b == 1 || b == 3 || b + 1 == nblocks)) continue;
            std::string s = cat(nblocks);
            size_t off = 0; for (int i = 0; i < b; ++i) off += g_pbf_blocks[i].size();
            size_t tpos = s.find("OSMData", off);
            s[tpos + 4] = 'b';
            put("corrupt" + std::to_string(b) + ".pbf", s);
            const size_t before = objects_in(b);
            Fault f; f.kind = "corrupt"; f.pos = b; f.expect_error = true; f.intact_objects = before; faults_pbf.push_back(f);
            put("truncate" + std::to_string(b) + ".pbf", cat(b));                                        // ends at a block boundary: valid shorter file
            Fault t; t.kind = "truncate"; t.pos = b; t.expect_error = false; t.exact = true; t.intact_objects = before; faults_pbf.push_back(t);
            std::string mid = cat(b) + g_pbf_blocks[b].substr(0, g_pbf_blocks[b].size() / 2);
            put("truncate" + std::to_string(100 + b) + ".pbf", mid);                                     // ends inside a block: error
            Fault u; u.kind = "truncate"; u.pos = 100 + b; u.expect_error = true; u.intact_objects = before; faults_pbf.push_back(u);
        }
    }

    std::vector<Fault> faults_pbfq, faults_pbfa;
    {
        Fault none; none.kind = "none"; none.intact_objects = g_data.size(); none.exact = true;
        size_t total = 0; for (auto& b : g_pbf_blocks) total += b.size();
        faults_pbfq.push_back(none); faults_pbfa.push_back(none);
        for (size_t j = 1; j <= (total + 127) / 128 + 1; ++j) { Fault f; f.kind = "read"; f.pos = static_cast<int>(j); f.expect_error = true; f.intact_objects = g_data.size(); if (T || j <= 4 || j % 3 == 0 || j + 2 >= (total + 127) / 128) faults_pbfq.push_back(f); }
        for (size_t j = 1; j <= g_pbf_blocks.size() + 1; ++j) { Fault f; f.kind = "read"; f.pos = static_cast<int>(j); f.expect_error = true; f.intact_objects = g_data.size(); faults_pbfa.push_back(f); }
        { Fault f; f.kind = "close"; f.expect_error = true; f.intact_objects = g_data.size(); faults_pbfq.push_back(f); faults_pbfa.push_back(f); }
    }
    struct Job { Cfg c; vsched::Options o; };
    std::vector<Job> deep, wide;
    std::vector<Script> all_scripts;
    for (int h = 0; h < 2; ++h) for (int r : {-1, 0, 1, 2}) for (int cl = 0; cl < 2; ++cl) all_scripts.push_back(Script{h != 0, r, cl != 0});
    // the slow consumer: stops after 0/1/2 buffers, lets the pipeline saturate (both queues full, threads blocked), then closes / destroys
    for (int h = 0; h < 2; ++h) for (int r : {0, 1, 2}) for (int cl = 0; cl < 2; ++cl) { Script s{h != 0, r, cl != 0}; s.idle = true; all_scripts.push_back(s); }
    std::vector<Script> deep_scripts = {{false, -1, true}, {true, 1, true}, {false, 0, false}, {true, -1, false}};
    { Script s{true, 1, true}; s.idle = true; deep_scripts.push_back(s); Script d{false, 0, false}; d.idle = true; deep_scripts.push_back(d); }
    auto faults_for = [&](const std::string& fmt) -> std::vector<Fault>& { return fmt == "opl" ? faults_text_opl : fmt == "osm" ? faults_text_xml : fmt == "pbfq" ? faults_pbfq : fmt == "pbfa" ? faults_pbfa : faults_pbf; };
    for (std::string fmt : {"opl", "osm", "pbf", "pbfq", "pbfa"}) {
        for (auto& f : faults_for(fmt)) {
            // every script x every fault at bound 0 (pool 1 and 2 alternate); the deep scripts at k <= 1|2
            int alt = 0;
            for (auto& s : all_scripts) {
                if (saturate && (!s.idle || f.kind != "none" || fmt.compare(0, 3, "pbf") == 0)) continue;
                vsched::Options o; o.delay_bounded = true; o.max_bound = 0; o.workers = 1;
                wide.push_back({Cfg{fmt, 1 + (alt++ % 2), (alt % 3) ? "2" : "3", s, f}, o});
            }
            for (auto& s : deep_scripts) {
                if (saturate && (!s.idle || f.kind != "none" || fmt.compare(0, 3, "pbf") == 0)) continue;
                if (!T && fmt == "pbfq" && f.kind == "read" && f.pos > 3) continue;
                if (!T && fmt == "osm" && f.kind == "read" && f.pos > 3) continue;      // XML has many chunks: keep quick small
                vsched::Options o; o.delay_bounded = true; o.max_bound = T ? 2 : 1; o.workers = 16;
                deep.push_back({Cfg{fmt, 2, "2", s, f}, o});
            }
        }
    }
    auto run_job = [&](Job& j, int b, const char* pre) { vsched::Options o = j.o; o.min_bound = b; o.max_bound = b; m.run(pre + j.c.name(), [&] { body(j.c); }, o); };
    if (m.replay_mode()) {
        for (auto& j : wide) m.run("W:" + j.c.name(), [&] { body(j.c); }, j.o);
        for (auto& j : deep) m.run("K:" + j.c.name(), [&] { body(j.c); }, j.o);
    } else {
        for (auto& j : wide) run_job(j, 0, "W:");
        for (int b = 0; b <= 2; ++b) for (auto& j : deep) if (b <= j.o.max_bound) run_job(j, b, "K:");
    }
    int rc = m.finish();
    for (auto& f : tmpfiles) unlink((g_dir + "/" + f).c_str());
    rmdir(g_dir.c_str());
    return rc;
}
