"""C07 - Reader pipeline always terminates and reports the first error (consumer scripts x fault plans x schedules)."""
LEVEL = "model_checking"
RULE = ("stateless exploration of the real Reader pipeline under the vsched scheduler: consumer scripts (with/without header(), 0/1/2/all read() "
        "calls, close() or destructor) x fault plans (the j-th decompressor read throws for every j, close throws, object n corrupt, input "
        "truncated at object/block boundaries and inside a block) x {opl, xml, pbf from a file, pbf through the read thread and input queue in 128-byte pieces and in one piece per blob} x pool/queue sizes; every (script, fault) pair at "
        "deviation bound 0, four scripts x every fault at bound <= 1 (quick) | <= 2 (thorough) under delay bounding. Oracle per execution: "
        "all threads finished (deadlock/livelock/hang/leaked thread detected by the scheduler), open-descriptor count unchanged, a consumer "
        "that reads to the end gets an exception iff a fault was injected, no data after an exception, no decompressor read after close(), "
        "delivered objects are a prefix of the fault-free sequence. Slow-consumer scripts: after 0/1/2 reads the consumer waits until no "
        "other thread can run (vsched::quiesce(): both queues full, threads blocked), then closes or destroys the Reader - also in a build "
        "with one object per parser buffer, where the read thread is blocked on the full input queue at that moment. evaluations = complete schedules; distinct_nontrivial = schedules "
        "deviating from the default schedule.")
DEADLINE = {"quick": 220, "thorough": 1500}
FLAGS = ["-fno-access-control", "-DOSMIUM_VERIF_INPUT_BUFFER_SIZE=64", "-DOSMIUM_VERIF_PARSER_BUFFER_SIZE=512",
         "-DOSMIUM_VERIF_PBF_BUFFER_SIZE=256"]


FLAGS_SAT = ["-fno-access-control", "-DOSMIUM_VERIF_INPUT_BUFFER_SIZE=64", "-DOSMIUM_VERIF_PARSER_BUFFER_SIZE=192",
             "-DOSMIUM_VERIF_PBF_BUFFER_SIZE=256"]


def build(ctx):
    vs = ctx.vsched_obj()
    return {"h07": ctx.build("h07", ["h07.cpp"], flags=FLAGS + ctx.atomic_points(), opt="-O1", objects=[vs]),
            "h07sat": ctx.build("h07sat", ["h07.cpp"], flags=FLAGS_SAT + ctx.atomic_points(), opt="-O1", objects=[vs]),
            "h07tsan": ctx.build_tsan_free("h07tsan", ["h07.cpp"], flags=FLAGS)}


def run(ctx):
    exes = build(ctx)
    if getattr(ctx, "build_only", False):
        return
    # free-running ThreadSanitizer companion (real threads): no unsynchronised sharing on the error/close paths either
    import os
    ctx.run_harness(exes["h07tsan"], ["--iterations", "1" if ctx.tier == "quick" else "20", "--deadline", "45" if ctx.tier == "quick" else "300"],
                    env={"TSAN_OPTIONS": "halt_on_error=0:exitcode=66:suppressions=" + os.path.join(os.path.dirname(os.path.dirname(ctx.checkdir)), "engine", "vsched", "tsan.supp")}, timeout=120 if ctx.tier == "quick" else 500)
    # slow consumer on a saturated pipeline (tiny parser buffers: parser blocked on the full osmdata queue, read thread on the full input queue)
    ctx.run_harness(exes["h07sat"], ["--saturate"])
    ctx.run_harness(exes["h07"], [])
    ctx.assume("sequentially consistent scheduler; no spurious wake-ups; PBF test file written by the library's own Writer "
               "(the expectation is the abstract object list, not the Writer's output)")
