"""C01 - write-then-read round trip is lossless for every format and writer option (DESIGN.md section 5, C01)."""
import os
import shutil

LEVEL = "exploration"
RULE = ("one evaluation = one (data set, option vector) pair, distinct by construction (generator name x option vector): the data set is "
        "restricted to what the vector can express, written with osmium::io::Writer, the file is checked by an independent PBF framing parser "
        "(blob header <= 64 KiB, blob <= 32 MiB, <= 8000 entities per block), read back with osmium::io::Reader and compared in order, type and "
        "every field with carry(D, o), the per-format statement of which fields are carried. Data sets: (ofat) every boundary value of every "
        "field of node/way/relation/changeset with the other fields at a base value - all variants of a type in one sequence x EVERY option "
        "vector {osm, osh, osc, pbf, osh.pbf, opl} x dense x blob compression x 32 metadata subsets x locations_on_ways x force_visible_flag x "
        "{none, gz, bz2} x pool threads {1,2} (7296 vectors); all types interleaved in 4 ways of handing buffers to the Writer; every variant "
        "alone (and, thorough, next to / between base objects) x reduced vector sets; (prod) all combinations of 2-3 values per field; (blk) "
        "7999/8000/8001 (16001) objects of one type, type alternation; (big) blocks whose string table / group data / single object cross "
        "0.95 x 32 MiB and 32 MiB; (hdr) 0..2 header boxes over corner boundary coordinates, generator strings; (bbox) one evaluation = one "
        "header box (4 coordinates) through the real PBF header encoder/decoder, strided sweep over all fixed-point coordinates with the "
        "stride halved until the time share ends. A failing sequence is reduced to the object that causes it, reported with that selection, "
        "and run again without it; the first report of a class per process is confirmed by replaying its spec in a fresh process. "
        "Non-trivial = the expected read-back (objects or header) carries at least one non-default value. write_read_cycles counts the "
        "Writer/Reader evaluations alone.")
DEADLINE = {"quick": 240, "thorough": 1500}
DATA = "/verif/build/C01-data"


def build(ctx):
    return {"h01": ctx.build("h01", ["h01.cpp"], opt="-O2"),
            "h01cap": ctx.build("h01cap", ["h01.cpp"], opt="-O2", flags=["-DOSMIUM_VERIF_DYNAMIC_BUFFER_SIZE", "-DOSMIUM_VERIF_INPUT_BUFFER_SIZE=61"])}


def _sweep_stale():
    """remove scratch directories of harness processes that no longer exist (killed runs)"""
    if not os.path.isdir(DATA):
        return
    for n in os.listdir(DATA):
        pid = n[1:] if n.startswith("p") else ""
        if pid.isdigit() and not os.path.exists("/proc/" + pid):
            shutil.rmtree(os.path.join(DATA, n), ignore_errors=True)
    try:
        os.rmdir(DATA)
    except OSError:
        pass


def run(ctx):
    exes = build(ctx)
    exe = exes["h01"]
    if getattr(ctx, "build_only", False):
        return
    _sweep_stale()
    try:
        # reader-side buffer capacity sweep (hook H8): its own build, its own share of the time
        ctx.run_harness(exes["h01cap"], ["--part", "cap", "--budget", "%.0f" % max(5.0, ctx.remaining() * 0.15)], shards=16)
        # every part gets its share of the time that is left (a part that ends early leaves its time to the later ones)
        parts = [("hdr", 16, 1), ("ofat", 16, 10), ("blk", 16, 2), ("big", 4 if ctx.tier == "quick" else 6, 2), ("prod", 16, 3), ("bbox", 16, 2)]
        for i, (part, shards, share) in enumerate(parts):
            budget = max(5.0, (ctx.remaining() - 10) * share / sum(p[2] for p in parts[i:]))
            ctx.run_harness(exe, ["--part", part, "--budget", "%.0f" % budget], shards=shards)
    finally:
        _sweep_stale()
    ctx.assume("domain of an option vector: changesets only for XML (.osm/.osh) and OPL; deleted objects only where the vector has a visible "
               "flag (history / force_visible_flag / change file / OPL with metadata); XML strings exclude C0 controls other than TAB/LF/CR and "
               "the noncharacters U+FFFE/U+FFFF (XML 1.0 cannot express them); the uint32 maximum as changeset id is left out for XML because "
               "/repo/test/t/osm/test_types_from_string.cpp pins its rejection; objects outside a vector's domain are left out of the sequence "
               "written with that vector and counted")
    ctx.assume("PBF files with outer gzip/bzip2 compression that Reader{filename} rejects are read again from a memory buffer so that their content "
               "is still compared; the rejection is reported as a class of its own")
    ctx.assume("locations with exactly one coordinate equal to INT32_MAX (the 'undefined' marker) are not enumerated; anonymous changesets "
               "(uid 0) have an empty user name; header and changeset boxes have valid corners with bottom-left <= top-right; a deleted node "
               "read from PBF has no location (pinned by test_reader.cpp 'zero node positions in history (PBF)')")
