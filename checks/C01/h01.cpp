// C01 - write-then-read round trip through osmium::io::Writer / osmium::io::Reader.
//
// One evaluation = one (data set, option vector) pair: the abstract data set (model.hpp) is restricted to the
// objects the option vector can express, built with the builders, handed to a Writer configured with the option
// vector, the produced file is checked by an independent PBF framing parser (no libosmium code), read back with a
// Reader and compared field by field with carry(D, options) - the reference statement of which fields each
// format / option vector carries (everything else is expected at its default).
//
// Parts (--part):
//   ofat    one-factor-at-a-time objects (every boundary value of every field, others at a base value), packed per type
//           and mixed, x EVERY option vector; the same objects as 1- and 2-object sequences x option vectors
//   prod    full product of a reduced 2-3-value set per field, packed in chunks of 96 objects
//   blk     block-boundary families: 7999/8000/8001/16001 objects of one type, type alternation
//   big     32 MiB families: string-table-heavy blocks, group-data-heavy blocks, one oversized object after a full block
//   hdr     header: 0..2 bounding boxes over corner boundary coordinates, generator strings
//   bbox    PBF header bounding box: sweep of fixed-point coordinates through the real header encoder and decoder
//
// Every data set has a generator name; a replay spec is "<name>;sel=<object indexes>;opt=<option vector>".
#include <benum/benum.hpp>

#include "model.hpp"

#include <osmium/io/any_compression.hpp>
#include <osmium/io/opl_input.hpp>
#include <osmium/io/opl_output.hpp>
#include <osmium/io/pbf_input.hpp>
#include <osmium/io/pbf_output.hpp>
#include <osmium/io/xml_input.hpp>
#include <osmium/io/xml_output.hpp>
#include <osmium/io/reader.hpp>
#include <osmium/io/writer.hpp>
#include <osmium/thread/pool.hpp>
#include <osmium/version.hpp>

#include <lz4.h>
#include <zlib.h>

#include <algorithm>
#include <dirent.h>
#include <memory>
#include <sys/stat.h>

using namespace c01;
using benum::Args;

static benum::Counters C;
static benum::Violations V;

// ================================================================================================
// option vectors
struct Opt {
    int fmt = 0;     // 0 osm  1 osh  2 osc  3 pbf  4 osh.pbf  5 opl
    int dense = 1;   // pbf_dense_nodes (PBF only)
    int pcomp = 1;   // pbf_compression 0 none 1 zlib 2 lz4 (PBF only)
    int meta = 31;   // add_metadata subset: 1 version, 2 timestamp, 4 changeset, 8 uid, 16 user
    int low = 0;     // locations_on_ways
    int fv = 0;      // force_visible_flag (XML only)
    int zip = 0;     // file compression 0 none 1 gz 2 bz2
    int thr = 1;     // threads of the pool handed to Writer and Reader
    int cap = 0;     // initial capacity of the readers' output buffers (hook H8, harness built with OSMIUM_VERIF_DYNAMIC_BUFFER_SIZE); 0 = compiled-in
    bool xml() const { return fmt <= 2; }
    bool pbf() const { return fmt == 3 || fmt == 4; }
    bool opl() const { return fmt == 5; }
};

static const char* const FMT[] = {"osm", "osh", "osc", "pbf", "osh.pbf", "opl"};
static const char* const PCOMP[] = {"none", "zlib", "lz4"};
static const char* const ZIP[] = {"", ".gz", ".bz2"};

static std::string meta_string(int m) {
    if (m == 31) return "all";
    if (m == 0) return "none";
    std::string s;
    static const char* const n[] = {"version", "timestamp", "changeset", "uid", "user"};
    for (int i = 0; i < 5; ++i) if (m & (1 << i)) { if (!s.empty()) s += "+"; s += n[i]; }
    return s;
}

static std::string opt_string(const Opt& o) {   // the replay form
    char b[96];
    snprintf(b, sizeof b, "f%d,d%d,p%d,m%d,l%d,v%d,z%d,t%d", o.fmt, o.dense, o.pcomp, o.meta, o.low, o.fv, o.zip, o.thr);
    return o.cap ? std::string(b) + ",c" + std::to_string(o.cap) : std::string(b);
}
static Opt opt_parse(const std::string& s) {
    Opt o;
    sscanf(s.c_str(), "f%d,d%d,p%d,m%d,l%d,v%d,z%d,t%d,c%d", &o.fmt, &o.dense, &o.pcomp, &o.meta, &o.low, &o.fv, &o.zip, &o.thr, &o.cap);
    return o;
}
// the format string handed to osmium::io::File (this is how users give writer options)
static std::string opt_format_string(const Opt& o) {
    std::string s = std::string(FMT[o.fmt]) + ZIP[o.zip];
    if (o.pbf()) s += std::string(",pbf_dense_nodes=") + (o.dense ? "true" : "false") + ",pbf_compression=" + PCOMP[o.pcomp];
    s += ",add_metadata=" + meta_string(o.meta) + ",locations_on_ways=" + (o.low ? "true" : "false");
    if (o.xml()) s += std::string(",force_visible_flag=") + (o.fv ? "true" : "false");
    return s;
}
static std::string opt_human(const Opt& o) { return opt_format_string(o) + " pool_threads=" + std::to_string(o.thr) + (o.cap ? " reader_buffer_capacity=" + std::to_string(o.cap) : ""); }

// hook H8: initial capacity of the buffers the decoders build objects in (set per evaluation from Opt::cap)
static size_t g_reader_cap = 0;
#ifdef OSMIUM_VERIF_DYNAMIC_BUFFER_SIZE
extern "C" std::size_t osmium_verif_dynamic_buffer_size(std::size_t compiled_in_size) { return g_reader_cap ? g_reader_cap : compiled_in_size; }
#endif

// Option vectors; options a format does not read are held at their default.
//   level 3: every vector (7296)
//   level 2: every format/encoding x metadata subsets {all, none, version+uid} x locations_on_ways x force_visible x zip x threads (684)
//   level 1: as level 2 without file compression / second thread count (114)
//   level 0: one vector per format and PBF encoding (16)
static std::vector<Opt> all_opts(int level) {
    std::vector<Opt> r;
    std::vector<int> metas;
    if (level >= 3) { metas.push_back(31); for (int m = 0; m < 31; ++m) metas.push_back(m); }
    else if (level >= 1) metas = {31, 0, 9};
    else metas = {31};
    for (int fmt = 0; fmt < 6; ++fmt) {
        Opt b; b.fmt = fmt;
        for (int dense = 1; dense >= 0; --dense) for (int pcomp : {1, 0, 2}) {
            if (!b.pbf() && (dense != 1 || pcomp != 1)) continue;
            for (int m : metas) for (int low = 0; low < 2; ++low) for (int fv = 0; fv < 2; ++fv) {
                if (!b.xml() && fv) continue;
                if (level == 0 && (low || fv)) continue;
                for (int zip = 0; zip < 3; ++zip) for (int thr = 1; thr <= 2; ++thr) {
                    if (level <= 1 && (zip || thr == 2)) continue;
                    Opt o = b; o.dense = dense; o.pcomp = pcomp; o.meta = m; o.low = low; o.fv = fv; o.zip = zip; o.thr = thr;
                    r.push_back(o);
                }
            }
        }
    }
    return r;
}

// format area of a class key: the encoder/decoder pair involved
static std::string area(const Opt& o, char type = 0) {
    if (o.fmt == 2) return "xml-change";
    if (o.xml()) return "xml";
    if (o.opl()) return "opl";
    if (type == 'n') return o.dense ? "pbf-dense" : "pbf-plain";
    return "pbf";
}

// ================================================================================================
// Domain of an option vector (what the format can express at all) and carry(D, o): what must come back.
static bool xml_string_ok(const std::string& s) {
    // XML 1.0 cannot express C0 controls other than TAB/LF/CR and the noncharacters U+FFFE/U+FFFF (not even as character references)
    for (size_t i = 0; i < s.size(); ++i) {
        unsigned char c = static_cast<unsigned char>(s[i]);
        if (c < 0x20 && c != '\t' && c != '\n' && c != '\r') return false;
        if (c == 0xef && i + 2 < s.size() && static_cast<unsigned char>(s[i + 1]) == 0xbf && static_cast<unsigned char>(s[i + 2]) >= 0xbe) return false;
    }
    return true;
}
static bool obj_xml_strings_ok(const AObj& x) {
    if (!xml_string_ok(x.user)) return false;
    for (const auto& t : x.tags) if (!xml_string_ok(t.k) || !xml_string_ok(t.v)) return false;
    for (const auto& m : x.members) if (!xml_string_ok(m.role)) return false;
    for (const auto& c : x.comments) if (!xml_string_ok(c.user) || !xml_string_ok(c.text)) return false;
    return true;
}

static bool carries_visible(const Opt& o) {
    if (o.fmt == 0) return o.fv != 0;          // plain .osm: only with force_visible_flag
    if (o.fmt == 1 || o.fmt == 2) return true; // .osh: visible attribute; .osc: <delete> sections
    if (o.fmt == 3) return false;              // PBF without history has no visible flag
    if (o.fmt == 4) return true;
    return o.meta != 0;                        // OPL writes the dV/dD field together with any metadata
}

// reason why an object is outside what the option vector can express (nullptr: in domain)
static const char* out_of_domain(const AObj& x, const Opt& o) {
    if (x.type == 'c') {
        if (o.pbf()) return "changeset-in-pbf";            // property: changesets only for XML and OPL
        if (o.fmt == 2) return "changeset-in-change-file"; // an osmChange file consists of create/modify/delete sections of n/w/r
    } else if (!x.visible && !carries_visible(o)) return "deleted-object-without-visible-flag";
    if (o.xml()) {
        if (!obj_xml_strings_ok(x)) return "string-not-expressible-in-xml-1.0";
        // /repo/test/t/osm/test_types_from_string.cpp pins that the XML attribute parsers reject the uint32 maximum
        if (x.type != 'c' && (o.meta & 4) && x.changeset == 4294967295u) return "uint32-max-pinned-by-repo-tests";
        if (x.type == 'c' && (x.id == 4294967295LL)) return "uint32-max-pinned-by-repo-tests";
    }
    return nullptr;
}

struct Expect {
    std::vector<AObj> objs;          // expected read-back
    std::vector<size_t> written;     // indexes (in D) of the objects that are in the vector's domain and are written
    AHeader header;
    bool nontrivial = false;         // at least one non-default field value is carried
    size_t skipped = 0;
    bool header_outside_domain = false;   // the generator string cannot be expressed by the format
};

static Expect carry(const DataSet& d, const Opt& o) {
    Expect e;
    for (size_t i = 0; i < d.objs.size(); ++i) {
        const AObj& in = d.objs[i];
        if (out_of_domain(in, o)) { ++e.skipped; continue; }
        e.written.push_back(i);
        AObj x = in;
        x.label.clear();
        if (in.type != 'c') {
            if (!(o.meta & 1)) x.version = 0;
            if (!(o.meta & 2)) x.ts = 0;
            if (!(o.meta & 4)) x.changeset = 0;
            if (!(o.meta & 8)) x.uid = 0;
            if (!(o.meta & 16)) x.user.clear();
            // PBF: a deleted node has no location (pinned by "Reader should decode zero node positions in history (PBF)")
            if (in.type == 'n' && o.pbf() && !x.visible) x.loc = Loc{};
            if (in.type == 'w' && !o.low) for (auto& r : x.refs) r.loc = Loc{};
        } else {
            if (o.opl()) x.comments.clear();       // discussions only in XML
        }
        if (x.version || x.ts || x.changeset || x.uid || !x.user.empty() || !x.visible || !x.tags.empty() || !x.loc.undefined() || !x.refs.empty() ||
            !x.members.empty() || x.id != 0 || x.num_changes || x.created || x.closed || x.num_comments || !x.comments.empty() || !x.bl.undefined()) e.nontrivial = true;
        e.objs.push_back(std::move(x));
    }
    const std::string default_generator = "libosmium/" LIBOSMIUM_VERSION_STRING;
    if (o.xml()) {
        e.header = d.header;
        if (!xml_string_ok(d.header.generator)) e.header_outside_domain = true;
        if (e.header.generator.empty()) e.header.generator = default_generator;
    } else if (o.pbf()) {
        e.header.generator = d.header.generator.empty() ? default_generator : d.header.generator;
        if (!d.header.boxes.empty()) {             // PBF has one bounding box: the union
            ABox j = d.header.boxes[0];
            for (const ABox& b : d.header.boxes) {
                j.bl.x = std::min(j.bl.x, b.bl.x); j.bl.y = std::min(j.bl.y, b.bl.y);
                j.tr.x = std::max(j.tr.x, b.tr.x); j.tr.y = std::max(j.tr.y, b.tr.y);
            }
            e.header.boxes.push_back(j);
        }
    }                                              // OPL has no header
    if (!e.header.boxes.empty() || (!d.header.generator.empty() && !o.opl())) e.nontrivial = true;
    return e;
}

// ================================================================================================
// independent PBF framing parser (protobuf wire format by hand, zlib / lz4 directly)
struct PB {
    const unsigned char* p; const unsigned char* e; bool ok = true;
    PB(const void* d, size_t n) : p(static_cast<const unsigned char*>(d)), e(p + n) {}
    bool more() const { return ok && p < e; }
    uint64_t varint() { uint64_t v = 0; int s = 0; while (p < e && s < 70) { unsigned char c = *p++; v |= static_cast<uint64_t>(c & 0x7f) << s; if (!(c & 0x80)) return v; s += 7; } ok = false; return 0; }
    // next field: returns field number, sets wire type; for length-delimited sets [b, b+n)
    int next(int& wt, const unsigned char*& b, size_t& n, uint64_t& val) {
        uint64_t k = varint(); if (!ok) return -1;
        wt = static_cast<int>(k & 7); int f = static_cast<int>(k >> 3);
        if (wt == 0) val = varint();
        else if (wt == 2) { uint64_t l = varint(); if (!ok || l > static_cast<uint64_t>(e - p)) { ok = false; return -1; } b = p; n = l; p += l; }
        else if (wt == 1) { if (e - p < 8) { ok = false; return -1; } p += 8; }
        else if (wt == 5) { if (e - p < 4) { ok = false; return -1; } p += 4; }
        else { ok = false; return -1; }
        return f;
    }
};

struct Framing {
    bool parsed = true; std::string problem;   // parse problem of the framing itself
    uint64_t blobs = 0, max_header = 0, max_raw = 0, max_entities = 0, entities = 0;
    std::string limit;                          // first format limit that is exceeded ("" = none)
    std::string header_blob;                    // the Blob message of the OSMHeader (for the bbox part)
};

static Framing pbf_framing(const std::string& file) {
    Framing f;
    size_t pos = 0;
    std::string raw;
    while (pos < file.size()) {
        if (file.size() - pos < 4) { f.parsed = false; f.problem = "truncated length prefix"; return f; }
        uint32_t hl = (static_cast<unsigned char>(file[pos]) << 24) | (static_cast<unsigned char>(file[pos + 1]) << 16) | (static_cast<unsigned char>(file[pos + 2]) << 8) | static_cast<unsigned char>(file[pos + 3]);
        pos += 4;
        f.max_header = std::max<uint64_t>(f.max_header, hl);
        if (hl > 64 * 1024 && f.limit.empty()) f.limit = "blob-header-exceeds-64KiB";
        if (hl > file.size() - pos) { f.parsed = false; f.problem = "blob header beyond end of file"; return f; }
        PB h(file.data() + pos, hl); pos += hl;
        std::string type; int64_t datasize = -1;
        while (h.more()) { int wt; const unsigned char* b = nullptr; size_t n = 0; uint64_t v = 0; int fn = h.next(wt, b, n, v); if (fn == 1 && wt == 2) type.assign(reinterpret_cast<const char*>(b), n); if (fn == 3 && wt == 0) datasize = static_cast<int32_t>(v); }
        if (!h.ok || datasize < 0) { f.parsed = false; f.problem = "malformed BlobHeader"; return f; }
        if (static_cast<uint64_t>(datasize) > file.size() - pos) { f.parsed = false; f.problem = "blob beyond end of file"; return f; }
        if ((f.blobs == 0) != (type == "OSMHeader") || (f.blobs > 0 && type != "OSMData")) { f.parsed = false; f.problem = "unexpected blob type at blob " + std::string(f.blobs == 0 ? "0" : ">0"); return f; }
        if (f.blobs == 0) f.header_blob.assign(file.data() + pos, static_cast<size_t>(datasize));
        PB bl(file.data() + pos, static_cast<size_t>(datasize)); pos += static_cast<size_t>(datasize);
        const unsigned char* data = nullptr; size_t dn = 0; int comp = -1; int64_t raw_size = -1;
        while (bl.more()) { int wt; const unsigned char* b = nullptr; size_t n = 0; uint64_t v = 0; int fn = bl.next(wt, b, n, v);
            if (fn == 1 && wt == 2) { data = b; dn = n; comp = 0; } if (fn == 2 && wt == 0) raw_size = static_cast<int32_t>(v);
            if (fn == 3 && wt == 2) { data = b; dn = n; comp = 1; } if (fn == 6 && wt == 2) { data = b; dn = n; comp = 2; } }
        if (!bl.ok || comp < 0) { f.parsed = false; f.problem = "malformed Blob"; return f; }
        if (comp != 0 && raw_size < 0) { f.parsed = false; f.problem = "compressed blob without usable raw_size"; return f; }
        uint64_t rs = comp == 0 ? dn : static_cast<uint64_t>(raw_size);
        f.max_raw = std::max(f.max_raw, rs);
        if (rs > 32ull * 1024 * 1024) { if (f.limit.empty()) f.limit = "blob-exceeds-32MiB"; ++f.blobs; continue; }
        const unsigned char* pd = data; size_t pn = dn;
        if (comp == 1) { raw.resize(rs); uLongf dl = static_cast<uLongf>(rs); if (uncompress(reinterpret_cast<Bytef*>(&raw[0]), &dl, data, static_cast<uLong>(dn)) != Z_OK || dl != rs) { f.parsed = false; f.problem = "zlib blob does not inflate to raw_size"; return f; } pd = reinterpret_cast<const unsigned char*>(raw.data()); pn = rs; }
        if (comp == 2) { raw.resize(rs); int r = LZ4_decompress_safe(reinterpret_cast<const char*>(data), &raw[0], static_cast<int>(dn), static_cast<int>(rs)); if (r < 0 || static_cast<uint64_t>(r) != rs) { f.parsed = false; f.problem = "lz4 blob does not decompress to raw_size"; return f; } pd = reinterpret_cast<const unsigned char*>(raw.data()); pn = rs; }
        if (f.blobs > 0) {   // PrimitiveBlock: count the entities of all groups
            uint64_t ents = 0;
            PB blk(pd, pn);
            while (blk.more()) { int wt; const unsigned char* b = nullptr; size_t n = 0; uint64_t v = 0; int fn = blk.next(wt, b, n, v);
                if (fn == 2 && wt == 2) { PB g(b, n);
                    while (g.more()) { int wt2; const unsigned char* b2 = nullptr; size_t n2 = 0; uint64_t v2 = 0; int f2 = g.next(wt2, b2, n2, v2);
                        if (wt2 == 2 && (f2 == 1 || f2 == 3 || f2 == 4 || f2 == 5)) ++ents;
                        if (wt2 == 2 && f2 == 2) { PB dn2(b2, n2); while (dn2.more()) { int wt3; const unsigned char* b3 = nullptr; size_t n3 = 0; uint64_t v3 = 0; int f3 = dn2.next(wt3, b3, n3, v3);
                            if (f3 == 1 && wt3 == 2) for (size_t i = 0; i < n3; ++i) if (!(b3[i] & 0x80)) ++ents; } if (!dn2.ok) blk.ok = false; } }
                    if (!g.ok) blk.ok = false; } }
            if (!blk.ok) { f.parsed = false; f.problem = "malformed PrimitiveBlock"; return f; }
            f.entities += ents; f.max_entities = std::max(f.max_entities, ents);
            if (ents > 8000 && f.limit.empty()) f.limit = "block-exceeds-8000-entities";
        }
        ++f.blobs;
    }
    if (f.blobs == 0) { f.parsed = false; f.problem = "no blobs"; }
    return f;
}

// ================================================================================================
// one write/read cycle
static std::string g_dir;                                      // scratch directory of this shard process
static osmium::thread::Pool* g_pool[3] = {nullptr, nullptr, nullptr};   // created lazily (in the forked child)

static void make_dir() {
    mkdir("/verif/build", 0755);
    mkdir("/verif/build/C01-data", 0755);
    char b[96]; snprintf(b, sizeof b, "/verif/build/C01-data/p%d", static_cast<int>(getpid()));
    g_dir = b; mkdir(g_dir.c_str(), 0700);
}
static void cleanup_dir() {
    if (g_dir.empty() || getenv("C01_KEEP")) return;   // C01_KEEP=1 with --replay: leave the written file in the scratch directory
    if (DIR* d = opendir(g_dir.c_str())) { while (dirent* e = readdir(d)) { if (strcmp(e->d_name, ".") && strcmp(e->d_name, "..")) unlink((g_dir + "/" + e->d_name).c_str()); } closedir(d); }
    rmdir(g_dir.c_str());
    rmdir("/verif/build/C01-data");   // succeeds only when no other process uses it
}
static void ensure_pools() { for (int t = 1; t <= 2; ++t) if (!g_pool[t]) g_pool[t] = new osmium::thread::Pool{t}; }

static std::string norm_msg(const std::string& m) {   // exception text as a key fragment: digits collapsed, payload cut
    std::string r; bool lastn = false;
    for (char c : m) {
        if (isdigit(static_cast<unsigned char>(c))) { if (!lastn) r += 'N'; lastn = true; continue; }
        lastn = false;
        if (c == '\'' || c == '"' || c == '(') break;   // payload follows
        r += (c == ' ' || c == '/' || c == '\t') ? '_' : c;
        if (r.size() > 60) break;
    }
    while (!r.empty() && (r.back() == '_' || r.back() == ':')) r.pop_back();
    return r;
}

struct Outcome {
    enum Kind { ok, writer_threw, framing_bad, limit_exceeded, reader_threw, mismatch, count_mismatch, header_mismatch } kind = ok;
    std::string key_what, key_cls, detail;   // fragments of the class key
    size_t obj_index = 0;                    // index in D of the first differing object
    char obj_type = 0;
    uint64_t file_size = 0;
    Framing fr;
    bool nontrivial = false, outside_domain = false;
    size_t skipped = 0, written = 0;
};
static const char* const KIND[] = {"ok", "writer-threw", "framing-unparseable", "format-limit-exceeded", "reader-threw", "field-mismatch", "object-count-mismatch", "header-mismatch"};


static std::string case_spec(const DataSet& d, const Opt& o) { return d.name + ";sel=" + d.sel + ";opt=" + opt_string(o); }
static std::vector<std::string> g_history;   // the last cycles of this process, oldest first (for findings that need earlier files)
static char* g_current = nullptr;            // shared memory: spec of the cycle in progress (read by the parent when a child dies)

static Outcome cycle(const DataSet& d, const Opt& o) {
    ensure_pools();
    g_history.push_back(case_spec(d, o)); if (g_history.size() > 40) g_history.erase(g_history.begin());
    if (g_current) { strncpy(g_current, g_history.back().c_str(), 8191); g_current[8191] = 0; }
    Outcome out;
    const std::string path = g_dir + "/f." + FMT[o.fmt] + ZIP[o.zip];
    const Expect e = carry(d, o);
    out.nontrivial = e.nontrivial; out.skipped = e.skipped; out.written = e.written.size();
    if (e.header_outside_domain) { out.outside_domain = true; return out; }
    // ---- write
    try {
        osmium::io::File file{path, opt_format_string(o)};
        osmium::io::Header header;
        for (const ABox& b : d.header.boxes) header.add_box(osmium::Box{to_loc(b.bl), to_loc(b.tr)});
        if (!d.header.generator.empty()) header.set("generator", d.header.generator);
        osmium::io::Writer writer{file, header, osmium::io::overwrite::allow, *g_pool[o.thr]};
        const size_t per = d.feed == 2 ? 1 : d.feed == 3 ? 3 : e.written.size() + 1;
        if (d.feed == 1) writer.set_buffer_size(64 * 1024);
        for (size_t i = 0; i < e.written.size(); i += per) {
            const size_t end = std::min(e.written.size(), i + per);
            size_t cap = 4096; for (size_t k = i; k < end; ++k) cap += size_estimate(d.objs[e.written[k]]);
            osmium::memory::Buffer buf{(cap + 7) & ~size_t(7), osmium::memory::Buffer::auto_grow::yes};
            for (size_t k = i; k < end; ++k) build_object(buf, d.objs[e.written[k]]);
            if (d.feed == 1) { for (const auto& item : buf) writer(item); }
            else writer(std::move(buf));
        }
        out.file_size = writer.close();
    } catch (const std::exception& ex) {
        out.kind = Outcome::writer_threw; out.key_what = norm_msg(ex.what()); out.detail = std::string("Writer threw: ") + ex.what();
        return out;
    }
    // ---- independent framing check (PBF files without outer compression)
    if (o.pbf() && o.zip == 0) {
        std::string bytes = benum::slurp(path, 1ull << 32);
        out.fr = pbf_framing(bytes);
        out.fr.header_blob.clear();
        ++C["pbf_files_framing_checked"];
        C["pbf_blobs_checked"] += out.fr.blobs;
    }
    // ---- read
    std::vector<AObj> got; AHeader gh;
    bool reader_failed = false; std::string rmsg;
    auto read_back = [&](const osmium::io::File& f) {
        got.clear(); gh = AHeader{}; reader_failed = false; rmsg.clear();
        g_reader_cap = static_cast<size_t>(o.cap);
        try {
            osmium::io::Reader reader{f, osmium::osm_entity_bits::all, *g_pool[o.thr]};
            osmium::io::Header h = reader.header();
            gh.generator = h.get("generator");
            for (const auto& b : h.boxes()) gh.boxes.push_back(ABox{from_loc(b.bottom_left()), from_loc(b.top_right())});
            while (osmium::memory::Buffer buf = reader.read()) {
                for (const auto& ent : buf.select<osmium::OSMEntity>()) { AObj x; if (extract(ent, x)) got.push_back(std::move(x)); }
            }
            reader.close();
        } catch (const std::exception& ex) { reader_failed = true; rmsg = ex.what(); }
    };
    read_back(osmium::io::File{path});
    // A PBF file with outer gzip/bzip2 compression: if the Reader rejects the file it wrote under that name, the same bytes are
    // handed to a Reader as a memory buffer (with the format given) so that the content is still compared; the rejection itself
    // is reported below if nothing else is wrong.
    std::string outer_rejection;
    if (reader_failed && o.pbf() && o.zip != 0) {
        outer_rejection = rmsg;
        const std::string bytes = benum::slurp(path, 1ull << 32);
        read_back(osmium::io::File{bytes.data(), bytes.size(), std::string(FMT[o.fmt]) + ZIP[o.zip]});
        ++C["pbf_outer_compression_reread_from_memory"];
    }
    // ---- verdict
    if (o.pbf() && o.zip == 0) {
        if (!out.fr.parsed) { out.kind = Outcome::framing_bad; out.key_what = norm_msg(out.fr.problem); out.detail = "independent framing parser: " + out.fr.problem + (reader_failed ? "; Reader: " + rmsg : ""); return out; }
        if (!out.fr.limit.empty()) {
            out.kind = Outcome::limit_exceeded; out.key_what = out.fr.limit;
            out.detail = "Writer closed without error (" + std::to_string(out.file_size) + " bytes) but the file breaks a PBF format limit: largest blob header " + std::to_string(out.fr.max_header) +
                         " bytes, largest uncompressed blob " + std::to_string(out.fr.max_raw) + " bytes, most entities in a block " + std::to_string(out.fr.max_entities) +
                         (reader_failed ? "; Reader rejects the file: " + rmsg : "; Reader accepts the file");
            return out;
        }
    }
    if (reader_failed) { out.kind = Outcome::reader_threw; out.key_what = norm_msg(rmsg); out.detail = "Writer closed without error (" + std::to_string(out.file_size) + " bytes), Reader threw: " + rmsg; return out; }
    size_t n = std::min(e.objs.size(), got.size());
    for (size_t i = 0; i < n; ++i) {
        Diff df = compare(e.objs[i], got[i], false, nullptr);
        if (df.differs) {
            const AObj& src = d.objs[e.written[i]];
            out.kind = Outcome::mismatch; out.obj_index = e.written[i]; out.obj_type = e.objs[i].type;
            out.key_what = df.field + "/" + df.how; out.key_cls = df.cls;
            out.detail = "object #" + std::to_string(e.written[i]) + " [" + src.label + "] field " + df.field + ": " + df.detail + " | expected " + show(e.objs[i]) + " | read " + show(got[i]);
            return out;
        }
    }
    if (e.objs.size() != got.size()) {
        out.kind = Outcome::count_mismatch; out.key_what = got.size() < e.objs.size() ? "objects-missing" : "extra-objects";
        out.detail = "expected " + std::to_string(e.objs.size()) + " objects, read " + std::to_string(got.size());
        return out;
    }
    // header
    if (e.header.generator != gh.generator) { out.kind = Outcome::header_mismatch; out.key_what = "generator/" + std::string(gh.generator.empty() ? "lost" : "changed"); out.key_cls = str_class(e.header.generator); out.detail = "header generator: expected " + show_str(e.header.generator) + " got " + show_str(gh.generator); return out; }
    if (e.header.boxes.size() != gh.boxes.size()) { out.kind = Outcome::header_mismatch; out.key_what = "boxes/count"; out.key_cls = "n=" + std::to_string(e.header.boxes.size()); out.detail = "header boxes: expected " + std::to_string(e.header.boxes.size()) + " got " + std::to_string(gh.boxes.size()); return out; }
    for (size_t i = 0; i < gh.boxes.size(); ++i) {
        const ABox& a = e.header.boxes[i]; const ABox& b = gh.boxes[i];
        if (a.bl != b.bl || a.tr != b.tr) {
            out.kind = Outcome::header_mismatch;
            // classify: every differing coordinate is exactly one unit closer to zero (truncation) | anything else
            bool trunc1 = true;
            const int32_t ev[4] = {a.bl.x, a.bl.y, a.tr.x, a.tr.y}, gv[4] = {b.bl.x, b.bl.y, b.tr.x, b.tr.y};
            for (int k = 0; k < 4; ++k) if (ev[k] != gv[k]) { int64_t dlt = static_cast<int64_t>(gv[k]) - ev[k]; if (!((ev[k] > 0 && dlt == -1) || (ev[k] < 0 && dlt == 1))) trunc1 = false; }
            out.key_what = trunc1 ? "box-corner/one-unit-towards-zero" : "box-corner/changed"; out.key_cls = "valid";
            out.detail = "header box #" + std::to_string(i) + ": expected " + show(a.bl) + show(a.tr) + " got " + show(b.bl) + show(b.tr);
            return out;
        }
    }
    if (!outer_rejection.empty()) {
        out.kind = Outcome::reader_threw; out.key_what = norm_msg(outer_rejection); out.key_cls = "outer-file-compression-ignored-when-reading-from-file";
        out.detail = "Writer closed without error (" + std::to_string(out.file_size) + " bytes), Reader{filename} threw: " + outer_rejection + " (the same bytes read from a memory buffer with format '" + FMT[o.fmt] + ZIP[o.zip] + "' give back the data set)";
    }
    return out;
}

// ================================================================================================
// class keys, minimisation, reporting
static std::string sel_string(const std::vector<size_t>& sel);
static DataSet select(const DataSet& d, const std::vector<size_t>& sel) {   // sel: indexes into the generated data set
    DataSet r; r.header = d.header; r.feed = d.feed; r.name = d.name; r.keyhint = d.keyhint; r.sel = sel_string(sel);
    for (size_t i : sel) if (i < d.objs.size()) r.objs.push_back(d.objs[i]);
    return r;
}
// selections are written as sorted index ranges: "0-8,10,12-160"
static std::string sel_string(const std::vector<size_t>& sel) {
    std::string s;
    for (size_t i = 0; i < sel.size();) {
        size_t j = i; while (j + 1 < sel.size() && sel[j + 1] == sel[j] + 1) ++j;
        if (!s.empty()) s += ",";
        s += std::to_string(sel[i]); if (j > i) s += "-" + std::to_string(sel[j]);
        i = j + 1;
    }
    return s;
}
static std::vector<size_t> sel_parse(const std::string& s) {
    std::vector<size_t> r;
    if (s.empty()) return r;
    size_t p = 0;
    for (;;) {
        size_t q = s.find(',', p); std::string t = s.substr(p, q == std::string::npos ? q : q - p);
        size_t dash = t.find('-'); size_t lo = strtoull(t.c_str(), nullptr, 10), hi = dash == std::string::npos ? lo : strtoull(t.c_str() + dash + 1, nullptr, 10);
        for (size_t i = lo; i <= hi && r.size() < 10000000; ++i) r.push_back(i);
        if (q == std::string::npos) break; p = q + 1;
    }
    return r;
}

// What a whole-file finding is attributed to. Exceptions: the factor of the one-factor variant when the (reduced) selection is a
// single labelled object, otherwise "unlabelled". Limits, framing and object counts: the family tag of the block families.
static std::string subject(const DataSet& d, const Opt& o, bool family) {
    if (family && !d.keyhint.empty()) return d.keyhint;
    const AObj* only = nullptr; size_t n = 0;
    for (const AObj& x : d.objs) if (!out_of_domain(x, o)) { only = &x; ++n; }
    if (n == 1 && !only->label.empty()) return only->label;
    return n == 0 ? "no-objects" : "unlabelled";
}
static char single_type(const DataSet& d, const Opt& o) {
    char t = 0; size_t n = 0;
    for (const AObj& x : d.objs) if (!out_of_domain(x, o)) { t = x.type; ++n; }
    return n == 1 ? t : 0;
}

// area of exceptions: the change-file writer/reader share the attribute code with plain XML
static std::string area_x(const Opt& o, char type) { return o.xml() ? "xml" : area(o, type); }

static std::string outcome_key(const DataSet& d, const Opt& o, const Outcome& r) {
    switch (r.kind) {
        case Outcome::ok: return "";
        case Outcome::writer_threw: return area_x(o, single_type(d, o)) + "/writer-rejects-in-domain/" + r.key_what + "/" + subject(d, o, false);
        case Outcome::framing_bad: return "pbf/framing-unparseable/" + r.key_what + "/" + subject(d, o, true);
        case Outcome::limit_exceeded: return "pbf/limit/" + r.key_what + "/" + subject(d, o, true);
        case Outcome::reader_threw: if (!r.key_cls.empty()) return "pbf/reader-rejects-written-file/" + r.key_what + "/" + r.key_cls;
                                    return area_x(o, single_type(d, o)) + "/reader-rejects-written-file/" + r.key_what + "/" + subject(d, o, false);
        case Outcome::mismatch: return area(o, r.obj_type) + "/" + r.key_what + "/" + r.key_cls;
        case Outcome::count_mismatch: return area(o) + "/" + r.key_what + "/" + subject(d, o, true);
        case Outcome::header_mismatch: return area(o) + "/header/" + r.key_what + "/" + r.key_cls;
    }
    return "";
}

static std::set<std::string> g_sets;
static void set_once(const std::string& key, const std::string& v) { if (g_sets.insert(key + "\t" + v).second) benum::setv(key, v); }

// Runs "<this executable> --replay <spec>" and returns the class keys it prints.
static std::set<std::string> replay_in_fresh_process(const std::string& spec) {
    std::set<std::string> keys;
    char exe[4096]; ssize_t n = readlink("/proc/self/exe", exe, sizeof exe - 1); if (n <= 0) return keys; exe[n] = 0;
    int fd[2]; if (pipe(fd) != 0) return keys;
    pid_t pid = fork();
    if (pid == 0) {
        dup2(fd[1], 1); close(fd[0]); close(fd[1]);
        execl(exe, exe, "--tier", "quick", "--replay", spec.c_str(), static_cast<char*>(nullptr));
        _exit(127);
    }
    close(fd[1]);
    std::string out; char buf[4096]; ssize_t k;
    while ((k = read(fd[0], buf, sizeof buf)) > 0) out.append(buf, static_cast<size_t>(k));
    close(fd[0]); int st = 0; waitpid(pid, &st, 0);
    size_t p = 0;
    while (p < out.size()) { size_t e = out.find('\n', p); if (e == std::string::npos) e = out.size(); std::string line = out.substr(p, e - p); p = e + 1;
        if (line.compare(0, 5, "VIOL\t") == 0) { size_t t = line.find('\t', 5); keys.insert(line.substr(5, t == std::string::npos ? t : t - 5)); } }
    return keys;
}

static bool g_in_replay = false;
static const char* const AFTER = "/only-after-other-files-in-the-same-process";

// Reports a failing case. The first report of a class (per process) is confirmed by replaying the spec in a fresh process; a failure that
// needs the files processed before it (state kept by the library across files) is reported with those files in its spec.
static void report(const DataSet& d, const std::vector<size_t>* sel, const Opt& o, const Outcome& r) {
    DataSet t = sel ? select(d, *sel) : d;
    std::string key = outcome_key(t, o, r);
    std::string detail = "options: " + opt_human(o) + " | data set " + d.name + (sel ? " objects " + sel_string(*sel) : "") + " (" + std::to_string(t.objs.size()) + " objects) | " + r.detail;
    if (t.objs.size() == 1 && r.kind != Outcome::mismatch) detail += " | object: " + show(t.objs[0]);
    std::string spec = case_spec(t, o);
    static std::map<std::string, unsigned> confirmations;
    static std::map<std::string, int> form;       // how the class was last confirmed: 0 alone, 1 after earlier files, 2 not at all
    if (!g_in_replay) {
        // the files handled before this one, newest last, as many as fit into a replay spec (hex doubles the length)
        std::string chain; size_t first = g_history.size() - (!g_history.empty() && g_history.back() == spec ? 1 : 0), last = first, len = 0;
        while (first > 0 && len + g_history[first - 1].size() + 1 <= 1700) { --first; len += g_history[first].size() + 1; }
        for (size_t i = first; i < last; ++i) chain += (chain.empty() ? "" : "|") + g_history[i];
        const std::string spec2 = spec + ";after=" + benum::hex(chain);
        int f = 0;
        if (confirmations[key]++ < 1) {
            ++C["findings_confirmed_in_fresh_process"];
            if (replay_in_fresh_process(spec).count(key)) f = 0;
            else if (replay_in_fresh_process(spec2).count(key + AFTER)) f = 1;
            else f = 2;
            form[key] = f;
        } else f = form[key];
        if (f == 1) { key += AFTER; spec = spec2; detail += " | not reproduced by this file alone in a fresh process; reproduced after the " + std::to_string(last - first) + " files handled before it"; }
        if (f == 2) detail += " | NOT reproduced in a fresh process, neither by this file alone nor after the files handled before it (scheduling-dependent?)";
    }
    V.report(key, detail, spec);
}

static bool same_failure(const Outcome& a, const Outcome& b) { return a.kind == b.kind && a.key_what == b.key_what && a.key_cls == b.key_cls; }

// Objects that were found to make a cycle fail, per data set and format: later cycles on the same data set (in this process)
// write the sequence without them, so that the rest of the sequence is still compared under every option vector.
static std::map<std::string, std::set<size_t>> g_quarantine;

// Runs one case. A failing sequence is reduced to the object that causes the failure (alone, or with its predecessor), the
// finding is reported with that selection, and the sequence is run again without the object.
static void evaluate(const DataSet& d, const Opt& o) {
    auto count = [&](const Outcome& r) {
        ++C["evaluations"]; ++C["write_read_cycles"];
        if (r.nontrivial) ++C["distinct_nontrivial"];
        C["objects_written"] += r.written;
        C["objects_outside_vector_domain_skipped"] += r.skipped;
        set_once("outcomes", area(o) + ":" + KIND[r.kind]);
    };
    if (d.objs.size() <= 1 || !d.keyhint.empty()) {
        Outcome r = cycle(d, o);
        if (r.outside_domain) { ++C["cycles_skipped_header_outside_vector_domain"]; return; }
        count(r);
        if (r.kind != Outcome::ok) { ++C["failed_cycles"]; report(d, nullptr, o, r); }
        return;
    }
    // (the feed modes of the interleaved data set contain the same objects at the same indexes and share their quarantine)
    std::set<size_t>& quarantine = g_quarantine[(d.name.compare(0, 6, "mixed:") == 0 ? std::string("mixed") : d.name) + "|" + area(o, 'n')];
    const std::set<size_t> before = quarantine;
    std::vector<size_t> active;
    for (size_t i = 0; i < d.objs.size(); ++i) if (!quarantine.count(i)) active.push_back(i);
    for (int iter = 0; iter < 24; ++iter) {
        Outcome r = cycle(select(d, active), o);
        if (r.outside_domain) { ++C["cycles_skipped_header_outside_vector_domain"]; return; }
        if (iter == 0) count(r);
        if (r.kind == Outcome::ok) break;
        ++C["failed_cycles"];
        static unsigned reductions = 0;                 // per process: a failure class that hits everything must not eat the time budget
        const bool may_reduce = reductions < 8000 && quarantine.size() < 40;   // mass failure: stop looking for single culprits
        auto fails_same = [&](const std::vector<size_t>& s, Outcome& out) { out = cycle(select(d, s), o); ++C["reduction_cycles"]; ++reductions; return same_failure(out, r); };
        if (!may_reduce) { ++C["failures_reported_unreduced"]; report(d, &active, o, r); break; }
        size_t culprit = ~size_t(0);
        Outcome tr;
        if (r.kind == Outcome::mismatch) {
            const size_t pos = r.obj_index;             // position in the selection
            culprit = active[pos];
            std::vector<size_t> s1{culprit};
            if (fails_same(s1, tr)) report(d, &s1, o, tr);
            else { std::vector<size_t> s2; if (pos > 0) s2.push_back(active[pos - 1]); s2.push_back(culprit);
                   if (pos > 0 && fails_same(s2, tr)) report(d, &s2, o, tr); else report(d, &active, o, r); }
        } else if (r.kind == Outcome::header_mismatch || (r.kind == Outcome::reader_threw && !r.key_cls.empty())) {
            // independent of the objects (everything else was compared already): shown once on the empty sequence
            static std::set<std::string> shown;
            std::vector<size_t> none;
            if (shown.insert(outcome_key(d, o, r)).second && fails_same(none, tr)) report(d, &none, o, tr); else report(d, &active, o, r);
            break;
        } else {                                        // exception, limit, count: bisect for a single object that fails alone
            std::vector<size_t> cur = active;
            bool found = true, tested = false;
            while (cur.size() > 1 && found) {
                std::vector<size_t> h1(cur.begin(), cur.begin() + cur.size() / 2), h2(cur.begin() + cur.size() / 2, cur.end());
                if (fails_same(h1, tr)) cur = h1; else if (fails_same(h2, tr)) cur = h2; else found = false;
                tested = found;
            }
            if (found && cur.size() == 1 && (tested || fails_same(cur, tr))) { culprit = cur[0]; report(d, &cur, o, tr); }
            else { report(d, &active, o, r); break; }
        }
        quarantine.insert(culprit);
        active.erase(std::find(active.begin(), active.end(), culprit));
    }
    (void)before;   // quarantined objects are not written again with this data set; the 'one:' data sets run every variant alone
}

// ================================================================================================
// value sets
static const int64_t I64MAX = INT64_MAX, I64MIN1 = INT64_MIN + 1;
static const std::vector<int64_t> IDS = {I64MIN1, -(1LL << 32), -1, 0, 1, 1LL << 31, 1LL << 32, I64MAX - 1, I64MAX};
static const std::vector<uint32_t> VERSIONS = {0, 1, 2, 2147483647u};
static const std::vector<uint32_t> UIDS = {0, 1, 2147483647u};
static const std::vector<uint32_t> TIMES = {0, 1, 2147483647u, 2147483648u, 4294967295u};
static const std::vector<uint32_t> CSETS = {0, 1, 2147483648u, 4294967294u, 4294967295u};
static const std::vector<uint32_t> COUNTS = {0, 1, 4294967294u};
static const std::vector<Loc> LOCS = {Loc{}, Loc{0, 0}, Loc{1, 1}, Loc{-1, -1}, Loc{1, -1}, Loc{1800000000, 900000000}, Loc{-1800000000, -900000000},
                                      Loc{1800000001, 0}, Loc{0, 900000001}, Loc{-2000000000, 5}, Loc{2147483646, INT32_MIN}, Loc{INT32_MIN, 2147483646}};
static const uint32_t T0 = 1420070400u;

static std::string rep(const std::string& s, size_t n) { std::string r; for (size_t i = 0; i < n; ++i) r += s; return r; }

static const std::vector<std::string>& strings() {
    static const std::vector<std::string> v = {
        "", "a", std::string(1024, 'x'), std::string(1023, 'y'),
        "\xc2\x80", "\xc3\xbc", "\xdf\xbf", "\xe0\xa0\x80", "\xe2\x82\xac", "\xef\xbf\xbd", "\xf0\x90\x80\x80", "\xf4\x8f\xbf\xbf", "\x7f",
        "a\xc3\xa4\xe2\x82\xac\xf0\x90\x8d\x88z", rep("\xf4\x8f\xbf\xbf", 256), rep("\xe2\x82\xac", 341) + "x",
        "\xef\xbf\xbe", "\xef\xbf\xbf",                                   // noncharacters: not expressible in XML 1.0
        "&", "<", ">", "\"", "'", "&amp;", "&lt;x&gt;", "]]>", "<!-- x -->", "&#10;", "a&b<c>d\"e'f", "<tag k='a' v=\"b\"/>",
        "\t", "\n", "\r", "\r\n", " ", " lead", "trail ", "a  b", "a\tb\nc\rd",
        ",", "=", "@", "%", "%%", "%20%", "%25", "a b,c=d@e%f", "x=y", "n1@w2,r3", "%zz%",
        "\x01", "\x1f", "a\x08" "b",                                      // C0 controls: not expressible in XML 1.0
        "\xc2\xa0", "\xc2\xa1", "\xc2\xac\xc2\xad\xc2\xae", "\xd7\xbf", "\xd8\x80",   // edges of the OPL pass-through ranges
        "!$&*+-./09:;<>?AZ[\\]^_`az{|}~",
    };
    return v;
}

static AObj base_obj(char type) {
    AObj o; o.type = type; o.id = 17; o.version = 3; o.changeset = 555; o.uid = 42; o.ts = T0; o.user = "user"; o.tags = {{"highway", "primary"}};
    if (type == 'n') o.loc = Loc{15000000, -25000000};
    if (type == 'w') o.refs = {{1, Loc{10, 20}}, {2, Loc{30, 40}}, {3, Loc{50, 60}}};
    if (type == 'r') o.members = {{'n', 1, "a"}, {'w', 2, ""}, {'r', 3, "role"}};
    if (type == 'c') { o.version = 0; o.changeset = 0; o.ts = 0; o.created = T0; o.closed = T0 + 100; o.num_changes = 7; o.num_comments = 1; o.bl = Loc{10, 20}; o.tr = Loc{30, 40};
                       o.tags = {{"comment", "x"}}; o.comments = {{T0 + 50, 9, "cu", "text"}}; }
    return o;
}

// every one-factor variant of the base object of one type; label = "<factor>:<value class>"
static std::vector<AObj> variants(char type) {
    std::vector<AObj> v;
    const AObj base = base_obj(type);
    auto add = [&](AObj o, const std::string& label) { o.label = label; v.push_back(std::move(o)); };
    add(base, "base");
    if (type != 'c') {
        for (int64_t id : IDS) { AObj o = base; o.id = id; add(o, "id:" + int_class(id, I64MAX)); }
        for (uint32_t x : VERSIONS) { AObj o = base; o.version = x; add(o, "version:" + int_class(x, 4294967295LL)); }
        for (uint32_t x : UIDS) { AObj o = base; o.uid = x; add(o, "uid:" + int_class(x, 4294967295LL)); }
        for (uint32_t x : TIMES) { AObj o = base; o.ts = x; add(o, "timestamp:" + int_class(x, 4294967295LL)); }
        for (uint32_t x : CSETS) { AObj o = base; o.changeset = x; add(o, "changeset:" + int_class(x, 4294967295LL)); }
        { AObj o = base; o.visible = false; add(o, "visible:deleted"); }
        { AObj o = base; o.visible = false; o.version = 1; add(o, "visible:deleted,version=1"); }
        { AObj o = base; o.version = 0; o.ts = 0; o.changeset = 0; o.uid = 0; o.user.clear(); o.tags.clear(); add(o, "all-metadata:0"); }
    } else {
        for (int64_t id : {0LL, 1LL, 2147483648LL, 4294967294LL, 4294967295LL}) { AObj o = base; o.id = id; add(o, "id:" + int_class(id, 4294967295LL)); }
        for (uint32_t x : TIMES) { AObj o = base; o.created = x; add(o, "created_at:" + int_class(x, 4294967295LL)); }
        for (uint32_t x : TIMES) { AObj o = base; o.closed = x; add(o, "closed_at:" + int_class(x, 4294967295LL)); }
        for (uint32_t x : COUNTS) { AObj o = base; o.num_changes = x; add(o, "num_changes:" + int_class(x, 4294967295LL)); }
        for (uint32_t x : COUNTS) { AObj o = base; o.num_comments = x; add(o, "num_comments:" + int_class(x, 4294967295LL)); }
        for (uint32_t x : {1u, 2147483647u}) { AObj o = base; o.uid = x; add(o, "uid:" + int_class(x, 4294967295LL)); }
        { AObj o = base; o.uid = 0; o.user.clear(); add(o, "uid:anonymous"); }
        { AObj o = base; o.bl = Loc{}; o.tr = Loc{}; add(o, "bounds:undefined"); }
        { AObj o = base; o.bl = Loc{-1800000000, -900000000}; o.tr = Loc{1800000000, 900000000}; add(o, "bounds:world"); }
        { AObj o = base; o.bl = Loc{0, 0}; o.tr = Loc{0, 0}; add(o, "bounds:point-0-0"); }
        { AObj o = base; o.bl = Loc{-1, -1}; o.tr = Loc{1, 1}; add(o, "bounds:unit"); }
        { AObj o = base; o.comments.clear(); o.num_comments = 0; add(o, "discussion:none"); }
        { AObj o = base; o.comments = {{T0, 1, "a", "first"}, {T0 + 1, 2, "b", "second"}}; add(o, "discussion:2"); }
        { AObj o = base; o.comments.clear(); for (int i = 0; i < 20; ++i) o.comments.push_back({T0 + i, static_cast<uint32_t>(i), "user" + std::to_string(i % 3), "text " + std::to_string(i)}); add(o, "discussion:20"); }
        for (uint32_t x : TIMES) { AObj o = base; o.comments[0].date = x; add(o, "comment-date:" + int_class(x, 4294967295LL)); }
        for (uint32_t x : UIDS) { AObj o = base; o.comments[0].uid = x; add(o, "comment-uid:" + int_class(x, 4294967295LL)); }
        for (const auto& s : strings()) { AObj o = base; o.comments[0].user = s; add(o, "comment-user:" + str_class(s)); }
        for (const auto& s : strings()) { AObj o = base; o.comments[0].text = s; add(o, "comment-text:" + str_class(s)); }
    }
    for (const auto& s : strings()) { if (type == 'c' && s.empty()) continue; AObj o = base; o.user = s; add(o, "user:" + str_class(s)); }
    { AObj o = base; o.tags.clear(); add(o, "tags:0"); }
    { AObj o = base; o.tags = {{"a", "b"}, {"c", "d"}}; add(o, "tags:2"); }
    { AObj o = base; o.tags.clear(); for (int i = 0; i < 300; ++i) o.tags.push_back({"k" + std::to_string(i), "v" + std::to_string(i)}); add(o, "tags:300"); }
    { AObj o = base; o.tags = {{"k", "v"}, {"k", "v2"}, {"k", "v"}, {"user", "user"}}; add(o, "tags:duplicate-keys"); }
    for (const auto& s : strings()) { AObj o = base; o.tags = {{s, "v"}, {"k", s}}; add(o, "tag-string:" + str_class(s)); }
    { AObj o = base; o.tags.clear(); for (int c = 1; c < 128; ++c) o.tags.push_back({std::string(1, static_cast<char>(c)), std::string("<") + static_cast<char>(c) + ">"}); add(o, "tags:every-ascii-character"); }
    { AObj o = base; o.tags.clear(); for (int c = 1; c < 128; ++c) if (c >= 0x20 || c == 9 || c == 10 || c == 13) o.tags.push_back({std::string(1, static_cast<char>(c)), std::string("<") + static_cast<char>(c) + ">"}); add(o, "tags:every-xml-ascii-character"); }
    if (type == 'n') {
        for (const Loc& l : LOCS) { AObj o = base; o.loc = l; add(o, "location:" + loc_class(l)); }
        { AObj o = base; o.visible = false; o.loc = Loc{}; add(o, "visible:deleted,location=undefined"); }
    }
    if (type == 'w') {
        { AObj o = base; o.refs.clear(); add(o, "nodes:0"); }
        for (int64_t id : IDS) { AObj o = base; o.refs = {{id, Loc{10, 20}}}; add(o, "node-ref:" + int_class(id, I64MAX)); }
        { AObj o = base; o.refs.clear(); for (int64_t id : IDS) if (id != I64MAX) o.refs.push_back({id, Loc{1, 2}}); for (auto it = IDS.rbegin(); it != IDS.rend(); ++it) if (*it != I64MAX) o.refs.push_back({*it, Loc{3, 4}}); add(o, "node-refs:all-boundary-ids-but-the-maximum"); }
        { AObj o = base; o.refs.clear(); for (int i = 0; i < 2000; ++i) o.refs.push_back({1000 + i * (i % 3 == 0 ? -7 : 5), Loc{i, -i}}); add(o, "nodes:2000"); }
        for (const Loc& l : LOCS) { AObj o = base; o.refs = {{5, l}}; add(o, "node-location:" + loc_class(l)); }
        { AObj o = base; o.refs.clear(); int64_t k = 1; for (const Loc& l : LOCS) if (l.valid()) { o.refs.push_back({k++, l}); o.refs.push_back({k++, Loc{}}); } add(o, "node-location:undefined"); }   // undefined between valid locations
    }
    if (type == 'r') {
        { AObj o = base; o.members.clear(); add(o, "members:0"); }
        for (char t : {'n', 'w', 'r'}) { AObj o = base; o.members = {{t, 7, "x"}}; add(o, std::string("member-type:") + t); }
        for (int64_t id : IDS) { AObj o = base; o.members = {{'w', id, "outer"}}; add(o, "member-ref:" + int_class(id, I64MAX)); }
        { AObj o = base; o.members.clear(); int k = 0; for (int64_t id : IDS) if (id != I64MAX) o.members.push_back({"nwr"[k++ % 3], id, "r"}); for (auto it = IDS.rbegin(); it != IDS.rend(); ++it) if (*it != I64MAX) o.members.push_back({"nwr"[k++ % 3], *it, ""}); add(o, "member-refs:all-boundary-ids-but-the-maximum"); }
        { AObj o = base; o.members.clear(); for (int i = 0; i < 300; ++i) o.members.push_back({"nwr"[i % 3], 100 + i * (i % 2 ? 3 : -2), "role" + std::to_string(i % 140)}); add(o, "members:300"); }
        for (const auto& s : strings()) { AObj o = base; o.members = {{'n', 1, s}, {'w', 2, "x"}}; add(o, "member-role:" + str_class(s)); }
    }
    return v;
}

// ------------------------------------------------------------------------------------------------
// reduced full product: 2-3 values per field
static std::vector<uint32_t> prod_radix(char type) {
    if (type == 'c') return {2, 2, 2, 2, 2, 3, 2, 2, 3};   // id created closed num_changes num_comments (uid,user) bounds tags comments
    return {3, 3, 2, 2, 2, 2, 2, 3, 3};                    // id version ts changeset uid user visible (loc|refs|members) tags
}
static uint64_t prod_total(char type) { uint64_t t = 1; for (auto r : prod_radix(type)) t *= r; return t; }
static AObj prod_obj(char type, uint64_t rank) {
    benum::Odometer od(prod_radix(type)); od.set_rank(rank);
    const auto& g = od.digit;
    AObj o; o.type = type;
    if (type == 'c') {
        o.id = g[0] ? 2147483648LL : 1; o.created = g[1] ? T0 : 0; o.closed = g[2] ? T0 + 3600 : 0; o.num_changes = g[3] ? 5 : 0; o.num_comments = g[4] ? 2 : 0;
        if (g[5] >= 1) { o.uid = 5; o.user = g[5] == 1 ? "bob" : ""; }
        if (g[6]) { o.bl = Loc{-10, -20}; o.tr = Loc{10, 20}; }
        if (g[7]) o.tags = {{"created_by", "x"}, {"comment", "a b"}};
        for (uint32_t i = 0; i < g[8]; ++i) o.comments.push_back({T0 + i, i * 7, i ? "carol" : "", i ? "second, comment" : "first"});
        return o;
    }
    o.id = g[0] == 0 ? 1 : g[0] == 1 ? -1 : (1LL << 32) + 5; o.version = g[1] == 0 ? 0 : g[1] == 1 ? 1 : 7; o.ts = g[2] ? T0 : 0; o.changeset = g[3] ? 9 : 0; o.uid = g[4] ? 5 : 0;
    o.user = g[5] ? "bob" : ""; o.visible = g[6] == 0;
    if (type == 'n') { if (g[7] == 1) o.loc = Loc{1, 2}; if (g[7] == 2) o.loc = Loc{-1800000000, 900000000}; }
    if (type == 'w') { if (g[7] == 1) o.refs = {{5, Loc{7, 8}}}; if (g[7] == 2) o.refs = {{9, Loc{0, 0}}, {3, Loc{-5, 5}}, {9, Loc{1, 1}}}; }
    if (type == 'r') { if (g[7] == 1) o.members = {{'w', 5, "outer"}}; if (g[7] == 2) o.members = {{'n', 9, ""}, {'r', 3, "x y"}, {'w', -9, "inner"}}; }
    if (g[8] == 1) o.tags = {{"k", "v"}}; if (g[8] == 2) o.tags = {{"name", "A & B"}, {"k", "v"}};
    return o;
}
static const uint64_t PROD_CHUNK = 432;

// ------------------------------------------------------------------------------------------------
// block families
static AObj blk_obj(char type, uint64_t i) {
    AObj o; o.type = type; o.id = static_cast<int64_t>(i) * 3 + 1 - (i % 11 == 0 ? 1000000 : 0); o.version = static_cast<uint32_t>(i % 5); o.changeset = static_cast<uint32_t>(i / 3);
    o.uid = static_cast<uint32_t>(i % 7); o.ts = T0 + static_cast<uint32_t>(i * 13 % 100000); o.user = "u" + std::to_string(i % 50);
    o.tags = {{"k", "v" + std::to_string(i)}};   // one distinct string per object: the string table of a block gets one entry per object
    if (i % 4 == 0) o.tags.push_back({"name", "n" + std::to_string(i % 300)});
    if (type == 'n') o.loc = Loc{static_cast<int32_t>(i * 1000), static_cast<int32_t>(-static_cast<int64_t>(i) * 7)};
    if (type == 'w') o.refs = {{static_cast<int64_t>(i), Loc{static_cast<int32_t>(i), 5}}, {static_cast<int64_t>(i) + 1, Loc{7, -7}}, {static_cast<int64_t>(i) - 5, Loc{-3, static_cast<int32_t>(i)}}};
    if (type == 'r') o.members = {{"nwr"[i % 3], static_cast<int64_t>(i), "r" + std::to_string(i % 9)}, {'w', -static_cast<int64_t>(i), ""}};
    return o;
}

// independent size arithmetic for the 32 MiB families (protobuf varint / zigzag lengths)
static unsigned varint_len(uint64_t v) { unsigned n = 1; while (v >= 0x80) { v >>= 7; ++n; } return n; }
static uint64_t zigzag(int64_t v) { return (static_cast<uint64_t>(v) << 1) ^ static_cast<uint64_t>(v >> 63); }
static const int64_t FAR_A = 1LL << 61, FAR_B = -(1LL << 61);   // alternating refs: 9-byte deltas
// encoded size of a way without tags and metadata inside a PrimitiveGroup
static uint64_t pbf_way_size(int64_t id, size_t nrefs) {
    uint64_t payload = 0; int64_t prev = 0;
    for (size_t i = 0; i < nrefs; ++i) { int64_t r = i % 2 ? FAR_B : FAR_A; payload += varint_len(zigzag(r - prev)); prev = r; }
    uint64_t way = 1 + varint_len(static_cast<uint64_t>(id)) + (nrefs ? 1 + varint_len(payload) + payload : 0);
    return 1 + varint_len(way) + way;
}
static AObj far_way(int64_t id, size_t nrefs) {
    AObj o; o.type = 'w'; o.id = id;
    o.refs.reserve(nrefs);
    for (size_t i = 0; i < nrefs; ++i) o.refs.push_back({i % 2 ? FAR_B : FAR_A, Loc{}});
    return o;
}
static const uint64_t BLOB_LIMIT = 32ull * 1024 * 1024, BLOB_FILL = BLOB_LIMIT * 95 / 100;

static std::vector<std::string> split_str(const std::string& s, char c) { std::vector<std::string> r; size_t p = 0; for (;;) { size_t q = s.find(c, p); r.push_back(s.substr(p, q == std::string::npos ? q : q - p)); if (q == std::string::npos) break; p = q + 1; } return r; }

// header families
static const std::vector<int32_t> LONS = {-1800000000, -1799999999, -1374389000, -1, 0, 1, 1374389000, 1799999999, 1800000000};
static const std::vector<int32_t> LATS = {-900000000, -899999999, -687194500, -1, 0, 1, 687194500, 899999999, 900000000};
static std::vector<std::vector<ABox>> header_boxes() {
    std::vector<std::vector<ABox>> r;
    r.push_back({});
    for (size_t i = 0; i < LONS.size(); ++i) for (size_t j = i; j < LONS.size(); ++j) r.push_back({ABox{Loc{LONS[i], -5}, Loc{LONS[j], 5}}});
    for (size_t i = 0; i < LATS.size(); ++i) for (size_t j = i; j < LATS.size(); ++j) r.push_back({ABox{Loc{-5, LATS[i]}, Loc{5, LATS[j]}}});
    r.push_back({ABox{Loc{-1800000000, -900000000}, Loc{1800000000, 900000000}}});
    r.push_back({ABox{Loc{1799999999, 899999999}, Loc{1800000000, 900000000}}});
    r.push_back({ABox{Loc{10, 10}, Loc{20, 20}}, ABox{Loc{30, 30}, Loc{40, 40}}});
    r.push_back({ABox{Loc{30, 30}, Loc{40, 40}}, ABox{Loc{10, 10}, Loc{20, 20}}});
    r.push_back({ABox{Loc{10, 10}, Loc{40, 40}}, ABox{Loc{20, 20}, Loc{30, 30}}});
    r.push_back({ABox{Loc{10, 10}, Loc{20, 20}}, ABox{Loc{10, 10}, Loc{20, 20}}});
    r.push_back({ABox{Loc{-1800000000, 0}, Loc{-1, 10}}, ABox{Loc{1, -10}, Loc{1800000000, 0}}});
    r.push_back({ABox{Loc{0, -900000000}, Loc{0, 0}}, ABox{Loc{0, 0}, Loc{0, 900000000}}});
    return r;
}

// ------------------------------------------------------------------------------------------------
// make_dataset(name): the one place where data sets come from (enumeration and replay)
static DataSet make_dataset(const std::string& name) {
    DataSet d; d.name = name;
    const auto p = split_str(name, ':');
    const std::string& fam = p[0];
    auto num = [&](size_t i) { return i < p.size() ? strtoull(p[i].c_str(), nullptr, 10) : 0ull; };
    auto typ = [&](size_t i) { return i < p.size() && !p[i].empty() ? p[i][0] : 'n'; };
    if (fam == "ofat") {                    // ofat:<type>:<feed>  all variants of one type
        d.objs = variants(typ(1)); d.feed = static_cast<int>(num(2));
    } else if (fam == "mixed") {            // mixed:<feed>  variants of all types interleaved (changesets included)
        std::vector<AObj> v[4] = {variants('n'), variants('w'), variants('r'), variants('c')};
        size_t n = std::max(std::max(v[0].size(), v[1].size()), std::max(v[2].size(), v[3].size()));
        for (size_t i = 0; i < n; ++i) for (int t : {2, 0, 3, 1}) if (i < v[t].size()) d.objs.push_back(v[t][i]);
        d.feed = static_cast<int>(num(1));
    } else if (fam == "one") {              // one:<type>:<k>  a single variant
        auto v = variants(typ(1)); if (num(2) < v.size()) d.objs.push_back(v[num(2)]);
    } else if (fam == "two") {              // two:<type>:<k>:<order>  the variant next to the base object (order 0: base first)
        auto v = variants(typ(1)); if (num(2) < v.size()) { AObj b = v[0]; b.id = 16; if (num(3)) { d.objs.push_back(v[num(2)]); d.objs.push_back(b); } else { d.objs.push_back(b); d.objs.push_back(v[num(2)]); } }
    } else if (fam == "three") {            // three:<type>:<k>  variant between two objects of the other types
        auto v = variants(typ(1)); if (num(2) < v.size()) { d.objs.push_back(base_obj(typ(1) == 'n' ? 'r' : 'n')); d.objs.push_back(v[num(2)]); d.objs.push_back(base_obj(typ(1) == 'w' ? 'r' : 'w')); }
    } else if (fam == "prod") {             // prod:<type>:<chunk>:<chunk size>
        const uint64_t cs = std::max<uint64_t>(1, num(3));
        uint64_t b = num(2) * cs, e = std::min(prod_total(typ(1)), b + cs);
        for (uint64_t r = b; r < e; ++r) d.objs.push_back(prod_obj(typ(1), r));
    } else if (fam == "blk") {              // blk:<type>:<N>
        for (uint64_t i = 0; i < num(2); ++i) d.objs.push_back(blk_obj(typ(1), i));
        d.keyhint = "block-family-" + p[1] + "x" + p[2];
    } else if (fam == "alt") {              // alt:<pattern>:<N>  type of object i = pattern[i % len]
        for (uint64_t i = 0; i < num(2); ++i) d.objs.push_back(blk_obj(p[1][i % p[1].size()], i));
        d.keyhint = "type-alternation-" + p[1];
    } else if (fam == "big") {
        const std::string& kind = p[1];
        if (kind == "strtab") {             // big:strtab:<type>:<N>  N objects x 3 tags (members: 6 roles) of distinct 1024-byte strings
            char t = typ(2);
            for (uint64_t i = 0; i < num(3); ++i) {
                AObj o; o.type = t; o.id = static_cast<int64_t>(i) + 1; o.loc = Loc{static_cast<int32_t>(i), 1};
                auto str = [&](int j) { char b[32]; snprintf(b, sizeof b, "%07llu-%d-", static_cast<unsigned long long>(i), j); return std::string(b) + std::string(1024 - strlen(b), static_cast<char>('a' + j)); };
                if (t == 'r') for (int j = 0; j < 6; ++j) o.members.push_back({'n', j, str(j)});
                else for (int j = 0; j < 3; ++j) o.tags.push_back({str(2 * j), str(2 * j + 1)});
                d.objs.push_back(std::move(o));
            }
            d.keyhint = "string-table-bytes";
        } else if (kind == "fill") {        // big:fill:<N>:<refs>  N ways of <refs> far-apart refs: group data alone crosses the limits
            for (uint64_t i = 0; i < num(2); ++i) d.objs.push_back(far_way(static_cast<int64_t>(i) + 1, num(3)));
            d.keyhint = "group-data-fill";
        } else if (kind == "oversize") {    // big:oversize:<refs-of-the-big-way>  block filled to just under 95 %, then one way > 5 % of 32 MiB
            uint64_t used = 0; int64_t id = 1;
            while (used + pbf_way_size(id, 2000) < BLOB_FILL - 64) { used += pbf_way_size(id, 2000); d.objs.push_back(far_way(id, 2000)); ++id; }
            d.objs.push_back(far_way(id++, num(2)));
            for (int k = 0; k < 3; ++k) d.objs.push_back(far_way(id++, 2000));
            d.keyhint = "oversized-single-object";
        }
    } else if (fam == "hdr") {              // hdr:<boxes>:<generator>:<nobj>   generator 0 = none given, 1 = "verif", 2+k = strings()[k]
        auto hb = header_boxes(); if (num(1) < hb.size()) d.header.boxes = hb[num(1)];
        uint64_t g = num(2); if (g == 1) d.header.generator = "verif"; else if (g >= 2 && g - 2 < strings().size()) d.header.generator = strings()[g - 2];
        for (uint64_t i = 0; i < num(3); ++i) d.objs.push_back(base_obj("nwr"[i % 3]));
    } else if (fam == "box") {              // box:<x1>:<y1>:<x2>:<y2>  one header box (candidates of the bbox sweep)
        d.header.boxes.push_back(ABox{Loc{static_cast<int32_t>(atoll(p[1].c_str())), static_cast<int32_t>(atoll(p[2].c_str()))}, Loc{static_cast<int32_t>(atoll(p[3].c_str())), static_cast<int32_t>(atoll(p[4].c_str()))}});
    }
    return d;
}

// ================================================================================================
// enumeration: groups of (data set names) x (option vectors); rank = ds * |opts| + opt
struct Group { std::string bound; std::vector<std::string> names; std::vector<Opt> opts; };

static DataSet g_cached; static std::string g_cached_name = "\x01";
static const DataSet& dataset(const std::string& name) {
    if (name != g_cached_name) { g_cached = make_dataset(name); g_cached_name = name; }
    return g_cached;
}

static DataSet load_case(const std::string& name, const std::string& sel) { DataSet d = make_dataset(name); if (sel != "all") { d = select(d, sel_parse(sel)); d.name = name; } return d; }

// a child died: the case it was working on is in g_current (the exact selection), else the rank's data set as a whole
static void on_child_death(const std::string& name, const Opt& o, const std::string& what, const std::string& err) {
    std::string spec = name + ";sel=all;opt=" + opt_string(o), sel = "all";
    if (g_current && g_current[0]) { auto p = split_str(g_current, ';'); if (p.size() >= 3 && p[0] == name && p[2] == "opt=" + opt_string(o) && strlen(g_current) < 8000) { spec = g_current; sel = p[1].substr(4); } }
    const DataSet d = load_case(name, sel);
    V.report("crash/" + area(o, single_type(d, o)) + "/" + benum::death_class(what, err) + "/" + subject(d, o, true),
             "options: " + opt_human(o) + " | data set " + name + " objects " + sel + " | child died: " + what + " | " + err.substr(0, 600), spec);
    if (g_current) g_current[0] = 0;
}

static void run_groups(const Args& a, const std::vector<Group>& groups) {
    benum::Sampler sampler(a.seed, 2, 997);
    for (const Group& g : groups) {
        const uint64_t total = static_cast<uint64_t>(g.names.size()) * g.opts.size();
        benum::Isolation iso; iso.case_timeout_s = 120.0;
        bool complete = benum::run_isolated(a, 0, total,
            [&](uint64_t r) {
                const std::string& name = g.names[r / g.opts.size()]; const Opt& o = g.opts[r % g.opts.size()];
                const DataSet& d = dataset(name);
                evaluate(d, o);
                if (sampler.want(r) && !d.objs.empty()) benum::sample("[" + opt_human(o) + "] " + name + " (" + std::to_string(d.objs.size()) + " objects), e.g. " + show(d.objs[(r * 7) % d.objs.size()]));
            },
            [&](uint64_t r, const std::string& what, const std::string& err) {
                on_child_death(g.names[r / g.opts.size()], g.opts[r % g.opts.size()], what, err);
            }, iso);
        benum::bound(g.bound + " [" + std::to_string(g.names.size()) + " data sets x " + std::to_string(g.opts.size()) + " option vectors]", complete);
    }
}

static void part_ofat(const Args& a) {
    std::vector<Group> gs;
    { Group g; g.bound = "ofat packed: every one-factor variant of n/w/r/c in one sequence per type x every option vector";
      for (const char* t : {"n", "w", "r", "c"}) g.names.push_back(std::string("ofat:") + t + ":0");
      g.opts = all_opts(3); gs.push_back(g); }
    { Group g; g.bound = std::string("ofat mixed: the variants of all types interleaved, handed over in 4 feed modes x ") + (a.thorough ? "every option vector" : "level-2 option vectors");
      for (int feed = 0; feed < 4; ++feed) g.names.push_back("mixed:" + std::to_string(feed));
      g.opts = all_opts(a.thorough ? 3 : 2); gs.push_back(g); }
    { Group g; g.bound = std::string("ofat singles: each one-factor variant alone x ") + (a.thorough ? "level-1" : "level-0") + " option vectors";
      for (char t : {'n', 'w', 'r', 'c'}) { size_t n = variants(t).size(); for (size_t k = 0; k < n; ++k) g.names.push_back(std::string("one:") + t + ":" + std::to_string(k)); }
      g.opts = all_opts(a.thorough ? 1 : 0); gs.push_back(g); }
    if (a.thorough) {
      Group g; g.bound = "ofat pairs: base object before / after each variant x level-1 option vectors";
      for (char t : {'n', 'w', 'r', 'c'}) { size_t n = variants(t).size(); for (size_t k = 0; k < n; ++k) for (int ord = 0; ord < 2; ++ord) g.names.push_back(std::string("two:") + t + ":" + std::to_string(k) + ":" + std::to_string(ord)); }
      g.opts = all_opts(1); gs.push_back(g); }
    if (a.thorough) {
      Group g; g.bound = "ofat triples: each variant between two objects of the other types x level-1 option vectors";
      for (char t : {'n', 'w', 'r'}) { size_t n = variants(t).size(); for (size_t k = 0; k < n; ++k) g.names.push_back(std::string("three:") + t + ":" + std::to_string(k)); }
      g.opts = all_opts(1); gs.push_back(g); }
    run_groups(a, gs);
}

// cap: the readers build every object in a buffer of EVERY initial capacity 64..640 (step 8; thorough ..1280): for some capacity each
// builder call of each decoder (user, tag, way node, member + role, changeset comment + text) is the one at which the buffer grows or a
// nested buffer is started. Needs the harness built with hook H8 (h01cap).
static void part_cap(const Args& a) {
#ifndef OSMIUM_VERIF_DYNAMIC_BUFFER_SIZE
    (void)a; benum::note("part cap needs the h01cap build (hook H8)"); benum::bound("reader buffer capacity sweep", false);
#else
    Group g; g.bound = std::string("reader buffer capacity sweep: every capacity 64..") + (a.thorough ? "1280" : "640") + " step 8 x one vector per format and PBF encoding x one-factor sequences of n/w/r/c and the mixed sequence";
    for (const char* t : {"n", "w", "r", "c"}) g.names.push_back(std::string("ofat:") + t + ":0");
    g.names.push_back("mixed:0");
    for (int cap = 64; cap <= (a.thorough ? 1280 : 640); cap += 8) for (const Opt& o : all_opts(0)) {
        if (o.pbf() && o.pcomp != 1) continue;          // blob compression does not reach the decoder's builders
        Opt x = o; x.cap = cap; g.opts.push_back(x);
        // PBF with an outer gzip/bzip2 compression reaches the parser through the input queue in pieces (61 bytes in this build,
        // hook H5): blob frames then start at every offset relative to a piece boundary (seeds C01e, C09e, C02d)
        if (o.pbf() && o.dense && cap % 64 == 0) { x.zip = 1 + (cap / 64) % 2; g.opts.push_back(x); }
    }
    run_groups(a, {g});
#endif
}

static void part_prod(const Args& a) {
    Group g; g.bound = std::string("reduced product: 2-3 values per field, all combinations, in sequences of ") + std::to_string(PROD_CHUNK) + " objects x " + (a.thorough ? "every option vector" : "level-1 option vectors");
    for (char t : {'n', 'w', 'r', 'c'}) { uint64_t chunks = (prod_total(t) + PROD_CHUNK - 1) / PROD_CHUNK; for (uint64_t c = 0; c < chunks; ++c) g.names.push_back(std::string("prod:") + t + ":" + std::to_string(c) + ":" + std::to_string(PROD_CHUNK)); }
    g.opts = all_opts(a.thorough ? 3 : 1);
    run_groups(a, {g});
}

static void part_blk(const Args& a) {
    std::vector<Group> gs;
    std::vector<Opt> opts;
    for (const Opt& o : all_opts(1)) { if (!a.thorough && (o.meta == 9 || (!o.pbf() && (o.low || o.fv || o.meta != 31)))) continue; opts.push_back(o); }
    // file compression / second pool size for the default vector of each format
    for (const Opt& o : all_opts(0)) for (int zip = 0; zip < 3; ++zip) for (int thr = 1; thr <= 2; ++thr) {
        if ((!zip && thr == 1) || (o.pbf() && (!o.dense || o.pcomp != 1)) || (!a.thorough && zip && thr == 2)) continue;
        Opt x = o; x.zip = zip; x.thr = thr; opts.push_back(x);
    }
    { Group g; g.bound = "block boundary: 7999/8000/8001 objects of one type";
      for (const char* t : {"n", "w", "r"}) for (const char* n : {"7999", "8000", "8001"}) g.names.push_back(std::string("blk:") + t + ":" + n);
      g.opts = opts; gs.push_back(g); }
    { Group g; g.bound = "type alternation: a new block with every type change";
      for (const char* pat : {"nwr", "nnwrr", "rwn", "wn"}) g.names.push_back(std::string("alt:") + pat + ":600");
      g.opts = opts; gs.push_back(g); }
    if (a.thorough) {
      Group g; g.bound = "block boundary: 16001 objects of one type, 24001 objects of three types";
      for (const char* t : {"n", "w", "r"}) g.names.push_back(std::string("blk:") + t + ":16001");
      g.names.push_back("alt:n:24001"); g.names.push_back("alt:nnnnnnnnnnwwwwwwwwwwrrrrrrrrrr:24001");
      g.opts = opts; gs.push_back(g); }
    run_groups(a, gs);
}

static void part_big(const Args& a) {
    std::vector<Group> gs;
    auto pbf_opts = [](bool all_comp) { std::vector<Opt> r; for (int fmt : {3, 4}) for (int dense : {1, 0}) for (int pcomp : {0, 2, 1}) { if (!all_comp && (pcomp == 1 || fmt == 4)) continue; Opt o; o.fmt = fmt; o.dense = dense; o.pcomp = pcomp; o.meta = 0; r.push_back(o); } return r; };
    { Group g; g.bound = "32 MiB: string-table-heavy blocks (N objects x 6 distinct 1024-byte strings)";
      g.names = {"big:strtab:n:5000", "big:strtab:n:8000"};
      if (a.thorough) for (const char* n : {"big:strtab:n:5300", "big:strtab:n:5600", "big:strtab:w:8000", "big:strtab:r:8000", "big:strtab:n:16001"}) g.names.push_back(n);
      g.opts = pbf_opts(a.thorough); gs.push_back(g); }
    { Group g; g.bound = "32 MiB: group-data-heavy blocks (ways of 2000 far-apart refs; data crosses 0.95 x 32 MiB and 32 MiB)";
      g.names = {"big:fill:1900:2000"};
      if (a.thorough) for (const char* n : {"big:fill:1700:2000", "big:fill:3800:2000", "big:fill:400:9000", "big:fill:7000:500"}) g.names.push_back(n);
      g.opts = pbf_opts(a.thorough); for (Opt& o : g.opts) o.dense = 1;
      std::vector<Opt> u; for (const Opt& o : g.opts) { bool dup = false; for (const Opt& x : u) if (opt_string(x) == opt_string(o)) dup = true; if (!dup) u.push_back(o); } g.opts = u;
      gs.push_back(g); }
    { Group g; g.bound = "32 MiB: one way larger than 5 % of 32 MiB added to a block filled to just under 95 %";
      g.names = {"big:oversize:250000"};
      if (a.thorough) { g.names.push_back("big:oversize:200000"); g.names.push_back("big:oversize:150000"); }
      Opt o; o.fmt = 3; o.pcomp = 0; o.meta = 0; g.opts = {o};
      if (a.thorough) { Opt z = o; z.pcomp = 1; g.opts.push_back(z); z.fmt = 4; z.pcomp = 2; g.opts.push_back(z); }
      gs.push_back(g); }
    run_groups(a, gs);
}

static void part_hdr(const Args& a) {
    std::vector<Group> gs;
    std::vector<Opt> opts;
    for (const Opt& o : all_opts(0)) { if (o.pbf() && !o.dense) continue; for (int zip = 0; zip < 3; ++zip) for (int thr = 1; thr <= 2; ++thr) { if (zip && thr == 2 && !a.thorough) continue; Opt x = o; x.zip = zip; x.thr = thr; opts.push_back(x); } }
    const size_t nb = header_boxes().size();
    { Group g; g.bound = "header: 0..2 bounding boxes over corner boundary coordinates, with 0 and 1 objects";
      for (size_t b = 0; b < nb; ++b) for (int n : {0, 1}) if (n == 0 || a.thorough || b % 8 == 0) g.names.push_back("hdr:" + std::to_string(b) + ":1:" + std::to_string(n));
      g.opts = opts; gs.push_back(g); }
    { Group g; g.bound = "header: generator strings";
      for (size_t s = 0; s < strings().size() + 2; ++s) g.names.push_back("hdr:1:" + std::to_string(s) + ":" + std::to_string(s % 4));
      g.opts = opts; gs.push_back(g); }
    run_groups(a, gs);
}

// ================================================================================================
// bbox: PBF header bounding box through the real header encoder (PBFOutputFormat::write_header, run by the pool)
// and the real header decoder (decode_header). Per call four coordinates are checked: box (x-180e7.., y-90e7..)-(x, y).
struct HeaderCodec {
    osmium::thread::Pool pool{1};
    osmium::io::detail::future_string_queue_type queue{4096, "c01"};
    std::unique_ptr<osmium::io::detail::OutputFormat> out;
    HeaderCodec() {
        osmium::io::File f{"x.pbf", "pbf,pbf_compression=none"};
        out = osmium::io::detail::OutputFormatFactory::instance().create_output(pool, f, queue);
    }
    void submit(const ABox& b) {
        osmium::io::Header h; h.add_box(osmium::Box{to_loc(b.bl), to_loc(b.tr)}); h.set("generator", "v");
        out->write_header(h);
    }
    bool fetch(ABox& got) {   // false: not decodable
        std::future<std::string> fut; queue.wait_and_pop(fut);
        std::string bytes = fut.get();
        Framing fr = pbf_framing(bytes);
        if (!fr.parsed) return false;
        osmium::io::Header h = osmium::io::detail::decode_header(fr.header_blob);
        if (h.boxes().size() != 1) return false;
        got.bl = from_loc(h.boxes()[0].bottom_left()); got.tr = from_loc(h.boxes()[0].top_right());
        return true;
    }
};

static void part_bbox(const Args& a) {
    // coordinate pairs: lon k -> (k - 1800000000, k) for k in [0, 1800000000]; lat j -> (j - 900000000, j), j = k / 2
    HeaderCodec hc;
    const uint64_t K = 1800000001ull;
    const double budget_s = a.thorough ? std::min(a.deadline_s, 660.0) : std::min(a.deadline_s, 8.0);
    auto t0 = std::chrono::steady_clock::now();
    auto spent = [&] { return std::chrono::duration<double>(std::chrono::steady_clock::now() - t0).count(); };
    uint64_t bad = 0, reported = 0;
    std::vector<ABox> cand;
    auto run_batch = [&](const std::vector<ABox>& batch) {
        for (const ABox& b : batch) hc.submit(b);
        for (const ABox& b : batch) {
            ABox g; bool ok = hc.fetch(g);
            ++C["evaluations"]; ++C["distinct_nontrivial"]; C["bbox_coordinates_checked"] += 4;
            if (!ok || g.bl != b.bl || g.tr != b.tr) { ++bad; if (cand.size() < 6) cand.push_back(b); }
        }
    };
    // successive refinement: stride 2^s with offsets so that coverage stays uniform whenever the budget ends
    std::vector<ABox> batch; batch.reserve(2048);
    int finest = -1; bool all = false;
    const int s_first = 20;
    for (int s = s_first; s >= 0 && !all; --s) {
        const uint64_t stride = 1ull << s, first = (s == s_first) ? 0 : stride;       // level s adds the odd multiples of 2^s
        const uint64_t step = (s == s_first) ? stride : stride * 2;
        bool done = true;
        uint64_t idx = 0;
        for (uint64_t k = first; k < K; k += step, ++idx) {
            if (idx % a.nshards != a.shard) continue;
            int32_t x2 = static_cast<int32_t>(k), x1 = static_cast<int32_t>(static_cast<int64_t>(k) - 1800000000), y2 = static_cast<int32_t>(k / 2), y1 = y2 - 900000000;
            batch.push_back(ABox{Loc{x1, y1}, Loc{x2, y2}});
            if (batch.size() == 2048) { run_batch(batch); batch.clear(); if (spent() > budget_s) { done = false; break; } }
        }
        if (!batch.empty()) { run_batch(batch); batch.clear(); }
        if (!done) break;
        finest = s; if (s == 0) all = true;
    }
    benum::bound("PBF header bbox through write_header()/decode_header(): strided sweep over all fixed-point longitudes of [-180,180] and latitudes of [-90,90], stride 2^s halved until the time share ends (MAX bbox_stride_log2_completed_by_every_shard = s reached)", finest >= 0);
    if (a.thorough) benum::bound("PBF header bbox: every valid fixed-point coordinate (stride 1)", all);
    benum::maxv("bbox_stride_log2_completed_by_every_shard", finest < 0 ? 99 : static_cast<uint64_t>(finest));
    C["bbox_boxes_not_reproduced"] += bad;
    // the verdict comes from full Writer -> file -> Reader cycles on the candidates
    make_dir();
    for (const ABox& b : cand) {
        if (reported >= 3) break;
        DataSet d = make_dataset("box:" + std::to_string(b.bl.x) + ":" + std::to_string(b.bl.y) + ":" + std::to_string(b.tr.x) + ":" + std::to_string(b.tr.y));
        Opt o; o.fmt = 3; o.pcomp = 0;
        evaluate(d, o); ++reported;
    }
    if (bad) benum::note("bbox sweep: " + std::to_string(bad) + " boxes of this shard did not come back identical from write_header()/decode_header()");
    benum::sample("bbox: box (-180.0000000,-90.0000000)-(0.0000000,0.0000000) ... (0.0000000,0.0000000)-(180.0000000,90.0000000) through PBFOutputFormat::write_header and decode_header");
}

// ================================================================================================
static void replay(const Args& a, const std::string& spec) {
    auto parts = split_str(spec, ';');
    if (parts.size() < 3) { fprintf(stderr, "bad spec\n"); return; }
    const std::string name = parts[0], sel = parts[1].substr(4), opt = parts[2].substr(4);
    const std::string after = parts.size() > 3 && parts[3].compare(0, 6, "after=") == 0 ? benum::unhex(parts[3].substr(6)) : "";
    const Opt o = opt_parse(opt);
    benum::Isolation iso; iso.case_timeout_s = 600.0;
    Args one = a; one.shard = 0; one.nshards = 1; one.deadline_s = 1e9;
    g_in_replay = true;
    benum::run_isolated(one, 0, 1,
        [&](uint64_t) {
            // The case is repeated a few times (a deterministic failure shows in the first round; one that depends on which pool
            // thread handles a block may need more). With earlier files in the spec the whole chain is repeated.
            const int attempts = after.empty() ? 6 : 25;
            std::set<std::string> seen;
            for (int k = 0; k < attempts; ++k) {
                if (!after.empty()) for (const auto& h : split_str(after, '|')) {      // the files this process had handled before
                    auto hp = split_str(h, ';'); if (hp.size() < 3) continue;
                    cycle(load_case(hp[0], hp[1].substr(4)), opt_parse(hp[2].substr(4)));
                }
                DataSet d = load_case(name, sel);
                Outcome r = cycle(d, o);
                if (r.outside_domain) break;
                if (r.kind == Outcome::ok) continue;
                const std::string key = outcome_key(d, o, r) + (after.empty() ? "" : AFTER);
                if (seen.insert(key).second) V.report(key, "options: " + opt_human(o) + " | data set " + name + " objects " + sel + " | " + r.detail, spec);
                if (after.empty()) break;
            }
        },
        [&](uint64_t, const std::string& what, const std::string& err) { on_child_death(name, o, what, err); }, iso);
}

int main(int argc, char** argv) {
    Args a = benum::parse_args(argc, argv);
    g_current = static_cast<char*>(mmap(nullptr, 8192, PROT_READ | PROT_WRITE, MAP_SHARED | MAP_ANONYMOUS, -1, 0));
    if (g_current == MAP_FAILED) g_current = nullptr;
    make_dir();
    if (a.replay) { replay(a, a.replay_spec); cleanup_dir(); return 0; }
    std::string part;
    for (size_t i = 0; i + 1 < a.rest.size(); i += 2) {
        if (a.rest[i] == "--part") part = a.rest[i + 1];
        if (a.rest[i] == "--budget") a.deadline_s = std::min(a.deadline_s, atof(a.rest[i + 1].c_str()));   // this part's share of the tier's time
    }
    if (part == "ofat") part_ofat(a);
    else if (part == "prod") part_prod(a);
    else if (part == "blk") part_blk(a);
    else if (part == "big") part_big(a);
    else if (part == "hdr") part_hdr(a);
    else if (part == "bbox") part_bbox(a);
    else if (part == "cap") part_cap(a);
    else { fprintf(stderr, "unknown part\n"); cleanup_dir(); return 2; }
    C.emit();
    cleanup_dir();
    return 0;
}
