// C01 - write-then-read round trip through osmium::io::Writer / osmium::io::Reader.
//
// One evaluation = one (data set, option vector) pair: the abstract data set is built with the
// builders, handed to a Writer configured with the option vector, the produced file is checked by an
// independent PBF framing parser (no libosmium code), read back with a Reader and compared field by
// field with carry(D, options) - the reference statement of which fields each format / option vector
// carries (everything else is expected at its default).
//
// Parts (--part): cycles (families of data sets x option vectors), bbox (PBF header bounding box
// conversion sweep), big (32 MiB families).
#include <benum/benum.hpp>

#include "model.hpp"

#include <osmium/io/any_compression.hpp>
#include <osmium/io/opl_input.hpp>
#include <osmium/io/opl_output.hpp>
#include <osmium/io/pbf_input.hpp>
#include <osmium/io/pbf_output.hpp>
#include <osmium/io/xml_input.hpp>
#include <osmium/io/xml_output.hpp>
#include <osmium/io/reader.hpp>
#include <osmium/io/writer.hpp>
#include <osmium/thread/pool.hpp>
#include <osmium/version.hpp>

#include <lz4.h>
#include <zlib.h>

#include <algorithm>
#include <dirent.h>
#include <memory>
#include <sys/stat.h>

using namespace c01;
using benum::Args;

static benum::Counters C;
static benum::Violations V;

// ================================================================================================
// option vectors
struct Opt {
    int fmt = 0;     // 0 osm  1 osh  2 osc  3 pbf  4 osh.pbf  5 opl
    int dense = 1;   // pbf_dense_nodes (PBF only)
    int pcomp = 1;   // pbf_compression 0 none 1 zlib 2 lz4 (PBF only)
    int meta = 31;   // add_metadata subset: 1 version, 2 timestamp, 4 changeset, 8 uid, 16 user
    int low = 0;     // locations_on_ways
    int fv = 0;      // force_visible_flag (XML only)
    int zip = 0;     // file compression 0 none 1 gz 2 bz2
    int thr = 1;     // threads of the pool handed to Writer and Reader
    bool xml() const { return fmt <= 2; }
    bool pbf() const { return fmt == 3 || fmt == 4; }
    bool opl() const { return fmt == 5; }
    bool history() const { return fmt == 1 || fmt == 2 || fmt == 4; }
};

static const char* const FMT[] = {"osm", "osh", "osc", "pbf", "osh.pbf", "opl"};
static const char* const PCOMP[] = {"none", "zlib", "lz4"};
static const char* const ZIP[] = {"", ".gz", ".bz2"};

static std::string meta_string(int m) {
    if (m == 31) return "all";
    if (m == 0) return "none";
    std::string s;
    static const char* const n[] = {"version", "timestamp", "changeset", "uid", "user"};
    for (int i = 0; i < 5; ++i) if (m & (1 << i)) { if (!s.empty()) s += "+"; s += n[i]; }
    return s;
}

static std::string opt_string(const Opt& o) {   // also the replay form
    char b[96];
    snprintf(b, sizeof b, "f%d,d%d,p%d,m%d,l%d,v%d,z%d,t%d", o.fmt, o.dense, o.pcomp, o.meta, o.low, o.fv, o.zip, o.thr);
    return b;
}
static Opt opt_parse(const std::string& s) {
    Opt o;
    sscanf(s.c_str(), "f%d,d%d,p%d,m%d,l%d,v%d,z%d,t%d", &o.fmt, &o.dense, &o.pcomp, &o.meta, &o.low, &o.fv, &o.zip, &o.thr);
    return o;
}
static std::string opt_human(const Opt& o) {
    std::string s = std::string(FMT[o.fmt]) + ZIP[o.zip];
    if (o.pbf()) s += std::string(",pbf_dense_nodes=") + (o.dense ? "true" : "false") + ",pbf_compression=" + PCOMP[o.pcomp];
    s += ",add_metadata=" + meta_string(o.meta) + ",locations_on_ways=" + (o.low ? "true" : "false");
    if (o.xml()) s += std::string(",force_visible_flag=") + (o.fv ? "true" : "false");
    s += ",pool_threads=" + std::to_string(o.thr);
    return s;
}

// every option vector; options a format does not read are held at their default.
// level: 2 = every vector; 1 = metadata subsets {all, none, one 2-field subset} only; 0 = one vector per format/encoding
static std::vector<Opt> all_opts(int level) {
    std::vector<Opt> r;
    std::vector<int> metas;
    if (level >= 2) for (int m = 0; m < 32; ++m) metas.push_back(m);
    else if (level == 1) metas = {31, 0, 9};
    else metas = {31};
    for (int fmt = 0; fmt < 6; ++fmt) {
        Opt b; b.fmt = fmt;
        for (int dense = 0; dense < 2; ++dense) for (int pcomp = 0; pcomp < 3; ++pcomp) {
            if (!b.pbf() && (dense != 1 || pcomp != 1)) continue;
            for (int m : metas) for (int low = 0; low < 2; ++low) for (int fv = 0; fv < 2; ++fv) {
                if (!b.xml() && fv) continue;
                for (int zip = 0; zip < 3; ++zip) for (int thr = 1; thr <= 2; ++thr) {
                    if (level == 0 && (low || fv || zip || thr == 2)) continue;
                    Opt o = b; o.dense = dense; o.pcomp = pcomp; o.meta = m; o.low = low; o.fv = fv; o.zip = zip; o.thr = thr;
                    r.push_back(o);
                }
            }
        }
    }
    return r;
}

// format area of a class key: the encoder/decoder pair involved
static std::string area(const Opt& o, char type = 0) {
    if (o.fmt == 2) return "xml-change";
    if (o.xml()) return "xml";
    if (o.opl()) return "opl";
    if (type == 'n') return o.dense ? "pbf-dense" : "pbf-plain";
    return "pbf";
}

// ================================================================================================
// carry(D, o): what must come back. Returns the expected sequence and header; fields a vector does not
// carry are expected at their defaults; entities a format cannot express are not expected.
struct Expect {
    std::vector<AObj> objs;
    AHeader header;
    bool nontrivial = false;     // at least one non-default field value is carried
};

static bool carries_visible(const Opt& o) {
    if (o.fmt == 0) return o.fv != 0;          // plain .osm: only with force_visible_flag
    if (o.fmt == 1 || o.fmt == 2) return true; // .osh: visible attribute; .osc: <delete> sections
    if (o.fmt == 3) return false;
    if (o.fmt == 4) return true;
    return o.meta != 0;                        // OPL writes the dV/dD field together with any metadata
}

static Expect carry(const DataSet& d, const Opt& o) {
    Expect e;
    for (const AObj& in : d.objs) {
        if (in.type == 'c' && o.pbf()) continue;   // PBF has no changesets (domain: changesets only for XML and OPL)
        AObj x = in;
        if (in.type != 'c') {
            if (!(o.meta & 1)) x.version = 0;
            if (!(o.meta & 2)) x.ts = 0;
            if (!(o.meta & 4)) x.changeset = 0;
            if (!(o.meta & 8)) x.uid = 0;
            if (!(o.meta & 16)) x.user.clear();
            if (!carries_visible(o)) x.visible = true;
            if (in.type == 'w' && !o.low) for (auto& r : x.refs) r.loc = Loc{};
        } else {
            if (o.opl()) x.comments.clear();       // discussions only in XML
        }
        if (x.version || x.ts || x.changeset || x.uid || !x.user.empty() || !x.visible || !x.tags.empty() || !x.loc.undefined() || !x.refs.empty() ||
            !x.members.empty() || x.id != 0 || x.num_changes || x.created || x.closed || x.num_comments || !x.comments.empty() || !x.bl.undefined()) e.nontrivial = true;
        e.objs.push_back(x);
    }
    if (o.xml()) {
        e.header = d.header;
        if (e.header.generator.empty()) e.header.generator = "libosmium/" LIBOSMIUM_VERSION_STRING;
    } else if (o.pbf()) {
        e.header.generator = d.header.generator.empty() ? std::string("libosmium/" LIBOSMIUM_VERSION_STRING) : d.header.generator;
        if (!d.header.boxes.empty()) {             // PBF has one bounding box: the union
            ABox j = d.header.boxes[0];
            for (const ABox& b : d.header.boxes) {
                j.bl.x = std::min(j.bl.x, b.bl.x); j.bl.y = std::min(j.bl.y, b.bl.y);
                j.tr.x = std::max(j.tr.x, b.tr.x); j.tr.y = std::max(j.tr.y, b.tr.y);
            }
            e.header.boxes.push_back(j);
        }
    }                                              // OPL has no header
    return e;
}

// ================================================================================================
// independent PBF framing parser (protobuf wire format by hand, zlib / lz4 directly)
struct PB {
    const unsigned char* p; const unsigned char* e; bool ok = true;
    PB(const void* d, size_t n) : p(static_cast<const unsigned char*>(d)), e(p + n) {}
    bool more() const { return ok && p < e; }
    uint64_t varint() { uint64_t v = 0; int s = 0; while (p < e && s < 70) { unsigned char c = *p++; v |= static_cast<uint64_t>(c & 0x7f) << s; if (!(c & 0x80)) return v; s += 7; } ok = false; return 0; }
    // next field: returns field number, sets wire type; for length-delimited sets [b, b+n)
    int next(int& wt, const unsigned char*& b, size_t& n, uint64_t& val) {
        uint64_t k = varint(); if (!ok) return -1;
        wt = static_cast<int>(k & 7); int f = static_cast<int>(k >> 3);
        if (wt == 0) val = varint();
        else if (wt == 2) { uint64_t l = varint(); if (!ok || l > static_cast<uint64_t>(e - p)) { ok = false; return -1; } b = p; n = l; p += l; }
        else if (wt == 1) { if (e - p < 8) { ok = false; return -1; } p += 8; }
        else if (wt == 5) { if (e - p < 4) { ok = false; return -1; } p += 4; }
        else { ok = false; return -1; }
        return f;
    }
};

struct Framing {
    bool parsed = true; std::string problem;   // parse problem of the framing itself
    uint64_t blobs = 0, max_header = 0, max_raw = 0, max_entities = 0, entities = 0;
    std::string limit;                          // first format limit that is exceeded ("" = none)
};

static Framing pbf_framing(const std::string& file) {
    Framing f;
    size_t pos = 0;
    std::string raw;
    while (pos < file.size()) {
        if (file.size() - pos < 4) { f.parsed = false; f.problem = "truncated length prefix"; return f; }
        uint32_t hl = (static_cast<unsigned char>(file[pos]) << 24) | (static_cast<unsigned char>(file[pos + 1]) << 16) | (static_cast<unsigned char>(file[pos + 2]) << 8) | static_cast<unsigned char>(file[pos + 3]);
        pos += 4;
        f.max_header = std::max<uint64_t>(f.max_header, hl);
        if (hl > 64 * 1024 && f.limit.empty()) f.limit = "blob-header-exceeds-64KiB";
        if (hl > file.size() - pos) { f.parsed = false; f.problem = "blob header beyond end of file"; return f; }
        PB h(file.data() + pos, hl); pos += hl;
        std::string type; int64_t datasize = -1;
        while (h.more()) { int wt; const unsigned char* b = nullptr; size_t n = 0; uint64_t v = 0; int fn = h.next(wt, b, n, v); if (fn == 1 && wt == 2) type.assign(reinterpret_cast<const char*>(b), n); if (fn == 3 && wt == 0) datasize = static_cast<int32_t>(v); }
        if (!h.ok || datasize < 0) { f.parsed = false; f.problem = "malformed BlobHeader"; return f; }
        if (static_cast<uint64_t>(datasize) > file.size() - pos) { f.parsed = false; f.problem = "blob beyond end of file (datasize " + std::to_string(datasize) + ")"; return f; }
        if ((f.blobs == 0) != (type == "OSMHeader") || (f.blobs > 0 && type != "OSMData")) { f.parsed = false; f.problem = "unexpected blob type '" + type + "' at blob " + std::to_string(f.blobs); return f; }
        PB bl(file.data() + pos, static_cast<size_t>(datasize)); pos += static_cast<size_t>(datasize);
        const unsigned char* data = nullptr; size_t dn = 0; int comp = -1; int64_t raw_size = -1;
        while (bl.more()) { int wt; const unsigned char* b = nullptr; size_t n = 0; uint64_t v = 0; int fn = bl.next(wt, b, n, v);
            if (fn == 1 && wt == 2) { data = b; dn = n; comp = 0; } if (fn == 2 && wt == 0) raw_size = static_cast<int32_t>(v);
            if (fn == 3 && wt == 2) { data = b; dn = n; comp = 1; } if (fn == 6 && wt == 2) { data = b; dn = n; comp = 2; } }
        if (!bl.ok || comp < 0) { f.parsed = false; f.problem = "malformed Blob"; return f; }
        uint64_t rs = comp == 0 ? dn : static_cast<uint64_t>(raw_size < 0 ? 0 : raw_size);
        if (comp != 0 && raw_size < 0) {   // a negative raw_size is what an int32 overflow of a > 2 GiB block would give; not reachable here
            f.parsed = false; f.problem = "compressed blob without usable raw_size"; return f;
        }
        f.max_raw = std::max(f.max_raw, rs);
        if (rs > 32ull * 1024 * 1024) { if (f.limit.empty()) f.limit = "blob-exceeds-32MiB"; ++f.blobs; continue; }
        const unsigned char* pd = data; size_t pn = dn;
        if (comp == 1) { raw.resize(rs); uLongf dl = static_cast<uLongf>(rs); if (uncompress(reinterpret_cast<Bytef*>(&raw[0]), &dl, data, static_cast<uLong>(dn)) != Z_OK || dl != rs) { f.parsed = false; f.problem = "zlib blob does not inflate to raw_size"; return f; } pd = reinterpret_cast<const unsigned char*>(raw.data()); pn = rs; }
        if (comp == 2) { raw.resize(rs); int r = LZ4_decompress_safe(reinterpret_cast<const char*>(data), &raw[0], static_cast<int>(dn), static_cast<int>(rs)); if (r < 0 || static_cast<uint64_t>(r) != rs) { f.parsed = false; f.problem = "lz4 blob does not decompress to raw_size"; return f; } pd = reinterpret_cast<const unsigned char*>(raw.data()); pn = rs; }
        if (f.blobs > 0) {   // PrimitiveBlock: count the entities of all groups
            uint64_t ents = 0;
            PB blk(pd, pn);
            while (blk.more()) { int wt; const unsigned char* b = nullptr; size_t n = 0; uint64_t v = 0; int fn = blk.next(wt, b, n, v);
                if (fn == 2 && wt == 2) { PB g(b, n);
                    while (g.more()) { int wt2; const unsigned char* b2 = nullptr; size_t n2 = 0; uint64_t v2 = 0; int f2 = g.next(wt2, b2, n2, v2);
                        if (wt2 == 2 && (f2 == 1 || f2 == 3 || f2 == 4 || f2 == 5)) ++ents;
                        if (wt2 == 2 && f2 == 2) { PB dn2(b2, n2); while (dn2.more()) { int wt3; const unsigned char* b3 = nullptr; size_t n3 = 0; uint64_t v3 = 0; int f3 = dn2.next(wt3, b3, n3, v3);
                            if (f3 == 1 && wt3 == 2) for (size_t i = 0; i < n3; ++i) if (!(b3[i] & 0x80)) ++ents; } if (!dn2.ok) blk.ok = false; } }
                    if (!g.ok) blk.ok = false; } }
            if (!blk.ok) { f.parsed = false; f.problem = "malformed PrimitiveBlock"; return f; }
            f.entities += ents; f.max_entities = std::max(f.max_entities, ents);
            if (ents > 8000 && f.limit.empty()) f.limit = "block-exceeds-8000-entities";
        }
        ++f.blobs;
    }
    if (f.blobs == 0) { f.parsed = false; f.problem = "no blobs"; }
    return f;
}

// ================================================================================================
// one write/read cycle
static std::string g_dir;
static osmium::thread::Pool* g_pool[3] = {nullptr, nullptr, nullptr};

static void ensure_env() {
    if (g_dir.empty()) {
        char b[96]; snprintf(b, sizeof b, "/dev/shm/verif-c01-%d", static_cast<int>(getpid()));
        g_dir = b; mkdir(g_dir.c_str(), 0700);
    }
    for (int t = 1; t <= 2; ++t) if (!g_pool[t]) g_pool[t] = new osmium::thread::Pool{t};
}
static void cleanup_env() {
    if (g_dir.empty()) return;
    if (DIR* d = opendir(g_dir.c_str())) { while (dirent* e = readdir(d)) { if (e->d_name[0] != '.') unlink((g_dir + "/" + e->d_name).c_str()); } closedir(d); }
    rmdir(g_dir.c_str());
}

static std::string norm_msg(std::string m) {   // exception text as a key fragment: digits and quoted payloads collapsed
    std::string r; bool lastn = false;
    for (char c : m) {
        if (isdigit(static_cast<unsigned char>(c))) { if (!lastn) r += 'N'; lastn = true; continue; }
        lastn = false;
        if (c == '\'' || c == '"') break;   // payload follows
        r += (c == ' ' || c == '/' ) ? '_' : c;
        if (r.size() > 60) break;
    }
    while (!r.empty() && (r.back() == '_' || r.back() == ':' || r.back() == '(')) r.pop_back();
    return r;
}

struct Outcome {
    enum Kind { ok, writer_threw, framing_bad, limit_exceeded, reader_threw, mismatch, count_mismatch, header_mismatch } kind = ok;
    std::string key_what, key_cls, detail;   // fragments of the class key
    size_t obj_index = 0; char obj_type = 0;
    bool used_open = false;
    uint64_t file_size = 0;
    Framing fr;
};

static bool g_keep_file = false;

static Outcome cycle(const DataSet& d, const Opt& o) {
    ensure_env();
    Outcome out;
    const std::string path = g_dir + "/f." + FMT[o.fmt] + ZIP[o.zip];
    // ---- write
    try {
        osmium::io::File file{path};
        if (o.pbf()) { file.set("pbf_dense_nodes", o.dense != 0); file.set("pbf_compression", PCOMP[o.pcomp]); }
        file.set("add_metadata", meta_string(o.meta));
        file.set("locations_on_ways", o.low != 0);
        if (o.xml()) file.set("force_visible_flag", o.fv != 0);
        osmium::io::Header header;
        for (const ABox& b : d.header.boxes) header.add_box(osmium::Box{to_loc(b.bl), to_loc(b.tr)});
        if (!d.header.generator.empty()) header.set("generator", d.header.generator);
        osmium::io::Writer writer{file, header, osmium::io::overwrite::allow, *g_pool[o.thr]};
        size_t i = 0, si = 0;
        while (i < d.objs.size()) {
            size_t end = d.objs.size();
            while (si < d.split.size() && d.split[si] <= i) ++si;
            if (si < d.split.size()) end = d.split[si];
            size_t cap = 4096; for (size_t k = i; k < end; ++k) cap += size_estimate(d.objs[k]);
            osmium::memory::Buffer buf{(cap + 7) & ~size_t(7), osmium::memory::Buffer::auto_grow::no};
            for (size_t k = i; k < end; ++k) build_object(buf, d.objs[k]);
            writer(std::move(buf));
            i = end;
        }
        out.file_size = writer.close();
    } catch (const std::exception& e) {
        out.kind = Outcome::writer_threw; out.key_what = norm_msg(e.what()); out.detail = std::string("Writer threw: ") + e.what();
        unlink(path.c_str());
        return out;
    }
    // ---- independent framing check (uncompressed PBF files)
    if (o.pbf() && o.zip == 0) {
        std::string bytes = benum::slurp(path, 1ull << 32);
        out.fr = pbf_framing(bytes);
        ++C["pbf_files_framing_checked"];
        C["pbf_blobs_checked"] += out.fr.blobs;
    }
    // ---- read
    Expect e = carry(d, o);
    std::vector<AObj> got; AHeader gh;
    bool reader_failed = false; std::string rmsg;
    try {
        osmium::io::Reader reader{osmium::io::File{path}, osmium::osm_entity_bits::all, *g_pool[o.thr]};
        osmium::io::Header h = reader.header();
        gh.generator = h.get("generator");
        for (const auto& b : h.boxes()) gh.boxes.push_back(ABox{from_loc(b.bottom_left()), from_loc(b.top_right())});
        while (osmium::memory::Buffer buf = reader.read()) {
            for (const auto& ent : buf.select<osmium::OSMEntity>()) { AObj x; if (extract(ent, x)) got.push_back(std::move(x)); }
        }
        reader.close();
    } catch (const std::exception& ex) { reader_failed = true; rmsg = ex.what(); }
    if (!g_keep_file) unlink(path.c_str());
    // ---- verdict
    if (o.pbf() && o.zip == 0) {
        if (!out.fr.parsed) { out.kind = Outcome::framing_bad; out.key_what = norm_msg(out.fr.problem); out.detail = "independent framing parser: " + out.fr.problem + (reader_failed ? "; Reader: " + rmsg : ""); return out; }
        if (!out.fr.limit.empty()) {
            out.kind = Outcome::limit_exceeded; out.key_what = out.fr.limit;
            out.detail = "Writer closed without error (" + std::to_string(out.file_size) + " bytes) but the file breaks a PBF format limit: largest blob header " + std::to_string(out.fr.max_header) +
                         " bytes, largest uncompressed blob " + std::to_string(out.fr.max_raw) + " bytes, most entities in a block " + std::to_string(out.fr.max_entities) +
                         (reader_failed ? "; Reader rejects the file: " + rmsg : "; Reader accepts the file");
            return out;
        }
    }
    if (reader_failed) { out.kind = Outcome::reader_threw; out.key_what = norm_msg(rmsg); out.detail = "Writer closed without error (" + std::to_string(out.file_size) + " bytes), Reader threw: " + rmsg; return out; }
    size_t n = std::min(e.objs.size(), got.size());
    for (size_t i = 0; i < n; ++i) {
        Diff df = compare(e.objs[i], got[i], o.pbf(), &out.used_open);
        if (df.differs) {
            out.kind = Outcome::mismatch; out.obj_index = i; out.obj_type = e.objs[i].type;
            out.key_what = df.field + "/" + df.how; out.key_cls = df.cls;
            out.detail = "object #" + std::to_string(i) + " [" + e.objs[i].label + "] field " + df.field + ": " + df.detail + " | written " + show(e.objs[i]) + " | read " + show(got[i]);
            return out;
        }
    }
    if (e.objs.size() != got.size()) {
        out.kind = Outcome::count_mismatch; out.key_what = got.size() < e.objs.size() ? "objects-missing" : "extra-objects";
        out.detail = "expected " + std::to_string(e.objs.size()) + " objects, read " + std::to_string(got.size());
        return out;
    }
    // header
    if (e.header.generator != gh.generator) { out.kind = Outcome::header_mismatch; out.key_what = "generator/" + std::string(gh.generator.empty() ? "lost" : "changed"); out.key_cls = str_class(e.header.generator); out.detail = "header generator: expected " + show_str(e.header.generator) + " got " + show_str(gh.generator); return out; }
    if (e.header.boxes.size() != gh.boxes.size()) { out.kind = Outcome::header_mismatch; out.key_what = "boxes/count"; out.key_cls = "n=" + std::to_string(e.header.boxes.size()); out.detail = "header boxes: expected " + std::to_string(e.header.boxes.size()) + " got " + std::to_string(gh.boxes.size()); return out; }
    for (size_t i = 0; i < gh.boxes.size(); ++i) {
        const ABox& a = e.header.boxes[i]; const ABox& b = gh.boxes[i];
        if (a.bl != b.bl || a.tr != b.tr) {
            out.kind = Outcome::header_mismatch;
            // classify: every differing coordinate is exactly one unit closer to zero (double truncation) | anything else
            bool trunc1 = true;
            const int32_t ev[4] = {a.bl.x, a.bl.y, a.tr.x, a.tr.y}, gv[4] = {b.bl.x, b.bl.y, b.tr.x, b.tr.y};
            for (int k = 0; k < 4; ++k) if (ev[k] != gv[k]) { int64_t dlt = static_cast<int64_t>(gv[k]) - ev[k]; if (!((ev[k] > 0 && dlt == -1) || (ev[k] < 0 && dlt == 1))) trunc1 = false; }
            out.key_what = trunc1 ? "box-corner/one-unit-towards-zero" : "box-corner/changed"; out.key_cls = "valid";
            out.detail = "header box #" + std::to_string(i) + ": expected " + show(a.bl) + show(a.tr) + " got " + show(b.bl) + show(b.tr);
            return out;
        }
    }
    return out;
}
