// C01 - abstract OSM data model of the round-trip check (independent of libosmium's item layout):
// plain structs for nodes, ways, relations, changesets (with discussions) and the file header, a
// builder that turns them into a libosmium buffer, an extractor that turns what the Reader delivers
// back into the abstract form, value classes for class keys and a field-by-field comparison.
#ifndef VERIF_C01_MODEL_HPP
#define VERIF_C01_MODEL_HPP

#include <osmium/builder/osm_object_builder.hpp>
#include <osmium/memory/buffer.hpp>
#include <osmium/osm.hpp>
#include <osmium/osm/changeset.hpp>

#include <climits>
#include <cstdint>
#include <cstdio>
#include <string>
#include <vector>

namespace c01 {

constexpr int32_t UNDEF = 2147483647;   // osmium::Location::undefined_coordinate

struct Loc {
    int32_t x = UNDEF, y = UNDEF;
    bool undefined() const { return x == UNDEF && y == UNDEF; }
    bool half() const { return (x == UNDEF) != (y == UNDEF); }
    bool valid() const { return x >= -1800000000 && x <= 1800000000 && y >= -900000000 && y <= 900000000; }
    bool operator==(const Loc& o) const { return x == o.x && y == o.y; }
    bool operator!=(const Loc& o) const { return !(*this == o); }
};

struct ATag { std::string k, v; };
struct ANodeRef { int64_t ref = 0; Loc loc; };
struct AMember { char type = 'n'; int64_t ref = 0; std::string role; };
struct AComment { uint32_t date = 0, uid = 0; std::string user, text; };

struct AObj {
    char type = 'n';                    // n w r c
    int64_t id = 0;                     // changesets: uint32 range
    uint32_t version = 0, changeset = 0, uid = 0, ts = 0;
    bool visible = true;
    std::string user;
    std::vector<ATag> tags;
    Loc loc;                            // node
    std::vector<ANodeRef> refs;         // way
    std::vector<AMember> members;       // relation
    uint32_t created = 0, closed = 0, num_changes = 0, num_comments = 0;   // changeset
    Loc bl, tr;                         // changeset bounds
    std::vector<AComment> comments;     // changeset discussion
    std::string label;                  // which factor(s) differ from the base object (enumeration bookkeeping only)
};

struct ABox { Loc bl, tr; };
struct AHeader { std::vector<ABox> boxes; std::string generator; };

struct DataSet {
    std::vector<AObj> objs;
    AHeader header;
    int feed = 0;                       // how the objects are handed to the Writer: 0 one buffer, 1 item by item (Writer's own
                                        // 64 KiB buffer, flushed when full), 2 one buffer per object, 3 buffers of three objects
    std::string name;                   // generator name: make_dataset(name) rebuilds exactly this data set (replay)
    std::string keyhint;                // family tag used in class keys of whole-file findings (block families)
    std::string sel = "all";            // which objects of the generated data set are kept (replay form)
};

// ------------------------------------------------------------------------------------------------
// text forms (samples, details)
inline std::string show_str(const std::string& s) {
    std::string r = "'";
    if (s.size() > 40) {
        r += s.substr(0, 16) + "..(" + std::to_string(s.size()) + " bytes).." + s.substr(s.size() - 8);
    } else r += s;
    return r + "'";
}
inline std::string show(const Loc& l) {
    if (l.undefined()) return "undef";
    return "(" + std::to_string(l.x) + "," + std::to_string(l.y) + ")";
}
inline std::string show(const AObj& o) {
    std::string s;
    s += o.type; s += std::to_string(o.id);
    if (o.type != 'c') {
        s += " v" + std::to_string(o.version) + (o.visible ? " V" : " D") + " c" + std::to_string(o.changeset) + " t" + std::to_string(o.ts) +
             " i" + std::to_string(o.uid) + " u" + show_str(o.user);
    } else {
        s += " k" + std::to_string(o.num_changes) + " s" + std::to_string(o.created) + " e" + std::to_string(o.closed) + " d" + std::to_string(o.num_comments) +
             " i" + std::to_string(o.uid) + " u" + show_str(o.user) + " box" + show(o.bl) + show(o.tr);
    }
    s += " T[";
    for (size_t i = 0; i < o.tags.size() && i < 4; ++i) s += (i ? "," : "") + show_str(o.tags[i].k) + "=" + show_str(o.tags[i].v);
    if (o.tags.size() > 4) s += ",..." + std::to_string(o.tags.size());
    s += "]";
    if (o.type == 'n') s += " loc" + show(o.loc);
    if (o.type == 'w') { s += " N["; for (size_t i = 0; i < o.refs.size() && i < 4; ++i) s += (i ? "," : "") + std::to_string(o.refs[i].ref) + show(o.refs[i].loc); if (o.refs.size() > 4) s += ",..." + std::to_string(o.refs.size()); s += "]"; }
    if (o.type == 'r') { s += " M["; for (size_t i = 0; i < o.members.size() && i < 4; ++i) { s += (i ? "," : ""); s += o.members[i].type; s += std::to_string(o.members[i].ref) + "@" + show_str(o.members[i].role); } if (o.members.size() > 4) s += ",..." + std::to_string(o.members.size()); s += "]"; }
    if (o.type == 'c') { s += " D["; for (size_t i = 0; i < o.comments.size() && i < 3; ++i) s += (i ? "," : "") + std::to_string(o.comments[i].date) + "/" + std::to_string(o.comments[i].uid) + "/" + show_str(o.comments[i].user) + ":" + show_str(o.comments[i].text); s += "]"; }
    return s;
}

// ------------------------------------------------------------------------------------------------
// value classes (input classes of class keys)
inline std::string int_class(int64_t v, int64_t type_max) {
    if (v == 0) return "0";
    if (v == type_max) return "type-max";
    if (v == type_max - 1) return "type-max-1";
    uint64_t m = v < 0 ? 0 - static_cast<uint64_t>(v) : static_cast<uint64_t>(v);
    int bits = 0; while (m) { ++bits; m >>= 1; }
    const char* b = bits <= 31 ? "1..31" : bits == 32 ? "32" : bits <= 62 ? "33..62" : "63..64";
    return std::string(v < 0 ? "negative," : "") + "bits=" + b;
}
inline std::string loc_class(const Loc& l) {
    if (l.undefined()) return "undefined";
    if (l.half()) return "one-coordinate-is-INT32_MAX";
    if (l.valid()) return "valid";
    return "outside-valid-range";
}
// features of a string that matter to some encoder, joined with '+'; structural characters are named individually so
// that e.g. a lost apostrophe and a lost ampersand are different classes
inline std::string str_class(const std::string& s) {
    if (s.empty()) return "empty";
    std::string r;
    auto add = [&r](const std::string& f) { if (("+" + r + "+").find("+" + f + "+") == std::string::npos) { if (!r.empty()) r += "+"; r += f; } };
    bool plain = false, other = false;
    for (size_t i = 0; i < s.size(); ++i) {
        unsigned char c = static_cast<unsigned char>(s[i]);
        switch (c) {
            case '&': add("amp"); other = true; break;
            case '<': add("lt"); other = true; break;
            case '>': add("gt"); other = true; break;
            case '"': add("quot"); other = true; break;
            case '\'': add("apos"); other = true; break;
            case ' ': add("space"); other = true; break;
            case ',': add("comma"); other = true; break;
            case '=': add("equals"); other = true; break;
            case '@': add("at"); other = true; break;
            case '%': add("percent"); other = true; break;
            case '\t': add("tab"); other = true; break;
            case '\n': add("lf"); other = true; break;
            case '\r': add("cr"); other = true; break;
            case 0x7f: add("del"); other = true; break;
            default:
                if (c < 0x20) { add("c0-control"); other = true; }
                else if (c < 0x80) plain = true;
                else if (c >= 0xf0) { add("utf8-4byte"); other = true; }
                else if (c >= 0xe0) { add(c == 0xef && i + 2 < s.size() && static_cast<unsigned char>(s[i + 1]) == 0xbf && static_cast<unsigned char>(s[i + 2]) >= 0xbe ? "noncharacter-U+FFFE/F" : "utf8-3byte"); other = true; }
                else if (c >= 0xc0) { add("utf8-2byte"); other = true; }
        }
    }
    if (plain && !other) add("ascii");
    if (s.size() >= 1024) add("len=1024");
    else if (s.size() > 255) add("len>255");
    return r;
}

// ------------------------------------------------------------------------------------------------
// comparison: first difference between what is expected and what came back, as (field, how, value class)
struct Diff { bool differs = false; std::string field, how, cls, detail; };

inline Diff mk(const std::string& field, const std::string& how, const std::string& cls, const std::string& exp, const std::string& got) {
    Diff d; d.differs = true; d.field = field; d.how = how; d.cls = cls; d.detail = "expected " + exp + " got " + got; return d;
}
inline Diff cmp_u32(const char* f, uint32_t e, uint32_t g, int64_t tmax = 4294967295LL) {
    if (e == g) return Diff{};
    return mk(f, g == 0 ? "lost" : "changed", int_class(e, tmax), std::to_string(e), std::to_string(g));
}
inline Diff cmp_str(const std::string& f, const std::string& e, const std::string& g) {
    if (e == g) return Diff{};
    return mk(f, g.empty() ? "lost" : "changed", str_class(e), show_str(e), show_str(g));
}
inline Diff cmp_loc(const std::string& f, const Loc& e, const Loc& g) {
    if (e == g) return Diff{};
    return mk(f, g.undefined() ? "lost" : "changed", loc_class(e), show(e), show(g));
}

// 'open_invisible_loc': a node that is expected to come back deleted may come back with an undefined location
inline Diff compare(const AObj& e, const AObj& g, bool open_invisible_loc, bool* used_open) {
    std::string t(1, e.type);
    if (e.type != g.type) return mk("type", "changed", t, t, std::string(1, g.type));
    if (e.id != g.id) return mk(t + ".id", "changed", int_class(e.id, e.type == 'c' ? 4294967295LL : INT64_MAX), std::to_string(e.id), std::to_string(g.id));
    Diff d;
    if (e.type != 'c') {
        if ((d = cmp_u32((t + ".version").c_str(), e.version, g.version)).differs) return d;
        if (e.visible != g.visible) return mk(t + ".visible", "changed", e.visible ? "visible" : "deleted", e.visible ? "visible" : "deleted", g.visible ? "visible" : "deleted");
        if ((d = cmp_u32((t + ".changeset").c_str(), e.changeset, g.changeset)).differs) return d;
        if ((d = cmp_u32((t + ".timestamp").c_str(), e.ts, g.ts)).differs) return d;
    } else {
        if ((d = cmp_u32("c.num_changes", e.num_changes, g.num_changes)).differs) return d;
        if ((d = cmp_u32("c.created_at", e.created, g.created)).differs) return d;
        if ((d = cmp_u32("c.closed_at", e.closed, g.closed)).differs) return d;
        if ((d = cmp_u32("c.num_comments", e.num_comments, g.num_comments)).differs) return d;
        if ((d = cmp_loc("c.bounds.bottom_left", e.bl, g.bl)).differs) return d;
        if ((d = cmp_loc("c.bounds.top_right", e.tr, g.tr)).differs) return d;
    }
    if ((d = cmp_u32((t + ".uid").c_str(), e.uid, g.uid)).differs) return d;
    if ((d = cmp_str(t + ".user", e.user, g.user)).differs) return d;
    if (e.tags.size() != g.tags.size()) return mk(t + ".tags", "count", "n=" + std::string(e.tags.size() == 0 ? "0" : e.tags.size() == 1 ? "1" : "many"), std::to_string(e.tags.size()), std::to_string(g.tags.size()));
    for (size_t i = 0; i < e.tags.size(); ++i) {
        if ((d = cmp_str(t + ".tag-key", e.tags[i].k, g.tags[i].k)).differs) return d;
        if ((d = cmp_str(t + ".tag-value", e.tags[i].v, g.tags[i].v)).differs) return d;
    }
    if (e.type == 'n') {
        if (e.loc != g.loc) {
            if (open_invisible_loc && !e.visible && g.loc.undefined()) { if (used_open) *used_open = true; }
            else return cmp_loc("n.location", e.loc, g.loc);
        }
    }
    if (e.type == 'w') {
        if (e.refs.size() != g.refs.size()) return mk("w.nodes", "count", "n=" + std::string(e.refs.size() == 0 ? "0" : e.refs.size() == 1 ? "1" : "many"), std::to_string(e.refs.size()), std::to_string(g.refs.size()));
        for (size_t i = 0; i < e.refs.size(); ++i) {
            if (e.refs[i].ref != g.refs[i].ref) return mk("w.node-ref", "changed", int_class(e.refs[i].ref, INT64_MAX), std::to_string(e.refs[i].ref), std::to_string(g.refs[i].ref));
            if ((d = cmp_loc("w.node-location", e.refs[i].loc, g.refs[i].loc)).differs) return d;
        }
    }
    if (e.type == 'r') {
        if (e.members.size() != g.members.size()) return mk("r.members", "count", "n=" + std::string(e.members.size() == 0 ? "0" : e.members.size() == 1 ? "1" : "many"), std::to_string(e.members.size()), std::to_string(g.members.size()));
        for (size_t i = 0; i < e.members.size(); ++i) {
            if (e.members[i].type != g.members[i].type) return mk("r.member-type", "changed", std::string(1, e.members[i].type), std::string(1, e.members[i].type), std::string(1, g.members[i].type));
            if (e.members[i].ref != g.members[i].ref) return mk("r.member-ref", "changed", int_class(e.members[i].ref, INT64_MAX), std::to_string(e.members[i].ref), std::to_string(g.members[i].ref));
            if ((d = cmp_str("r.member-role", e.members[i].role, g.members[i].role)).differs) return d;
        }
    }
    if (e.type == 'c') {
        if (e.comments.size() != g.comments.size()) return mk("c.discussion", "count", "n=" + std::string(e.comments.size() == 0 ? "0" : e.comments.size() == 1 ? "1" : "many"), std::to_string(e.comments.size()), std::to_string(g.comments.size()));
        for (size_t i = 0; i < e.comments.size(); ++i) {
            if ((d = cmp_u32("c.comment-date", e.comments[i].date, g.comments[i].date)).differs) return d;
            if ((d = cmp_u32("c.comment-uid", e.comments[i].uid, g.comments[i].uid)).differs) return d;
            if ((d = cmp_str("c.comment-user", e.comments[i].user, g.comments[i].user)).differs) return d;
            if ((d = cmp_str("c.comment-text", e.comments[i].text, g.comments[i].text)).differs) return d;
        }
    }
    return Diff{};
}

// ------------------------------------------------------------------------------------------------
// abstract -> libosmium buffer (the buffer is sized by the caller so that it never has to grow)
inline size_t size_estimate(const AObj& o) {
    size_t n = 256 + o.user.size();
    for (const auto& t : o.tags) n += t.k.size() + t.v.size() + 16;
    n += o.refs.size() * 16 + 16;
    for (const auto& m : o.members) n += m.role.size() + 40;
    for (const auto& c : o.comments) n += c.user.size() + c.text.size() + 64;
    return n;
}

inline osmium::Location to_loc(const Loc& l) { return osmium::Location{l.x, l.y}; }

inline void build_object(osmium::memory::Buffer& buf, const AObj& o) {
    using namespace osmium::builder;
    auto tags = [&](Builder& parent) {
        if (!o.tags.empty()) { TagListBuilder tb{parent}; for (const auto& t : o.tags) tb.add_tag(t.k, t.v); }
    };
    auto common = [&](auto& b) {
        b.set_id(o.id).set_version(o.version).set_changeset(o.changeset).set_uid(o.uid).set_timestamp(osmium::Timestamp{o.ts}).set_visible(o.visible);
        b.set_user(o.user);
    };
    switch (o.type) {
        case 'n': { NodeBuilder b{buf}; common(b); b.set_location(to_loc(o.loc)); tags(b); break; }
        case 'w': { WayBuilder b{buf}; common(b); tags(b);
                    if (!o.refs.empty()) { WayNodeListBuilder wb{b}; for (const auto& r : o.refs) wb.add_node_ref(osmium::NodeRef{r.ref, to_loc(r.loc)}); } break; }
        case 'r': { RelationBuilder b{buf}; common(b); tags(b);
                    if (!o.members.empty()) { RelationMemberListBuilder mb{b}; for (const auto& m : o.members) mb.add_member(osmium::char_to_item_type(m.type), m.ref, m.role); } break; }
        case 'c': { ChangesetBuilder b{buf};
                    b.set_id(static_cast<osmium::changeset_id_type>(o.id)).set_uid(o.uid).set_created_at(osmium::Timestamp{o.created}).set_closed_at(osmium::Timestamp{o.closed})
                     .set_num_changes(o.num_changes).set_num_comments(o.num_comments);
                    osmium::Box box; box.bottom_left() = to_loc(o.bl); box.top_right() = to_loc(o.tr);
                    b.set_bounds(box);
                    b.set_user(o.user);
                    tags(b);
                    if (!o.comments.empty()) {
                        ChangesetDiscussionBuilder db{b};
                        for (const auto& c : o.comments) { db.add_comment(osmium::Timestamp{c.date}, c.uid, c.user.c_str()); db.add_comment_text(c.text); }
                    }
                    break; }
        default: break;
    }
    buf.commit();
}

// libosmium entity -> abstract (reads through the public accessors only)
inline Loc from_loc(const osmium::Location& l) { Loc r; r.x = l.x(); r.y = l.y(); return r; }

inline bool extract(const osmium::OSMEntity& e, AObj& o) {
    auto tags = [&](const osmium::TagList& tl) { for (const auto& t : tl) o.tags.push_back(ATag{t.key(), t.value()}); };
    auto common = [&](const osmium::OSMObject& x) {
        o.id = x.id(); o.version = x.version(); o.changeset = x.changeset(); o.uid = x.uid(); o.ts = static_cast<uint32_t>(x.timestamp());
        o.visible = x.visible(); o.user = x.user(); tags(x.tags());
    };
    switch (e.type()) {
        case osmium::item_type::node: { const auto& n = static_cast<const osmium::Node&>(e); o.type = 'n'; common(n); o.loc = from_loc(n.location()); return true; }
        case osmium::item_type::way: { const auto& w = static_cast<const osmium::Way&>(e); o.type = 'w'; common(w);
            for (const auto& nr : w.nodes()) { ANodeRef r; r.ref = nr.ref(); r.loc = from_loc(nr.location()); o.refs.push_back(r); } return true; }
        case osmium::item_type::relation: { const auto& r = static_cast<const osmium::Relation&>(e); o.type = 'r'; common(r);
            for (const auto& m : r.members()) { AMember am; am.type = osmium::item_type_to_char(m.type()); am.ref = m.ref(); am.role = m.role(); o.members.push_back(am); } return true; }
        case osmium::item_type::changeset: { const auto& c = static_cast<const osmium::Changeset&>(e); o.type = 'c';
            o.id = c.id(); o.uid = c.uid(); o.user = c.user(); o.created = static_cast<uint32_t>(c.created_at()); o.closed = static_cast<uint32_t>(c.closed_at());
            o.num_changes = c.num_changes(); o.num_comments = c.num_comments(); o.bl = from_loc(c.bounds().bottom_left()); o.tr = from_loc(c.bounds().top_right());
            tags(c.tags());
            for (const auto& cm : c.discussion()) { AComment ac; ac.date = static_cast<uint32_t>(cm.date()); ac.uid = cm.uid(); ac.user = cm.user(); ac.text = cm.text(); o.comments.push_back(ac); }
            return true; }
        default: return false;
    }
}

}  // namespace c01

#endif
