// C15 - id sets, relation maps and the item stash match their set/map models.
//
// Explicit-state search over operation histories. A state is reached by replaying a history on a
// FRESH real object; its canonical key is read (read-only, -fno-access-control) from the object's
// private fields; a boring reference model (std::set / set of pairs / list of handles) is driven in
// lock step and compared with everything the public interface shows. Every explored trace therefore
// is a trace of the implementation.
//
//   --part jobs     independent jobs (one BFS or one long scripted history each), job i runs in
//                   shard i % n inside a forked child (crash / hang -> violation with the history)
//   --part relmap   RelationsMapStash: all add-sequences up to a length, partitioned over the
//                   shards by the hash of the canonical state, then each of the three builders
//   --subset asan   only the jobs meant for the ASan + assert build
//   --replay <job>|<payload>   one history (BFS: dotted op codes; long: pattern step limit)
#include <benum/benum.hpp>

#include <osmium/builder/attr.hpp>
#include <osmium/builder/osm_object_builder.hpp>
#include <osmium/index/id_set.hpp>
#include <osmium/index/nwr_array.hpp>
#include <osmium/index/relations_map.hpp>
#include <osmium/storage/item_stash.hpp>

#include <algorithm>
#include <deque>
#include <functional>
#include <memory>
#include <set>
#include <sstream>
#include <string>
#include <unordered_set>
#include <vector>

// Fresh heap memory is filled with 0xA5 (plain build; ASan has its own fill): a read of bytes the library forgot to
// initialise then shows up, and shows up the same way when the history is replayed in a fresh process.
#if !defined(__SANITIZE_ADDRESS__)
static void* filled_alloc(std::size_t n) {
    void* p = malloc(n ? n : 1);
    if (!p) throw std::bad_alloc{};
    memset(p, 0xA5, n);
    return p;
}
void* operator new(std::size_t n) { return filled_alloc(n); }
void* operator new[](std::size_t n) { return filled_alloc(n); }
void operator delete(void* p) noexcept { free(p); }
void operator delete[](void* p) noexcept { free(p); }
void operator delete(void* p, std::size_t) noexcept { free(p); }
void operator delete[](void* p, std::size_t) noexcept { free(p); }
#endif

using benum::Args;
static benum::Counters C;
static bool g_stash_only = false;    // --subset stash: the ItemStash jobs of the sanitizer subset (build with hook H9: 256-byte stash buffer)
static std::string g_build_tag;      // " [asan+assert build]" when this executable is the sanitizer build: its bounds and counters are kept apart

template <class X> static std::string num(X v) { return std::to_string(v); }

// ------------------------------------------------------------------------------------------------
// shared cell: the history being executed right now (so a dying child can be attributed) + heartbeat
struct Cell { volatile uint64_t beats; volatile uint64_t long_step; char spec[7000]; char klass[256]; };   // klass: class key to use if the process dies in this history
static Cell* cell;
static void mark(const std::string& spec) {
    size_t n = std::min(spec.size(), sizeof(cell->spec) - 1);
    memcpy(cell->spec, spec.data(), n);
    cell->spec[n] = 0;
    cell->klass[0] = 0;
    cell->long_step = 0;
    cell->beats = cell->beats + 1;
}

// run fn() in a forked child; a death becomes VIOL <area>/crash/<class> with the history in the cell
template <class F>
static bool isolated(const std::string& area, F fn, double stale_s = 90.0) {
    cell->beats = 0; cell->spec[0] = 0;
    char errpath[96];
    snprintf(errpath, sizeof errpath, "/dev/shm/h15-%d.err", static_cast<int>(getpid()));
    fflush(stdout); fflush(stderr);
    pid_t pid = fork();
    if (pid < 0) { perror("fork"); _exit(3); }
    if (pid == 0) {
        int fd = open(errpath, O_WRONLY | O_CREAT | O_TRUNC, 0600);
        if (fd >= 0) { dup2(fd, 2); close(fd); }
        fn();
        fflush(stdout);
        _exit(0);
    }
    uint64_t last = ~0ull; auto t = std::chrono::steady_clock::now(); int status = 0; bool hung = false;
    for (;;) {
        pid_t w = waitpid(pid, &status, WNOHANG);
        if (w == pid) break;
        if (cell->beats != last) { last = cell->beats; t = std::chrono::steady_clock::now(); }
        else if (std::chrono::duration<double>(std::chrono::steady_clock::now() - t).count() > stale_s) { kill(pid, SIGKILL); waitpid(pid, &status, 0); hung = true; break; }
        usleep(2000);
    }
    bool ok = !hung && WIFEXITED(status) && WEXITSTATUS(status) == 0;
    if (!ok) {
        std::string what = hung ? "hang" : WIFSIGNALED(status) ? "signal:" + num(WTERMSIG(status)) : "exit:" + num(WEXITSTATUS(status));
        std::string err = benum::slurp(errpath);
        std::string spec = cell->spec;
        if (cell->long_step) spec = spec.substr(0, spec.find('|')) + "|" + num(cell->long_step);      // long scripted history: the step being executed
        const std::string dc = benum::death_class(what, err);
        benum::viol(cell->klass[0] ? std::string(cell->klass) : area + "/crash/" + dc, "process died (" + what + ", " + dc + ") while executing history " + spec, spec);
    }
    unlink(errpath);
    return ok;
}

// violation reporter for one history
struct Rep {
    benum::Violations& V;
    std::string spec;
    std::function<std::string()> pretty;
    unsigned fails = 0;
    void fail(const std::string& key, const std::string& detail) {
        ++fails;
        V.report(key, detail + " | history: " + (pretty ? pretty() : spec), spec);
    }
};

static std::string ops_str(const std::vector<uint8_t>& h) {
    std::string s;
    for (size_t i = 0; i < h.size(); ++i) { if (i) s += '.'; s += num(static_cast<unsigned>(h[i])); }
    return s;
}
static std::vector<uint8_t> ops_parse(const std::string& s) {
    std::vector<uint8_t> h; std::stringstream ss(s); std::string t;
    while (std::getline(ss, t, '.')) if (!t.empty()) h.push_back(static_cast<uint8_t>(atoi(t.c_str())));
    return h;
}

// ------------------------------------------------------------------------------------------------
// generic explicit-state BFS. Sys supplies:
//   Run(const Sys&)                       fresh real object(s) + empty model
//   nops(), enabled(run, op), opname(op)
//   apply(run, op, rep)                   perform op on real object and model, compare return values
//   observe(run, rep, lastop)             compare everything observable with the model
//   key(run)                              canonical state read from private fields
template <class Sys>
static std::string pretty_hist(const Sys& sys, const std::vector<uint8_t>& h) {
    std::string s;
    for (size_t i = 0; i < h.size(); ++i) { if (i) s += "; "; s += sys.opname(h[i]); }
    return s.empty() ? "(empty)" : s;
}

template <class Sys>
static void replay_history(const Sys& sys, const std::string& job, const std::vector<uint8_t>& h, benum::Violations& V, bool observe_every_step) {
    Rep rep{V, job + "|" + ops_str(h), [&]() { return pretty_hist(sys, h); }};
    mark(rep.spec);
    typename Sys::Run r(sys);
    if (observe_every_step) sys.observe(r, rep, -1);
    for (size_t i = 0; i < h.size(); ++i) {
        if (!sys.enabled(r, h[i])) { benum::note("replay: op not enabled in " + rep.spec); return; }
        sys.apply(r, h[i], rep);
        if (observe_every_step || i + 1 == h.size()) sys.observe(r, rep, h[i]);
    }
}

template <class Sys>
static bool bfs(const Args& a, const Sys& sys, const std::string& job, unsigned maxdepth, benum::Violations& V, const std::string& what) {
    std::unordered_set<std::string> seen;
    std::deque<std::vector<uint8_t>> q;
    uint64_t n = 0, nstates = 0; unsigned deepest = 0; bool depth_cut = false, complete = true;
    {
        std::vector<uint8_t> h;
        Rep rep{V, job + "|", [&]() { return std::string("(empty)"); }};
        mark(rep.spec);
        typename Sys::Run r(sys);
        sys.observe(r, rep, -1);
        seen.insert(sys.key(r)); q.push_back(h); ++nstates;
        ++C["states"]; ++C["traces_validated_against_impl"]; ++C["evaluations"];
    }
    while (!q.empty() && complete) {
        std::vector<uint8_t> h = std::move(q.front());
        q.pop_front();
        if (maxdepth && h.size() >= maxdepth) { depth_cut = true; continue; }
        std::vector<int> ops;
        {   // which operations are enabled in this state (decided on the model after a replay)
            Rep rep{V, job + "|" + ops_str(h), nullptr};
            mark(rep.spec);
            typename Sys::Run r(sys);
            for (uint8_t o : h) sys.apply(r, o, rep);
            for (int op = 0; op < sys.nops(); ++op) if (sys.enabled(r, op)) ops.push_back(op);
        }
        for (int op : ops) {
            if ((++n & 15) == 0 && a.expired()) { complete = false; break; }
            h.push_back(static_cast<uint8_t>(op));
            Rep rep{V, job + "|" + ops_str(h), [&]() { return pretty_hist(sys, h); }};
            mark(rep.spec);
            typename Sys::Run r(sys);
            for (uint8_t o : h) sys.apply(r, o, rep);      // return values are compared at every step
            sys.observe(r, rep, op);                       // full comparison in the state reached
            ++C["transitions"]; ++C["traces_validated_against_impl"]; ++C["evaluations"];
            if (r.mutations) ++C["distinct_nontrivial"];
            if (seen.insert(sys.key(r)).second) {
                ++C["states"]; ++nstates;
                q.push_back(h);
                if (h.size() > deepest) deepest = static_cast<unsigned>(h.size());
                if (nstates == 7 || nstates == 500 || nstates == 20000) benum::sample(job + ": " + pretty_hist(sys, h) + " -> state " + benum::clean(sys.key(r), 160));
            }
            h.pop_back();
        }
    }
    benum::maxv("max_history_depth", deepest);
    std::string b = job + ": " + what + ", " + (maxdepth ? "BFS over canonical states to depth " + num(maxdepth) : std::string("BFS over canonical states to the fixed point"));
    benum::bound(b + g_build_tag, complete);
    if (complete) benum::note(job + g_build_tag + ": " + num(nstates) + " states, " + num(n) + " transitions, deepest new state at depth " + num(deepest) + (depth_cut ? " (depth bound reached)" : " (fixed point: no new state)"));
    return complete;
}

// ------------------------------------------------------------------------------------------------
// IdSetDense<T, CB>, one or two registers
template <class T, std::size_t CB>
struct DenseSys {
    using Set = osmium::index::IdSetDense<T, CB>;
    std::vector<T> ids; bool two; std::vector<T> probes;
    static constexpr unsigned TB = sizeof(T) * 8;
    static uint64_t per_chunk() { return 8ull << CB; }

    DenseSys(std::vector<T> i, bool t) : ids(std::move(i)), two(t) {
        std::set<T> p;
        const T tmax = std::numeric_limits<T>::max();
        for (T id : ids) {
            p.insert(id);
            for (uint64_t d : {uint64_t(1), uint64_t(7), uint64_t(8), per_chunk(), per_chunk() / 8}) {
                if (id >= d) p.insert(static_cast<T>(id - d));
                if (tmax - id >= d) p.insert(static_cast<T>(id + d));
            }
        }
        probes.assign(p.begin(), p.end());
    }

    struct Run { Set a, b; std::set<T> ma, mb; unsigned mutations = 0; explicit Run(const DenseSys&) {} };

    int k() const { return static_cast<int>(ids.size()); }
    int nops() const { return 3 * k() + (two ? 5 : 3); }
    bool enabled(const Run&, int) const { return true; }
    std::string opkind(int op) const {
        if (op < 0) return "construction";
        if (op < 3 * k()) { static const char* n[] = {"set", "unset", "check_and_set"}; return n[op / k()]; }
        int x = op - 3 * k();
        if (two) { static const char* n[] = {"clear", "copy-assign", "copy-construct", "swap", "move-construct"}; return n[x]; }
        static const char* n[] = {"clear", "copy-construct", "copy-assign"}; return n[x];
    }
    std::string opname(int op) const {
        if (op < 3 * k()) return opkind(op) + "(" + num(ids[op % k()]) + ")";
        int x = op - 3 * k();
        if (two) { static const char* n[] = {"A.clear()", "B=A", "A<-Set(B)", "swap(A,B)", "B<-Set(move(A)),A.clear()"}; return n[x]; }
        static const char* n[] = {"clear()", "replace by copy-constructed copy (original modified, then destroyed)", "replace by copy-assigned copy"}; return n[x];
    }
    static bool top(const Set& s) { return static_cast<uint64_t>(s.m_data.size()) >= (1ull << (TB - CB - 3)); }
    std::string cls(const Set& s, int op) const {
        // one class for "the chunk table reaches the end of the id range", else the operation kind
        return top(s) ? std::string("last-chunk-of-id-range-allocated") : "after-" + opkind(op);
    }

    void apply(Run& r, int op, Rep& rep) const {
        const int K = k();
        if (op < 3 * K) {
            const T id = ids[op % K]; const int kind = op / K;
            const bool was = r.ma.count(id) > 0;
            if (kind == 0) { static_cast<osmium::index::IdSet<T>&>(r.a).set(id); r.ma.insert(id); if (!was) ++r.mutations; }
            else if (kind == 1) { r.a.unset(id); r.ma.erase(id); if (was) ++r.mutations; }
            else {
                const bool ret = r.a.check_and_set(id); r.ma.insert(id); if (!was) ++r.mutations;
                if (ret != !was) rep.fail("idset-dense/check_and_set-return-differs-from-model/" + cls(r.a, op), "check_and_set(" + num(id) + ") returned " + num(ret) + " but the id was " + (was ? "already" : "not") + " in the set");
            }
            return;
        }
        const int x = op - 3 * K;
        if (x == 0) { static_cast<osmium::index::IdSet<T>&>(r.a).clear(); if (!r.ma.empty()) ++r.mutations; r.ma.clear(); return; }
        if (two) {
            // (assignment from an rvalue does not compile: the by-value operator= and the defaulted move operator= are ambiguous)
            if (x == 1) { r.b = r.a; r.mb = r.ma; }
            else if (x == 2) { Set c{r.b}; swap(r.a, c); r.ma = r.mb; }
            else if (x == 3) { swap(r.a, r.b); std::swap(r.ma, r.mb); }
            else { Set c{std::move(r.a)}; swap(r.b, c); r.a.clear(); r.mb = r.ma; r.ma.clear(); }    // moved-from object is reused after clear()
        } else {
            if (x == 1) {           // the copy must be deep: the original is modified and destroyed afterwards
                Set c{r.a};
                r.a.set(ids.front()); r.a.unset(ids.back()); r.a.clear();
                swap(r.a, c);
            } else {                // copy-assign over a non-empty target
                Set c; c.set(ids.back()); c = r.a;
                swap(r.a, c);
            }
        }
    }

    void cmp(const Set& s, const std::set<T>& m, int op, Rep& rep, const char* reg) const {
        const std::string c = cls(s, op);
        if (static_cast<uint64_t>(s.size()) != m.size()) rep.fail("idset-dense/size-differs-from-model/" + c, std::string(reg) + ".size()=" + num(s.size()) + " model " + num(m.size()));
        if (s.empty() != m.empty()) rep.fail("idset-dense/empty-differs-from-model/" + c, std::string(reg) + ".empty()=" + num(s.empty()) + " model size " + num(m.size()));
        const osmium::index::IdSet<T>& base = s;
        for (T p : probes) {
            const bool g = base.get(p);
            if (g != (m.count(p) > 0)) { rep.fail("idset-dense/get-differs-from-model/" + c, std::string(reg) + ".get(" + num(p) + ")=" + num(g) + " model " + num(m.count(p))); break; }
        }
        // ascending iteration must give exactly the model's elements
        std::vector<T> got; const size_t cap = m.size() + 4;
        auto it = s.begin(); const auto e = s.end();
        for (; it != e && got.size() < cap; ++it) got.push_back(*it);
        if (got != std::vector<T>(m.begin(), m.end())) {
            std::string g, w;
            for (T v : got) g += num(v) + " ";
            for (T v : m) w += num(v) + " ";
            rep.fail("idset-dense/iteration-differs-from-model/" + c, std::string(reg) + " iterates as [ " + g + "] but contains [ " + w + "], size()=" + num(s.size()) + ", chunk table has " + num(s.m_data.size()) + " entries of " + num(per_chunk()) + " ids, T is " + num(TB) + " bit");
        }
    }
    void observe(Run& r, Rep& rep, int op) const {
        cmp(r.a, r.ma, op, rep, "A");
        if (two) cmp(r.b, r.mb, op, rep, "B");
    }

    static void key_of(const Set& s, std::string& out) {
        out += "n" + num(s.m_size) + "c" + num(s.m_data.size());
        const size_t bytes = static_cast<size_t>(1) << CB;
        for (size_t c = 0; c < s.m_data.size(); ++c) {
            const unsigned char* p = s.m_data[c].get();
            if (!p) continue;
            out += "[" + num(c);
            for (size_t o = 0; o < bytes;) {
                if (bytes >= 8 && o % 8 == 0 && o + 8 <= bytes) { uint64_t w; memcpy(&w, p + o, 8); if (w == 0) { o += 8; continue; } }
                if (p[o]) out += "," + num(o) + "=" + num(static_cast<unsigned>(p[o]));
                ++o;
            }
            out += "]";
        }
    }
    std::string key(const Run& r) const { std::string s; key_of(r.a, s); if (two) { s += "|"; key_of(r.b, s); } return s; }
};

// ------------------------------------------------------------------------------------------------
// IdSetSmall<T>. The model knows when the documented preconditions (sorted, no duplicates) hold and
// only then demands exact size / iteration / binary search; otherwise: membership, emptiness, size bounds.
template <class T>
struct SmallSys {
    using Set = osmium::index::IdSetSmall<T>;
    std::vector<T> ids; std::vector<std::vector<T>> others; std::vector<T> probes;
    SmallSys(std::vector<T> i, std::vector<std::vector<T>> o) : ids(std::move(i)), others(std::move(o)) {
        std::set<T> p(ids.begin(), ids.end());
        for (T id : ids) { if (id > 0) p.insert(static_cast<T>(id - 1)); if (id < std::numeric_limits<T>::max()) p.insert(static_cast<T>(id + 1)); }
        probes.assign(p.begin(), p.end());
    }
    struct Run { Set a; std::set<T> m; bool norm = true; bool have_last = false; T last = 0; size_t upper = 0; unsigned mutations = 0; explicit Run(const SmallSys&) {} };
    int k() const { return static_cast<int>(ids.size()); }
    int nm() const { return static_cast<int>(others.size()); }
    int nops() const { return k() + 4 + nm(); }
    bool enabled(const Run& r, int op) const { return op < k() + 4 || r.norm; }    // merge_sorted has a precondition
    std::string opkind(int op) const {
        if (op < 0) return "construction";
        if (op < k()) return "set";
        static const char* n[] = {"sort_unique", "clear", "copy-construct", "copy-assign"};
        return op < k() + 4 ? n[op - k()] : "merge_sorted";
    }
    std::string opname(int op) const {
        if (op < k()) return "set(" + num(ids[op]) + ")";
        if (op < k() + 4) return opkind(op) + "()";
        std::string s = "merge_sorted({";
        for (T v : others[op - k() - 4]) s += num(v) + " ";
        return s + "})";
    }
    void apply(Run& r, int op, Rep&) const {
        if (op < k()) {
            const T id = ids[op];
            static_cast<osmium::index::IdSet<T>&>(r.a).set(id);
            if (r.have_last && r.last == id) { /* pinned by the repo test: same id as last time does not grow the set */ }
            else {
                if (!(r.norm && (r.m.empty() || id > *r.m.rbegin()))) r.norm = false;
                ++r.upper;
            }
            if (r.m.insert(id).second) ++r.mutations;
            r.have_last = true; r.last = id;
            return;
        }
        const int x = op - k();
        r.have_last = false;
        if (x == 0) { r.a.sort_unique(); r.norm = true; r.upper = r.m.size(); }
        else if (x == 1) { static_cast<osmium::index::IdSet<T>&>(r.a).clear(); if (!r.m.empty()) ++r.mutations; r.m.clear(); r.norm = true; r.upper = 0; }
        else if (x == 2) { Set c{r.a}; r.a.set(ids.front()); r.a.clear(); r.a = std::move(c); }
        else if (x == 3) { Set c; c.set(ids.back()); c = r.a; r.a = c; }
        else {
            const auto& o = others[x - 4];
            Set other;
            if ((x - 4) % 2 == 0) { for (T v : o) other.set(v); }                                   // ids set in order
            else { for (auto it = o.rbegin(); it != o.rend(); ++it) { other.set(*it); other.set(*it); } other.sort_unique(); }
            const size_t before = r.m.size();
            r.a.merge_sorted(other);
            r.m.insert(o.begin(), o.end());
            if (r.m.size() != before) ++r.mutations;
            r.upper = r.m.size();
        }
    }
    void observe(Run& r, Rep& rep, int op) const {
        const std::string c = std::string(r.norm ? "sorted-unique" : "unsorted") + "/after-" + opkind(op);
        const Set& s = r.a;
        if (s.empty() != r.m.empty()) rep.fail("idset-small/empty-differs-from-model/" + c, "empty()=" + num(s.empty()) + " model size " + num(r.m.size()));
        for (T p : probes) if (s.get(p) != (r.m.count(p) > 0)) { rep.fail("idset-small/get-differs-from-model/" + c, "get(" + num(p) + ")=" + num(s.get(p))); break; }
        std::vector<T> got(s.begin(), s.end());
        if (static_cast<size_t>(s.cend() - s.cbegin()) != got.size()) rep.fail("idset-small/cbegin-cend-differ-from-begin-end/" + c, "");
        if (r.norm) {
            if (s.size() != r.m.size()) rep.fail("idset-small/size-differs-from-model/" + c, "size()=" + num(s.size()) + " model " + num(r.m.size()));
            if (got != std::vector<T>(r.m.begin(), r.m.end())) rep.fail("idset-small/iteration-differs-from-model/" + c, "iteration gives " + num(got.size()) + " elements, model has " + num(r.m.size()));
            for (T p : probes) if (s.get_binary_search(p) != (r.m.count(p) > 0)) { rep.fail("idset-small/get_binary_search-differs-from-model/" + c, "get_binary_search(" + num(p) + ")=" + num(s.get_binary_search(p))); break; }
            ++C["small_exact_observations"];
        } else {
            if (s.size() < r.m.size() || s.size() > r.upper) rep.fail("idset-small/size-outside-model-bounds/" + c, "size()=" + num(s.size()) + " distinct ids " + num(r.m.size()) + " set() calls that may have appended " + num(r.upper));
            if (std::set<T>(got.begin(), got.end()) != r.m) rep.fail("idset-small/iterated-ids-differ-from-model/" + c, "");
            ++C["small_weak_observations"];
        }
        if (s.used_memory() < s.size() * sizeof(T)) rep.fail("idset-small/used_memory-below-content/" + c, "");
    }
    std::string key(const Run& r) const { std::string s; for (T v : r.a.m_data) s += num(v) + ","; return s; }
};

// ------------------------------------------------------------------------------------------------
// nwr_array<IdSetDense<uint32_t,1>>: three independent sets addressed by item type
struct NwrSys {
    using Set = osmium::index::IdSetDense<uint32_t, 1>;
    using D = DenseSys<uint32_t, 1>;
    std::vector<uint32_t> ids{0, 16};
    struct Run { osmium::nwr_array<Set> arr; std::set<uint32_t> m[3]; unsigned mutations = 0; explicit Run(const NwrSys&) {} };
    static osmium::item_type ty(int i) { static const osmium::item_type t[] = {osmium::item_type::node, osmium::item_type::way, osmium::item_type::relation}; return t[i]; }
    int k() const { return static_cast<int>(ids.size()); }
    int nops() const { return 3 * (2 * k() + 1); }
    bool enabled(const Run&, int) const { return true; }
    std::string opname(int op) const {
        const int per = 2 * k() + 1, t = op / per, x = op % per;
        std::string who = std::string(osmium::item_type_to_name(ty(t)));
        if (x == 2 * k()) return who + ".clear()";
        return who + (x < k() ? ".set(" : ".unset(") + num(ids[x % k()]) + ")";
    }
    void apply(Run& r, int op, Rep&) const {
        const int per = 2 * k() + 1, t = op / per, x = op % per;
        Set& s = r.arr(ty(t));
        if (x == 2 * k()) { s.clear(); if (!r.m[t].empty()) ++r.mutations; r.m[t].clear(); }
        else if (x < k()) { s.set(ids[x]); if (r.m[t].insert(ids[x]).second) ++r.mutations; }
        else { s.unset(ids[x - k()]); if (r.m[t].erase(ids[x - k()])) ++r.mutations; }
    }
    void observe(Run& r, Rep& rep, int) const {
        const Set* by_name[3] = {&r.arr.nodes(), &r.arr.ways(), &r.arr.relations()};
        int i = 0;
        for (auto it = r.arr.begin(); it != r.arr.end(); ++it, ++i) if (i >= 3 || &*it != by_name[i]) { rep.fail("nwr-array/iteration-order-differs-from-accessors", "element " + num(i)); break; }
        if (i != 3 || r.arr.cend() - r.arr.cbegin() != 3) rep.fail("nwr-array/not-three-elements", "");
        for (int t = 0; t < 3; ++t) {
            const Set& s = static_cast<const osmium::nwr_array<Set>&>(r.arr)(ty(t));
            if (&s != by_name[t]) rep.fail("nwr-array/type-index-differs-from-named-accessor", std::string(osmium::item_type_to_name(ty(t))));
            std::vector<uint32_t> got;
            for (auto it = s.begin(); it != s.end() && got.size() < 8; ++it) got.push_back(*it);
            if (got != std::vector<uint32_t>(r.m[t].begin(), r.m[t].end()) || s.size() != r.m[t].size())
                rep.fail("nwr-array/element-differs-from-its-model", std::string(osmium::item_type_to_name(ty(t))) + " has size " + num(s.size()) + " model " + num(r.m[t].size()));
        }
    }
    std::string key(const Run& r) const { std::string s; D::key_of(r.arr.nodes(), s); s += "|"; D::key_of(r.arr.ways(), s); s += "|"; D::key_of(r.arr.relations(), s); return s; }
};

// ------------------------------------------------------------------------------------------------
// ItemStash
struct Shapes {
    osmium::memory::Buffer buf{4096, osmium::memory::Buffer::auto_grow::yes};
    std::vector<size_t> off;
    std::vector<std::string> names;
    Shapes() {
        using namespace osmium::builder::attr;
        auto mark_ = [&](const char* n) { off.push_back(buf.committed()); names.push_back(n); };
        mark_("node48");    osmium::builder::add_node(buf, _id(11), _location(1.5, 2.5));
        mark_("node+tags"); osmium::builder::add_node(buf, _id(22), _version(3), _tag("k", "v"), _tag("name", "x"));
        mark_("way");       osmium::builder::add_way(buf, _id(33), _nodes({1, 2, 3, 4}), _tag("highway", "primary"));
        mark_("relation");  osmium::builder::add_relation(buf, _id(44), _user("someone"), _member(osmium::item_type::way, 33, "outer"), _member(osmium::item_type::relation, 7, ""), _tag("type", "multipolygon"));
        mark_("taglist(non-entity)");
        { osmium::builder::TagListBuilder b{buf}; b.add_tag("a", "b"); }
        buf.commit();
        mark_("node+user");  osmium::builder::add_node(buf, _id(55), _user("abcdefgh"));
        mark_("changeset");  osmium::builder::add_changeset(buf, _cid(66), _tag("comment", "c"));
    }
    const osmium::memory::Item& item(int s) const { return buf.get<osmium::memory::Item>(off[s]); }
    size_t bytes(int s) const { return item(s).padded_size(); }
};
static const Shapes& shapes() { static Shapes s; return s; }

struct StashModel {
    struct H { osmium::ItemStash::handle_type h; int shape; bool live; };
    std::vector<H> hs;               // every handle handed out since the last clear(), creation order
    size_t live = 0, removed = 0, live_bytes = 0, garbage_bytes = 0;
};

// compare one live handle with the bytes that were added; returns false (after reporting) on mismatch
template <class R>
static bool check_handle(const osmium::ItemStash& st, const StashModel::H& e, R& rep, const std::string& c) {
    const auto& orig = shapes().item(e.shape);
    if (!e.h.valid()) { rep.fail("item-stash/handle-not-valid/" + c, "handle of a live item reports !valid()"); return false; }
    const size_t idx = e.h.value;     // private, read only: guard against dereferencing a wild offset
    if (idx == 0 || idx > st.m_index.size()) { rep.fail("item-stash/handle-outside-index/" + c, "handle " + num(idx) + " index size " + num(st.m_index.size())); return false; }
    const size_t o = st.m_index[idx - 1];
    if (o >= st.m_buffer.committed() || o + orig.padded_size() > st.m_buffer.committed()) {
        rep.fail("item-stash/live-handle-offset-outside-buffer/" + c, "handle " + num(idx) + " -> offset " + num(o) + ", committed " + num(st.m_buffer.committed()));
        return false;
    }
    const osmium::memory::Item& it = st.get_item(e.h);
    if (it.type() != orig.type() || it.byte_size() != orig.byte_size() || it.removed() || memcmp(it.data(), orig.data(), orig.padded_size()) != 0) {
        rep.fail("item-stash/handle-resolves-to-changed-content/" + c, "handle " + num(idx) + " (" + shapes().names[e.shape] + ", " + num(orig.byte_size()) + " bytes, type " + num(static_cast<int>(orig.type())) +
                 ") now resolves to type " + num(static_cast<int>(it.type())) + " size " + num(it.byte_size()) + " removed=" + num(it.removed()) + " at offset " + num(o));
        return false;
    }
    if (orig.type() == osmium::item_type::node && st.get<osmium::Node>(e.h).id() != static_cast<const osmium::Node&>(orig).id()) { rep.fail("item-stash/typed-get-differs/" + c, ""); return false; }
    return true;
}

static const char* const NONENTITY_KEY = "item-stash/inconsistent-after-collecting-a-stash-that-holds-a-non-entity-item";
struct StashSys {
    std::vector<int> sh;        // shapes used by this job
    bool nonentity = false;
    explicit StashSys(std::vector<int> s) : sh(std::move(s)) { for (int x : sh) if (x == 4) nonentity = true; }
    struct Run { osmium::ItemStash st; StashModel m; unsigned mutations = 0; bool gc_nonentity = false; explicit Run(const StashSys&) {} };
    int ns() const { return static_cast<int>(sh.size()); }
    int nops() const { return ns() + 2 + 8; }
    bool enabled(const Run& r, int op) const { return op < ns() + 2 || static_cast<size_t>(op - ns() - 2) < r.m.live; }
    std::string opkind(int op) const { return op < 0 ? "construction" : op < ns() ? "add_item" : op == ns() ? "garbage_collect" : op == ns() + 1 ? "clear" : "remove_item"; }
    std::string opname(int op) const {
        if (op < ns()) return "add_item(" + shapes().names[sh[op]] + ")";
        if (op < ns() + 2) return opkind(op) + "()";
        return "remove_item(live handle #" + num(op - ns() - 2) + ")";
    }
    std::string cls(int op) const { return "entity-items/after-" + opkind(op); }
    // Once a collection has run over a buffer that holds an item which is not an OSMEntity, everything
    // observed afterwards belongs to one class (purge_removed() only walks OSMEntity items).
    struct ClassRep {
        Rep& rep; bool collapse;
        void fail(const std::string& key, const std::string& detail) {
            if (collapse) rep.fail(NONENTITY_KEY, key + ": " + detail);
            else rep.fail(key, detail);
        }
    };
    void apply(Run& r, int op, Rep& rep0) const {
        ClassRep rep{rep0, r.gc_nonentity};
        StashModel& m = r.m;
        if (op < ns()) {
            const int s = sh[op];
            const auto h = r.st.add_item(shapes().item(s));
            for (const auto& e : m.hs) if (e.live && e.h.value == h.value) rep.fail("item-stash/add_item-returns-handle-of-live-item/" + cls(op), "handle " + num(h.value));
            m.hs.push_back({h, s, true}); ++m.live; m.live_bytes += shapes().bytes(s); ++r.mutations;
        } else if (op == ns()) {
            for (const auto& e : m.hs) if (e.shape == 4) r.gc_nonentity = true;     // (entries removed by an earlier collection included: conservative)
            if (r.gc_nonentity) strcpy(cell->klass, NONENTITY_KEY);                  // an assert/ASan death later in this history belongs to the same class
            r.st.garbage_collect(); m.removed = 0; m.garbage_bytes = 0;
        } else if (op == ns() + 1) {
            r.st.clear(); if (!m.hs.empty()) ++r.mutations; m = StashModel{}; r.gc_nonentity = false;
        } else {
            size_t j = static_cast<size_t>(op - ns() - 2);
            for (auto& e : m.hs) if (e.live && j-- == 0) {
                const size_t o = r.st.m_index[e.h.value - 1];
                if (o >= r.st.m_buffer.committed()) rep.fail("item-stash/live-handle-offset-outside-buffer/" + cls(op), "before remove_item: handle " + num(e.h.value) + " -> offset " + num(o));   // do not walk into the library's assert / a wild write
                else r.st.remove_item(e.h);
                e.live = false; --m.live; ++m.removed;
                m.live_bytes -= shapes().bytes(e.shape); m.garbage_bytes += shapes().bytes(e.shape); ++r.mutations;
                break;
            }
        }
    }
    void observe(Run& r, Rep& rep0, int op) const {
        ClassRep rep{rep0, r.gc_nonentity};
        const std::string c = cls(op);
        const StashModel& m = r.m;
        if (r.st.size() != m.live) rep.fail("item-stash/size-differs-from-model/" + c, "size()=" + num(r.st.size()) + " model " + num(m.live));
        if (r.st.count_removed() != m.removed) rep.fail("item-stash/count_removed-differs-from-model/" + c, "count_removed()=" + num(r.st.count_removed()) + " model " + num(m.removed));
        const size_t committed = r.st.m_buffer.committed();
        if (op == ns() || op == ns() + 1) {
            // removed items' space is reclaimed by collection: only the live bytes remain
            if (committed != m.live_bytes) rep.fail("item-stash/space-not-reclaimed/" + c, "buffer holds " + num(committed) + " bytes, live items need " + num(m.live_bytes));
        } else if (committed > m.live_bytes + m.garbage_bytes) {
            rep.fail("item-stash/buffer-larger-than-everything-added/" + c, "buffer holds " + num(committed) + " bytes, live+uncollected " + num(m.live_bytes + m.garbage_bytes));
        }
        for (const auto& e : m.hs) if (e.live && !check_handle(r.st, e, rep, c)) break;
        if (r.st.used_memory() < r.st.m_buffer.capacity()) rep.fail("item-stash/used_memory-below-buffer-capacity/" + c, "");
    }
    std::string key(const Run& r) const {
        std::string s = "i" + num(r.st.m_count_items) + "r" + num(r.st.m_count_removed) + "c" + num(r.st.m_buffer.committed()) + ":";
        for (size_t o : r.st.m_index) s += (o == static_cast<size_t>(osmium::ItemStash::removed_item_offset) ? std::string("x") : num(o)) + ",";
        s += "|";
        const unsigned char* p = r.st.m_buffer.data(); const unsigned char* e = p + r.st.m_buffer.committed();
        for (int guard = 0; p < e && guard < 1000; ++guard) {
            const auto* it = reinterpret_cast<const osmium::memory::Item*>(p);
            s += num(static_cast<int>(it->type())) + (it->removed() ? "x" : "") + "/" + num(it->byte_size()) + ",";
            if (it->padded_size() == 0) break;
            p += it->padded_size();
        }
        return s;
    }
};

// ------------------------------------------------------------------------------------------------
// ItemStash: long scripted histories (automatic collection inside add_item needs >= 10000 removals,
// removed*5 >= live and < 10 KiB of free buffer). Scripts are deterministic; they may steer by reading
// (never writing) the stash's buffer fill. The oracle accepts a collection at any add_item.
struct StopReplay {};
struct LongRun {
    osmium::ItemStash st; StashModel m; Rep& rep; const Args& a; uint64_t limit;
    uint64_t step = 0, auto_gc = 0, explicit_gc = 0, full_checks = 0, grows = 0; size_t cursor = 0; bool expired = false;
    const char* lastkind = "construction"; uint64_t next_full = 8192;
    void begin_op() { rep.spec = spec_base + "|" + num(step + 1); cell->long_step = step + 1; }     // a failure inside the op names the step being executed
    std::vector<int> mix; size_t mixpos = 0; std::string spec_base;
    LongRun(Rep& r, const Args& aa, uint64_t lim, std::vector<int> mx, std::string sb) : rep(r), a(aa), limit(lim), mix(std::move(mx)), spec_base(std::move(sb)) {}

    void tick(const char* kind) {
        ++step; ++C["transitions"]; ++C["evaluations"]; ++C["long_history_steps"];
        lastkind = kind;
        if ((step & 1023) == 0) { cell->beats = cell->beats + 1; if (a.expired()) expired = true; }
        cheap(kind);
        if (step >= next_full) { full(kind); next_full = step + std::max<uint64_t>(8192, 4 * m.live); }
        if (rep.fails > 20 || expired || (limit && step >= limit)) { if (limit && step >= limit) full(kind); throw StopReplay{}; }
    }
    void cheap(const char* kind) {
        const std::string c = std::string("entity-items/after-") + kind;
        if (st.size() != m.live) rep.fail("item-stash/size-differs-from-model/" + c, "step " + num(step) + " size()=" + num(st.size()) + " model " + num(m.live));
        if (st.count_removed() != m.removed) rep.fail("item-stash/count_removed-differs-from-model/" + c, "step " + num(step) + " count_removed()=" + num(st.count_removed()) + " model " + num(m.removed));
        for (int i = 0; i < 6 && !m.hs.empty(); ++i) {       // rotating window over the handles
            cursor = (cursor + 1) % m.hs.size();
            if (m.hs[cursor].live && !check_handle(st, m.hs[cursor], rep, c)) break;
        }
    }
    void full(const char* kind) {
        ++full_checks; ++C["long_history_full_comparisons"];
        const std::string c = std::string("entity-items/after-") + kind;
        size_t live = 0;
        for (const auto& e : m.hs) if (e.live) { ++live; if (!check_handle(st, e, rep, c)) break; }
        C["long_history_handles_compared"] += live;
        if (st.m_buffer.committed() > m.live_bytes + m.garbage_bytes) rep.fail("item-stash/buffer-larger-than-everything-added/" + c, "step " + num(step));
    }
    void add() {
        begin_op();
        const int s = mix[mixpos++ % mix.size()];
        const size_t pre_removed = m.removed, cap0 = st.m_buffer.capacity();
        const auto h = st.add_item(shapes().item(s));
        m.hs.push_back({h, s, true}); ++m.live; m.live_bytes += shapes().bytes(s);
        if (st.m_buffer.capacity() != cap0) { ++grows; ++C["long_history_buffer_growths"]; }
        if (pre_removed > 0 && st.count_removed() == 0) {     // a collection ran inside add_item: allowed at any add
            m.removed = 0; m.garbage_bytes = 0; ++auto_gc; ++C["automatic_gc_events_with_live_handles"];
            if (m.live > 1) C["automatic_gc_live_handles_checked"] += m.live;
            if (st.m_buffer.committed() != m.live_bytes) rep.fail("item-stash/space-not-reclaimed/entity-items/after-automatic-collection", "step " + num(step + 1) + ": buffer holds " + num(st.m_buffer.committed()) + " bytes, live items need " + num(m.live_bytes));
            full("automatic-collection");
        }
        if (!check_handle(st, m.hs.back(), rep, "entity-items/after-add_item")) {}
        tick("add_item");
    }
    void remove(size_t i) {   // i indexes m.hs
        if (i >= m.hs.size()) { benum::note("HARNESS BUG: script removes handle #" + num(i) + " of " + num(m.hs.size()) + " in " + spec_base); return; }
        auto& e = m.hs[i];
        if (!e.live) return;
        begin_op();
        st.remove_item(e.h); e.live = false; --m.live; ++m.removed;
        m.live_bytes -= shapes().bytes(e.shape); m.garbage_bytes += shapes().bytes(e.shape);
        tick("remove_item");
    }
    void gc() {
        begin_op();
        st.garbage_collect(); m.removed = 0; m.garbage_bytes = 0; ++explicit_gc;
        if (st.m_buffer.committed() != m.live_bytes) rep.fail("item-stash/space-not-reclaimed/entity-items/after-garbage_collect", "step " + num(step + 1) + ": buffer holds " + num(st.m_buffer.committed()) + " bytes, live items need " + num(m.live_bytes));
        full("garbage_collect");
        tick("garbage_collect");
    }
    void clear() {
        begin_op();
        st.clear(); m = StashModel{}; cursor = 0;
        if (st.m_buffer.committed() != 0) rep.fail("item-stash/space-not-reclaimed/entity-items/after-clear", "");
        tick("clear");
    }
    // scripts' helpers
    size_t room() const { return st.m_buffer.capacity() - st.m_buffer.committed(); }
    void fill() { while (room() >= 10 * 1024) add(); }      // until the "little space left" condition of the heuristic holds
    std::vector<size_t> live_list() const { std::vector<size_t> v; for (size_t i = 0; i < m.hs.size(); ++i) if (m.hs[i].live) v.push_back(i); return v; }
    template <class Sel> void remove_where(Sel sel, bool reverse = false) {
        auto v = live_list(); const size_t n = v.size();
        if (!reverse) { for (size_t r = 0; r < n; ++r) if (sel(r, n)) remove(v[r]); }
        else { for (size_t r = n; r-- > 0;) if (sel(r, n)) remove(v[r]); }
    }
};

struct LongPattern { const char* name; std::function<void(LongRun&, bool thorough)> script; };
static const std::vector<LongPattern>& long_patterns() {
    static const std::vector<LongPattern> P = {
        {"alternate", [](LongRun& r, bool t) { for (int i = 0; i < (t ? 8 : 3); ++i) { r.fill(); r.remove_where([](size_t k, size_t) { return k % 2 == 0; }); for (int j = 0; j < 300; ++j) r.add(); } }},
        {"prefix", [](LongRun& r, bool t) { for (int i = 0; i < (t ? 8 : 3); ++i) { r.fill(); r.remove_where([](size_t k, size_t n) { return k < n * 6 / 10; }); for (int j = 0; j < 300; ++j) r.add(); } }},
        {"suffix", [](LongRun& r, bool t) { for (int i = 0; i < (t ? 8 : 3); ++i) { r.fill(); r.remove_where([](size_t k, size_t n) { return k >= n * 4 / 10; }); for (int j = 0; j < 300; ++j) r.add(); } }},
        {"suffix-reverse-order", [](LongRun& r, bool t) { for (int i = 0; i < (t ? 6 : 2); ++i) { r.fill(); r.remove_where([](size_t k, size_t n) { return k >= n * 3 / 10; }, true); for (int j = 0; j < 300; ++j) r.add(); } }},
        {"keep-every-7th", [](LongRun& r, bool t) { for (int i = 0; i < (t ? 8 : 3); ++i) { r.fill(); r.remove_where([](size_t k, size_t) { return k % 7 != 3; }); for (int j = 0; j < 300; ++j) r.add(); } }},
        {"remove-all", [](LongRun& r, bool t) { for (int i = 0; i < (t ? 6 : 2); ++i) { r.fill(); r.remove_where([](size_t, size_t) { return true; }); for (int j = 0; j < 300; ++j) r.add(); } }},
        {"runs-of-5-of-8", [](LongRun& r, bool t) { for (int i = 0; i < (t ? 8 : 3); ++i) { r.fill(); r.remove_where([](size_t k, size_t) { return k % 8 < 5; }); for (int j = 0; j < 300; ++j) r.add(); } }},
        {"fifo-window", [](LongRun& r, bool t) { size_t oldest = 0; const uint64_t n = t ? 400000 : 70000; for (uint64_t i = 0; i < n; ++i) { r.add(); if (r.m.live > 3000) { while (!r.m.hs[oldest].live) ++oldest; r.remove(oldest); } } }},
        {"stack", [](LongRun& r, bool t) { const uint64_t n = t ? 200000 : 40000; for (uint64_t i = 0; i < n; ++i) { r.add(); r.add(); r.remove(r.m.hs.size() - 1); if (i % 3 == 0) r.remove(r.m.hs.size() - 2); } }},
        {"threshold-9999-then-10000", [](LongRun& r, bool) {
            while (r.m.live < 12000) r.add();                       // enough handles whatever the item size (the buffer may have grown)
            r.fill();
            auto v = r.live_list(); for (size_t i = 0; i < 9999; ++i) r.remove(v[i]);
            r.add(); r.add();                                       // 9999 removed: below the heuristic's minimum
            r.fill(); v = r.live_list(); r.remove(v.back());        // 10000 removed and the buffer almost full
            r.add(); for (int j = 0; j < 100; ++j) r.add(); }},
        {"explicit-gc-and-clear", [](LongRun& r, bool t) { for (int i = 0; i < (t ? 6 : 2); ++i) { r.fill(); size_t cnt = 0; auto v = r.live_list(); for (size_t k = 0; k < v.size(); ++k) if (k % 3 != 1) { r.remove(v[k]); if (++cnt % 2500 == 0) { r.gc(); r.add(); } } r.fill(); r.remove_where([](size_t k, size_t) { return k % 2 == 1; }); r.add(); if (i % 2 == 1) { r.clear(); for (int j = 0; j < 50; ++j) r.add(); } } }},
        {"grown-buffer", [](LongRun& r, bool t) { for (int j = 0; j < 30000; ++j) r.add(); for (int i = 0; i < (t ? 4 : 1); ++i) { r.fill(); r.remove_where([](size_t k, size_t) { return k % 2 == 0; }); for (int j = 0; j < 300; ++j) r.add(); } }},
        {"five-million-removed", [](LongRun& r, bool) { for (int j = 0; j < 5000300; ++j) r.add(); r.remove_where([](size_t k, size_t) { return k >= 150 && k < 5000152; }); r.add(); for (int j = 0; j < 100; ++j) r.add(); }},
    };
    return P;
}
static const std::vector<std::vector<int>>& long_mixes() {
    static const std::vector<std::vector<int>> M = {{0}, {1}, {2}, {0, 1, 2, 3}, {3, 0, 0, 2, 1}};
    return M;
}

static bool run_long(const Args& a, const std::string& job, size_t pattern, size_t mix, uint64_t limit, benum::Violations& V) {
    Rep rep{V, job + "|0", nullptr};
    const auto& P = long_patterns()[pattern];
    rep.pretty = [&]() { return std::string("scripted pattern '") + P.name + "' over item mix #" + num(mix) + ", up to the step given in the replay spec"; };
    mark(rep.spec);
    LongRun r(rep, a, limit, long_mixes()[mix], job);
    bool complete = true;
    // thorough scripts extend the quick ones; a replay runs the long form up to the step limit
    try { P.script(r, a.thorough || limit != 0); if (!r.expired) r.full(r.lastkind); } catch (const StopReplay&) { complete = !r.expired; }
    ++C["traces_validated_against_impl"]; ++C["distinct_nontrivial"]; ++C["long_histories"];
    if (!limit) {
        benum::bound(job + ": scripted history (" + num(r.step) + " steps)" + g_build_tag, complete);
        benum::note(job + g_build_tag + ": " + num(r.step) + " steps, " + num(r.auto_gc) + " automatic collections, " + num(r.explicit_gc) + " explicit, " + num(r.grows) + " buffer growths, " + num(r.full_checks) + " full comparisons");
        benum::setv("long_history_outcomes", std::string(r.auto_gc ? "auto-gc" : "no-auto-gc") + (r.grows ? "+grown" : "") + (r.explicit_gc ? "+explicit-gc" : ""));
        if (pattern == 0 && mix == 3) benum::sample(job + ": fill 1 MiB buffer, remove every 2nd handle, add -> " + num(r.auto_gc) + " automatic collections with live handles, all " + num(r.m.live) + " live handles compared");
    }
    return complete;
}

// ------------------------------------------------------------------------------------------------
// jobs
struct Job {
    std::string name, area; bool asan; int cost;
    std::function<bool(const Args&, benum::Violations&)> run;
    std::function<void(const Args&, const std::string&, benum::Violations&)> replay;
};

template <class Sys>
static Job bfs_job(const std::string& name, const std::string& area, bool asan, int cost, std::shared_ptr<Sys> sys, unsigned depth, const std::string& what) {
    Job j; j.name = name; j.area = area; j.asan = asan; j.cost = cost;
    j.run = [=](const Args& a, benum::Violations& V) { return bfs(a, *sys, name, depth, V, what); };
    j.replay = [=](const Args&, const std::string& payload, benum::Violations& V) { replay_history(*sys, name, ops_parse(payload), V, true); };
    return j;
}

template <class T, std::size_t CB>
static Job dense_job(const char* tn, std::vector<T> ids, bool two, bool asan, int cost) {
    std::string al;
    for (T v : ids) al += (al.empty() ? "" : ",") + num(v);
    std::string name = std::string("dense/") + tn + "/cb" + num(CB) + (two ? "/2reg/" : "/1reg/") + num(ids.size()) + "ids-max" + num(*std::max_element(ids.begin(), ids.end()));
    std::string what = std::string("IdSetDense<") + tn + "," + num(CB) + "> " + (two ? "two registers" : "one register") + ", set/unset/check_and_set over ids {" + al + "} + clear/copy/assign" + (two ? "/swap/move" : "");
    return bfs_job(name, "idset-dense", asan, cost, std::make_shared<DenseSys<T, CB>>(ids, two), 0, what);
}

template <class T>
static Job small_job(const char* tn, std::vector<T> ids, unsigned depth, int cost) {
    std::vector<std::vector<T>> others = {{}, {ids[1]}, {ids[0], ids[2]}, {ids[1], ids.back()}, std::vector<T>(ids.begin(), ids.end())};
    for (auto& o : others) std::sort(o.begin(), o.end());
    std::string name = std::string("small/") + tn + "/" + num(ids.size()) + "ids/d" + num(depth);
    return bfs_job(name, "idset-small", true, cost, std::make_shared<SmallSys<T>>(ids, others), depth, std::string("IdSetSmall<") + tn + "> set x " + num(ids.size()) + " ids/sort_unique/clear/copy/assign/merge_sorted x 5");
}

static Job stash_job(std::vector<int> sh, unsigned depth, int cost, bool asan = true) {
    std::string s;
    for (int x : sh) s += num(x);
    return bfs_job("stash/bfs/shapes" + s + "/d" + num(depth), "item-stash", asan, cost, std::make_shared<StashSys>(sh), depth, "ItemStash add_item x " + num(sh.size()) + " shapes/remove_item/garbage_collect/clear");
}

static Job long_job(size_t p, size_t mix, int cost) {
    Job j; j.name = std::string("stashlong/") + long_patterns()[p].name + "/mix" + num(mix); j.area = "item-stash"; j.asan = true; j.cost = cost;
    const std::string name = j.name;
    j.run = [=](const Args& a, benum::Violations& V) { return run_long(a, name, p, mix, 0, V); };
    j.replay = [=](const Args& a, const std::string& payload, benum::Violations& V) { run_long(a, name, p, mix, strtoull(payload.c_str(), nullptr, 10), V); };
    return j;
}

static std::vector<Job> make_jobs(bool thorough) {
    using u32 = uint32_t; using u64 = uint64_t;
    const u32 M32 = 0xffffffffu; const u64 P32 = 1ull << 32;
    std::vector<Job> J;
    // Within one tier no job's transition system contains another's (no alphabet of the same container type, chunk size and
    // register count is a subset of another), so the per-job state counts add up without counting a state twice.
    // chunk_bits=1: 16 ids per chunk, chunk_bits=2: 32 ids per chunk (boundaries dense)
    J.push_back(dense_job<u32, 1>("u32", {0, 7, 8, 15, 16, 17, 31, 32, 4095, 4096}, false, true, 3));
    J.push_back(dense_job<u32, 2>("u32", {0, 7, 8, 31, 32, 33, 63, 64, 8191, 8192}, false, true, 3));
    J.push_back(dense_job<u64, 2>("u64", {0, 7, 8, 31, 32, 33, 63, 64, 8191, 8192}, false, true, 3));
    // chunk_bits=13: 65536 ids per chunk, the end of the uint32 id range is reachable with a 64Ki-entry chunk table
    J.push_back(dense_job<u32, 13>("u32", {0, 7, 65535, 65536, 1u << 31, M32 - 65536, M32 - 65535, M32 - 16, M32}, false, false, 8));
    if (!thorough) {
        J.push_back(dense_job<u64, 1>("u64", {0, 7, 8, 15, 16, 17, 31, 32, 65535, 65536}, false, true, 3));
        J.push_back(dense_job<u32, 1>("u32", {0, 15, 16, 31, 32}, true, true, 3));
        J.push_back(dense_job<u64, 2>("u64", {0, 31, 32, 63, 64}, true, true, 3));
        J.push_back(dense_job<u64, 13>("u64", {0, 65535, 65536, P32 - 1, P32, P32 + 1}, false, false, 2));
        // default chunk_bits=22: 2^25 ids per 4 MiB chunk
        J.push_back(dense_job<u32, 22>("u32", {0, (1u << 25) - 1, 1u << 25, M32}, false, false, 10));
        J.push_back(dense_job<u64, 22>("u64", {(1u << 25) - 1, P32 - 1, P32}, false, false, 8));
    } else {
        J.push_back(dense_job<u64, 1>("u64", {0, 7, 8, 15, 16, 17, 31, 32, 1048575, 1048576}, false, true, 8));
        J.push_back(dense_job<u32, 1>("u32", {0, 7, 8, 15, 16, 17, 31, 32}, true, false, 12));
        J.push_back(dense_job<u64, 2>("u64", {0, 7, 31, 32, 33, 63, 64}, true, true, 6));
        J.push_back(dense_job<u64, 13>("u64", {0, 7, 65535, 65536, P32 - 1, P32, P32 + 1, 1ull << 36}, false, false, 80));
        J.push_back(dense_job<u32, 13>("u32", {0, M32 - 65536, M32 - 65535, M32}, true, false, 25));
        J.push_back(dense_job<u32, 22>("u32", {0, 7, (1u << 25) - 1, 1u << 25, 1u << 31, M32 - (1u << 25) + 1, M32}, false, false, 100));
        J.push_back(dense_job<u64, 22>("u64", {(1u << 25) - 1, P32 - 1, P32, P32 + 1, 1ull << 40}, false, false, 100));
    }
    J.push_back(small_job<u32>("u32", {0, 1, 5, M32 - 1, M32}, thorough ? 8 : 6, thorough ? 3 : 2));
    J.push_back(small_job<u64>("u64", {0, 1, P32 - 1, P32, ~0ull}, thorough ? 8 : 6, thorough ? 3 : 2));
    J.push_back(bfs_job("nwr/dense-u32-cb1", "nwr-array", true, 1, std::make_shared<NwrSys>(), 0, "nwr_array<IdSetDense<uint32_t,1>> set/unset over ids {0,16} and clear on each of node/way/relation"));
    // disjoint shape sets (only the empty stash is common to the three systems)
    J.push_back(stash_job({0, 1, 2}, thorough ? 9 : 7, thorough ? 20 : 5));
    J.push_back(stash_job({3, 5}, thorough ? 10 : 8, thorough ? 20 : 3));
    // A stand-alone TagList (shape 4, not an OSMEntity) is NOT stashed: garbage_collect() is Buffer::purge_removed(), which is defined
    // over OSM entities only, and the property speaks about OSM items - what happens to a bare sub-item list is left open.
    J.push_back(stash_job({6}, thorough ? 9 : 7, thorough ? 5 : 2, false));
    const size_t np = long_patterns().size();
    for (size_t p = 0; p < np; ++p) {
        const bool big = std::string(long_patterns()[p].name) == "five-million-removed";
        if (big && !thorough) continue;
        for (size_t mix = 0; mix < long_mixes().size(); ++mix) {
            if (big && mix != 0) continue;
            if (!thorough && !(mix == (p % 3) || mix == 3)) continue;     // quick: two item mixes per pattern
            J.push_back(long_job(p, mix, big ? 60 : thorough ? 10 : 4));
        }
    }
    return J;
}

// ------------------------------------------------------------------------------------------------
// RelationsMapStash
struct RelCfg {
    std::vector<uint64_t> ids; unsigned maxlen; std::vector<uint64_t> probes;
    std::vector<bool> in_other; unsigned other_len = 0;      // histories of <= other_len adds over these ids belong to another configuration of the tier
    RelCfg(std::vector<uint64_t> i, unsigned m, std::vector<uint64_t> other = {}, unsigned olen = 0) : ids(std::move(i)), maxlen(m), other_len(olen) {
        for (uint64_t v : ids) in_other.push_back(std::find(other.begin(), other.end(), v) != other.end());
        std::set<uint64_t> ps(ids.begin(), ids.end());      // looked-up ids: the alphabet, neighbours, the same low 32 bits with other high bits
        for (uint64_t v : ids) { ps.insert(v + 1); ps.insert(v - 1); ps.insert(v ^ (1ull << 32)); ps.insert(v + (1ull << 33)); }
        ps.insert(0); ps.insert(3); ps.insert(~0ull);
        probes.assign(ps.begin(), ps.end());
    }
};
using PairSet = std::set<std::pair<uint64_t, uint64_t>>;
static const uint64_t MAX32 = 0xffffffffull;

static std::string rel_class(const std::vector<std::pair<uint64_t, uint64_t>>& h) {
    bool s = false, l = false;
    for (auto& p : h) { if (p.first <= MAX32 && p.second <= MAX32) s = true; else l = true; }
    return s && l ? "mixed-32-and-64-bit-pairs" : l ? "only-64-bit-pairs" : s ? "only-32-bit-pairs" : "empty";
}

// index must answer exactly with the recorded pairs, each once. dir: 0 = member->parents, 1 = parent->members
static void check_index(const osmium::index::RelationsMapIndex& idx, const PairSet& pairs, int dir, const std::vector<uint64_t>& probes, const std::string& builder, const std::string& hc, Rep& rep) {
    if (idx.size() != pairs.size()) rep.fail("relmap/" + builder + "/index-size-differs-from-distinct-pairs/" + hc, "size()=" + num(idx.size()) + " distinct recorded pairs " + num(pairs.size()));
    if (idx.empty() != pairs.empty()) rep.fail("relmap/" + builder + "/index-empty-differs/" + hc, "");
    for (uint64_t q : probes) {
        std::vector<uint64_t> got, want;
        idx.for_each(q, [&](osmium::unsigned_object_id_type v) { got.push_back(v); });
        std::sort(got.begin(), got.end());
        for (auto& p : pairs) if ((dir == 0 ? p.first : p.second) == q) want.push_back(dir == 0 ? p.second : p.first);
        std::sort(want.begin(), want.end());
        if (got == want) { if (!want.empty()) ++C["relmap_nonempty_lookups"]; continue; }
        std::string g, w;
        for (auto v : got) g += num(v) + " ";
        for (auto v : want) w += num(v) + " ";
        const std::string d = std::string(dir == 0 ? "member" : "parent") + " id " + num(q) + ": for_each gave [ " + g + "] recorded [ " + w + "]";
        std::vector<uint64_t> u = got; u.erase(std::unique(u.begin(), u.end()), u.end());
        if (u == want) { rep.fail("relmap/" + builder + "/lookup-returns-duplicates/" + hc, d); continue; }
        bool extra = false;
        for (auto v : u) if (!std::binary_search(want.begin(), want.end(), v)) extra = true;
        if (extra && q > MAX32 && idx.m_small) {
            // one class for all builders: an index holding only 32 bit ids is asked for an id >= 2^32
            rep.fail("relmap/lookup-returns-pairs-of-another-id/id>=2^32-asked-of-32-bit-index", d + " (the index stores 32 bit keys; the lookup key is narrowed to " + num(q & MAX32) + ")");
            continue;
        }
        rep.fail("relmap/" + builder + (extra ? "/lookup-returns-unrecorded-pairs/" : "/lookup-misses-recorded-pairs/") + hc, d);
    }
}

static void rel_history(const RelCfg& cfg, const std::string& job, const std::vector<uint8_t>& h, benum::Violations& V, std::unordered_set<std::string>* seen, const Args* shard) {
    const size_t k = cfg.ids.size();
    std::vector<std::pair<uint64_t, uint64_t>> pairs;
    for (uint8_t o : h) pairs.emplace_back(cfg.ids[o / k], cfg.ids[o % k]);
    const std::string hc = rel_class(pairs);
    Rep rep{V, job + "|" + ops_str(h), [&]() { std::string s; for (auto& p : pairs) s += "add(member " + num(p.first) + ", parent " + num(p.second) + "); "; return s + "build"; }};
    auto fill = [&](osmium::index::RelationsMapStash& st, bool check) {
        size_t n32 = 0, n64 = 0;
        for (auto& p : pairs) {
            st.add(p.first, p.second);
            if (!check) continue;
            (p.first <= MAX32 && p.second <= MAX32 ? n32 : n64)++;
            if (st.size() != n32 + n64 || st.empty()) rep.fail("relmap/stash-size-differs-from-number-of-adds/" + hc, "size()=" + num(st.size()) + " after " + num(n32 + n64) + " adds");
            if (st.sizes() != std::make_pair(n32, n64)) rep.fail("relmap/stash-32-64-split-differs/" + hc, "sizes()=(" + num(st.sizes().first) + "," + num(st.sizes().second) + ") expected (" + num(n32) + "," + num(n64) + ")");
        }
    };
    std::string key;
    {
        osmium::index::RelationsMapStash st;
        if (!st.empty() || st.size() != 0) rep.fail("relmap/fresh-stash-not-empty", "");
        fill(st, true);
        for (const auto& e : st.m_map32.m_map) key += num(e.key) + ">" + num(e.value) + ",";
        key += "|";
        for (const auto& e : st.m_map64.m_map) key += num(e.key) + ">" + num(e.value) + ",";
    }
    if (shard) {
        if (std::hash<std::string>{}(key) % shard->nshards != shard->shard) return;      // another shard owns this state
        ++C["relmap_histories_reaching_owned_states"];
        if (!seen->insert(key).second) return;
        ++C["states"];
    }
    mark(rep.spec);
    PairSet model(pairs.begin(), pairs.end());
    const std::vector<uint64_t>& probes = cfg.probes;
    if (seen && (seen->size() == 50 || seen->size() == 5000)) benum::sample(job + ": " + rep.pretty() + " x {member_to_parent, parent_to_member, both}; " + num(probes.size()) + " ids looked up in each index");
    { osmium::index::RelationsMapStash st; fill(st, false); const auto idx = st.build_member_to_parent_index(); check_index(idx, model, 0, probes, "build_member_to_parent_index", hc, rep); }
    { osmium::index::RelationsMapStash st; fill(st, false); const auto idx = st.build_parent_to_member_index(); check_index(idx, model, 1, probes, "build_parent_to_member_index", hc, rep); }
    {
        osmium::index::RelationsMapStash st; fill(st, false);
        const auto both = st.build_indexes();
        check_index(both.member_to_parent(), model, 0, probes, "build_indexes", hc, rep);
        check_index(both.parent_to_member(), model, 1, probes, "build_indexes", hc, rep);
        if (both.size() != model.size() || both.empty() != model.empty()) rep.fail("relmap/build_indexes/indexes-size-differs-from-distinct-pairs/" + hc, "size()=" + num(both.size()));
    }
    C["transitions"] += 3 + (h.empty() ? 0 : 1); C["traces_validated_against_impl"] += 3; C["evaluations"] += 3;
    if (!pairs.empty()) C["distinct_nontrivial"] += 3;
    benum::setv("relmap_history_classes", hc + (model.size() != pairs.size() ? "+duplicates" : ""));
}

static std::vector<std::pair<std::string, RelCfg>> rel_cfgs(bool thorough) {
    const uint64_t P32 = 1ull << 32;
    std::vector<std::pair<std::string, RelCfg>> v;
    const std::vector<uint64_t> five = {1, 2, P32 - 1, P32, P32 + 1}, seven = {0, 1, 2, P32 - 1, P32, P32 + 1, ~0ull};
    if (!thorough) {
        v.emplace_back("relmap/5ids/len4", RelCfg(five, 4));
        v.emplace_back("relmap/7ids/len3", RelCfg(seven, 3, five, 4));
    } else {
        v.emplace_back("relmap/5ids/len5", RelCfg(five, 5));
        v.emplace_back("relmap/7ids/len4", RelCfg(seven, 4, five, 5));
    }
    return v;
}

static void part_relmap(const Args& a) {
    for (auto& nc : rel_cfgs(a.thorough)) {
        const std::string job = nc.first; const RelCfg cfg = nc.second;
        bool complete = true;
        bool ok = isolated("relmap", [&]() {
            benum::Violations V;
            std::unordered_set<std::string> seen;
            const size_t P = cfg.ids.size() * cfg.ids.size();
            uint64_t n = 0;
            for (unsigned len = 0; len <= cfg.maxlen && complete; ++len) {
                std::vector<uint8_t> h(len, 0);
                const uint64_t total = benum::ipow(P, len);
                for (uint64_t r = 0; r < total; ++r) {
                    uint64_t x = r;
                    bool covered = len <= cfg.other_len;
                    for (unsigned i = 0; i < len; ++i) { h[i] = static_cast<uint8_t>(x % P); x /= P; if (!cfg.in_other[h[i] / cfg.ids.size()] || !cfg.in_other[h[i] % cfg.ids.size()]) covered = false; }
                    if (covered && cfg.other_len) continue;          // explored by the other configuration of this tier
                    if ((++n & 4095) == 0) { cell->beats = cell->beats + 1; if (a.expired()) { complete = false; break; } }
                    rel_history(cfg, job, h, V, &seen, &a);
                }
            }
            benum::bound(job + ": every sequence of <= " + num(cfg.maxlen) + " add(member, parent) over " + num(cfg.ids.size()) + " ids" + (cfg.other_len ? " (minus those of the 5-id configuration)" : "") + ", states partitioned by hash, x 3 index builders", complete);
        });
        if (!ok) benum::bound(job + ": aborted by a crash", false);
    }
}

// ------------------------------------------------------------------------------------------------
static void part_jobs(const Args& a, bool asan_subset) {
    std::vector<Job> J = make_jobs(a.thorough);
    if (asan_subset) { std::vector<Job> K; for (auto& j : J) if (j.asan && (!g_stash_only || j.area.find("stash") != std::string::npos)) K.push_back(j); J.swap(K); }
    // expensive jobs first, then deal them out round robin
    std::stable_sort(J.begin(), J.end(), [](const Job& x, const Job& y) { return x.cost > y.cost; });
    for (size_t i = 0; i < J.size(); ++i) {
        if (!a.mine(i)) continue;
        const Job& j = J[i];
        if (a.expired()) { benum::bound(j.name + ": not started (deadline)", false); continue; }
        const auto t0 = std::chrono::steady_clock::now();
        bool ok = isolated(j.area, [&]() { benum::Violations V; j.run(a, V); });
        if (!ok) benum::bound(j.name + ": aborted by a crash" + g_build_tag, false);
        benum::note(j.name + g_build_tag + ": " + num(static_cast<int>(std::chrono::duration<double>(std::chrono::steady_clock::now() - t0).count() * 1000)) + " ms in shard " + num(a.shard));
    }
}

static int do_replay(const Args& a) {
    const std::string spec = a.replay_spec;
    const size_t bar = spec.find('|');
    if (bar == std::string::npos) { fprintf(stderr, "bad replay spec\n"); return 2; }
    const std::string name = spec.substr(0, bar), payload = spec.substr(bar + 1);
    for (bool t : {false, true}) {
        for (auto& nc : rel_cfgs(t)) if (nc.first == name) {
            isolated("relmap", [&]() { benum::Violations V; rel_history(nc.second, name, ops_parse(payload), V, nullptr, nullptr); });
            return 0;
        }
        for (auto& j : make_jobs(t)) if (j.name == name) {
            isolated(j.area, [&]() { benum::Violations V; j.replay(a, payload, V); });
            return 0;
        }
    }
    fprintf(stderr, "replay: unknown job %s\n", name.c_str());
    return 2;
}

int main(int argc, char** argv) {
    Args a = benum::parse_args(argc, argv);
    cell = static_cast<Cell*>(mmap(nullptr, sizeof(Cell), PROT_READ | PROT_WRITE, MAP_SHARED | MAP_ANONYMOUS, -1, 0));
    (void)shapes();
    if (a.replay) return do_replay(a);
    std::string part, subset;
    for (size_t i = 0; i + 1 < a.rest.size(); ++i) { if (a.rest[i] == "--part") part = a.rest[i + 1]; if (a.rest[i] == "--subset") subset = a.rest[i + 1]; }
    if (subset == "asan") g_build_tag = " [asan+assert build]";
    if (subset == "stash") { g_build_tag = " [asan+assert build, 256-byte stash buffer]"; g_stash_only = true; }
    if (part == "jobs") part_jobs(a, subset == "asan" || subset == "stash");
    else if (part == "relmap") part_relmap(a);
    else if (part == "list") { for (auto& j : make_jobs(a.thorough)) printf("%s\n", j.name.c_str()); return 0; }
    else { fprintf(stderr, "unknown part\n"); return 2; }
    if (g_build_tag.empty()) C.emit();
    else for (int i = 0; i < C.N && C.m_slots[i].name[0]; ++i) benum::cov(std::string("asan_assert_build_") + C.m_slots[i].name, C.m_slots[i].value);   // same jobs again: not added to the totals
    return 0;
}
