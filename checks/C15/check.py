"""C15 - id sets, relation maps and the item stash match their set/map models (DESIGN.md section 5, C15)."""
LEVEL = "model_checking"
RULE = ("explicit-state search over operation histories: a state is reached by replaying the history on a fresh real object, "
        "its canonical key is read from the object's private fields (chunk table + m_size; vector contents; m_map32/m_map64; "
        "m_index + counters + buffer layout), a reference model (std::set / set of pairs / handle list) is driven in lock step; "
        "return values are compared at every step and everything observable (membership of the alphabet and its neighbours, "
        "size, empty, exact ascending iteration; lookups in both directions; bytes behind every live handle, buffer fill after "
        "collection) in every state reached. IdSetDense<uint32|uint64, chunk_bits 1|2|13|22> (one and two registers, "
        "set/unset/check_and_set/clear/copy/assign/swap/move), nwr_array and IdSetSmall by BFS over canonical states (fixed "
        "point, or depth bound for the unbounded ones); RelationsMapStash: every add-sequence up to a length over 5|7 ids "
        "around 2^32, states partitioned over the shards by hash, then each of the three builders; ItemStash: BFS over 3-4 "
        "item shapes plus long scripted histories (13 removal patterns x item mixes) that make the automatic collection "
        "inside add_item run with thousands of live handles. states = distinct canonical states (plain NDEBUG build; the "
        "ASan+assert build repeats the small-chunk, IdSetSmall and ItemStash jobs and is counted under asan_assert_build_*), "
        "transitions = operations executed from explored states, traces_validated_against_impl = histories replayed on the "
        "real object (all of them). distinct_nontrivial = histories with >= 1 successful insert/remove.")
DEADLINE = {"quick": 240, "thorough": 1500}


def build(ctx):
    flags = ["-fno-access-control"]
    exes = ctx.build_many([
        dict(name="h15", sources=["h15.cpp"], flags=flags, opt="-O2", ndebug=True),
        dict(name="h15a", sources=["h15.cpp"], flags=flags, opt="-O1", asan=True, ndebug=False),
        # hook H9: ItemStash with a 256-byte initial buffer (reallocated every few insertions instead of after 1 MiB)
        dict(name="h15s", sources=["h15.cpp"], flags=flags + ["-DOSMIUM_VERIF_ITEM_STASH_BUFFER_SIZE=256"], opt="-O1", asan=True, ndebug=False),
    ])
    return {"h15": exes[0], "h15a": exes[1], "h15s": exes[2]}


def run(ctx):
    exes = build(ctx)
    if getattr(ctx, "build_only", False):
        return
    ctx.run_harness(exes["h15"], ["--part", "jobs"], shards=16)
    ctx.run_harness(exes["h15"], ["--part", "relmap"], shards=16)
    ctx.run_harness(exes["h15a"], ["--part", "jobs", "--subset", "asan"], shards=16)
    ctx.run_harness(exes["h15s"], ["--part", "jobs", "--subset", "stash"], shards=16)
    ctx.assume("IdSetSmall: size(), iteration order and get_binary_search() are only demanded exact when the documented "
               "precondition holds (after sort_unique()/merge_sorted()/clear(), or ids set in strictly ascending order; setting the "
               "same id twice in a row is a no-op as pinned by the repo test); otherwise membership, emptiness and size bounds")
    ctx.assume("ItemStash: the automatic collection is a heuristic - the oracle accepts a collection (or none) inside any add_item "
               "and only demands that handles keep resolving to unchanged bytes and that the buffer holds exactly the live bytes "
               "after a collection; moved-from IdSetDense objects are only reused after clear()")
    ctx.assume("IdSetDense ids near the end of a 64 bit id range are out of reach (the chunk table alone would need > 1 GiB); "
               "the end of the 32 bit range is covered with chunk_bits 13 and 22")
