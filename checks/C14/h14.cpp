// C14 - text-format string escaping is injective and exactly undone by the parsers.
//
// Sub-spaces (selected with --part):
//   cp     every Unicode scalar value U+0001..U+10FFFF (alone and between two hex letters) through
//          append_utf8_encoded_string -> opl_parse_string and through append_xml_encoded_string -> expat
//          (a one-attribute document and a <text> element). Contiguous failing ranges are merged into one
//          class key (each shard owns a contiguous block; a range is reported by the shard that owns its
//          first code point, which walks forward to the end of the range).
//   seq    every sequence of length 0..4 over a 22-symbol structural alphabet, same oracles, plus a complete
//          OPL relation line (user, tag key/value, member roles) through opl_parse_line.
//   long   deterministic long strings (repetitions around buffer-size boundaries, all ordered pairs, cycles).
//   writer every ordered pair of 20 strings (prefix chains, structural characters, escapes, 1-4 byte sequences) in the same string
//          slot (user, tag key, tag value, role) of two objects of one buffer through OPLOutputBlock -> opl_parse_line and
//          XMLOutputBlock -> expat (the writers handle a buffer at a time and may keep state between its objects).
//   bytes  byte strings of length 1..4 (bytes 01..ff) placed so that the terminating NUL is the last
//          addressable byte (ASan build: end of a malloc block; plain build: directly in front of a
//          PROT_NONE page) through the three escape functions in forked children:
//          no read past the NUL; std::out_of_range when the final UTF-8 sequence is cut off.
#include <benum/benum.hpp>

#include <osmium/builder/osm_object_builder.hpp>
#include <osmium/io/detail/opl_output_format.hpp>
#include <osmium/io/detail/xml_output_format.hpp>
#include <osmium/osm/changeset.hpp>
#include <osmium/io/detail/opl_parser_functions.hpp>
#include <osmium/io/detail/string_util.hpp>
#include <osmium/memory/buffer.hpp>
#include <osmium/osm/relation.hpp>

#include <expat.h>

#include <algorithm>
#include <stdexcept>
#include <string>
#include <vector>

#if defined(__SANITIZE_ADDRESS__)
# define C14_ASAN 1
#else
# define C14_ASAN 0
#endif

namespace od = osmium::io::detail;
using benum::Args;
static benum::Counters C;
static benum::Violations V;

// ------------------------------------------------------------------------------------------------
// helpers (independent of the library)
static std::string enc(uint32_t cp) {     // UTF-8 encoding of a scalar value
    std::string r;
    if (cp < 0x80) { r += static_cast<char>(cp); }
    else if (cp < 0x800) { r += static_cast<char>(0xC0 | (cp >> 6)); r += static_cast<char>(0x80 | (cp & 0x3F)); }
    else if (cp < 0x10000) { r += static_cast<char>(0xE0 | (cp >> 12)); r += static_cast<char>(0x80 | ((cp >> 6) & 0x3F)); r += static_cast<char>(0x80 | (cp & 0x3F)); }
    else { r += static_cast<char>(0xF0 | (cp >> 18)); r += static_cast<char>(0x80 | ((cp >> 12) & 0x3F)); r += static_cast<char>(0x80 | ((cp >> 6) & 0x3F)); r += static_cast<char>(0x80 | (cp & 0x3F)); }
    return r;
}
static uint32_t next_scalar(uint32_t cp) { ++cp; if (cp == 0xD800) cp = 0xE000; return cp > 0x10FFFF ? 0 : cp; }
static uint32_t prev_scalar(uint32_t cp) { --cp; if (cp == 0xDFFF) cp = 0xD7FF; return cp; }   // 0 = none
static std::string ucp(uint32_t cp) { char b[16]; snprintf(b, sizeof b, "U+%04X", cp); return b; }
static std::string show(const std::string& s) { return "hex:" + benum::hex(s); }

// ------------------------------------------------------------------------------------------------
// OPL oracle: returns "" when the property holds for s, else a canonical word for what went wrong.
static std::string eval_opl(const std::string& s, std::string& detail) {
    std::string e;
    try { od::append_utf8_encoded_string(e, s.c_str()); }
    catch (const std::exception& x) { detail = "escape of " + show(s) + " threw: " + x.what(); return "escape-throws"; }
    // (1) structural characters: outside of %hex% groups none of space , = @ % TAB LF CR may occur
    for (size_t i = 0; i < e.size();) {
        const unsigned char c = static_cast<unsigned char>(e[i]);
        if (c == '%') {
            size_t j = i + 1;
            while (j < e.size() && isxdigit(static_cast<unsigned char>(e[j]))) ++j;
            if (j - i - 1 > 8 || j >= e.size() || e[j] != '%') {
                detail = "escaped form of " + show(s) + " is '" + e + "': '%' at offset " + std::to_string(i) + " does not start a %hex% group";
                return "bare-percent-in-output";
            }
            i = j + 1;
        } else if (c == ' ' || c == ',' || c == '=' || c == '@' || c == '\t' || c == '\n' || c == '\r') {
            char b[8]; snprintf(b, sizeof b, "%02x", c);
            detail = "escaped form of " + show(s) + " is " + show(e) + ": contains structural byte 0x" + b;
            return "structural-char-in-output";
        } else {
            ++i;
        }
    }
    // (2) the library's parser must consume the whole escaped form and give back s
    std::string r;
    const char* p = e.c_str();
    try { od::opl_parse_string(&p, r); }
    catch (const std::exception& x) { detail = "escaped form of " + show(s) + " is '" + e + "': opl_parse_string threw: " + x.what(); return "parser-throws"; }
    if (p != e.c_str() + e.size()) { detail = "escaped form of " + show(s) + " is '" + e + "': parser stopped at offset " + std::to_string(p - e.c_str()); return "parser-stops-early"; }
    if (r != s) {
        detail = "escaped form of " + show(s) + " is '" + e + "' which parses to " + show(r);
        std::string e2;   // if the parse result escapes to the same text we hold a concrete collision
        try { od::append_utf8_encoded_string(e2, r.c_str()); } catch (...) { e2 = "\x01"; }
        if (e2 == e) detail += " - not injective: " + show(r) + " has the same escaped form";
        return "roundtrip-mismatch";
    }
    return "";
}

// A complete OPL line as the writer lays it out; the real line parser must split it at the right places.
static std::string eval_opl_line(const std::string& s, std::string& detail) {
    std::string e;
    try { od::append_utf8_encoded_string(e, s.c_str()); } catch (...) { return "escape-throws"; }
    const std::string line = "r17 v1 dV c1 t2015-01-01T00:00:00Z i1 u" + e + " T" + e + "=" + e + ",zk=zv Mn1@" + e + ",w2@" + e + ",r3@zr";
    osmium::memory::Buffer buffer{1024, osmium::memory::Buffer::auto_grow::yes};
    try {
        if (!od::opl_parse_line(1, line.c_str(), buffer)) { detail = "line '" + benum::clean(line) + "' not parsed"; return "line-not-parsed"; }
    } catch (const std::exception& x) { detail = "line " + show(line) + ": opl_parse_line threw: " + x.what(); return "line-parser-throws"; }
    const auto& rel = buffer.get<osmium::Relation>(0);
    std::string bad;
    if (s != rel.user()) bad = "user";
    std::vector<std::pair<std::string, std::string>> tags;
    for (const auto& t : rel.tags()) tags.emplace_back(t.key(), t.value());
    if (bad.empty() && (tags.size() != 2 || tags[0].first != s || tags[0].second != s || tags[1].first != "zk" || tags[1].second != "zv")) bad = "tags";
    std::vector<std::string> roles;
    for (const auto& m : rel.members()) roles.emplace_back(m.role());
    if (bad.empty() && (roles.size() != 3 || roles[0] != s || roles[1] != s || roles[2] != "zr")) bad = "roles";
    if (rel.id() != 17 || rel.uid() != 1) bad = "meta";
    if (!bad.empty()) { detail = "line " + show(line) + " for string " + show(s) + ": parsed " + bad + " differ"; return "line-field-mismatch(" + bad + ")"; }
    return "";
}

// ------------------------------------------------------------------------------------------------
// XML oracle: expat itself is the parser (the library's XML reader hands attribute values and character
// data of expat through unchanged).
struct XCap { std::string attr; bool got_attr = false; std::string text; };
static void XMLCALL on_start(void* u, const XML_Char*, const XML_Char** atts) {
    auto* c = static_cast<XCap*>(u);
    if (atts[0] && !c->got_attr) { c->attr = atts[1]; c->got_attr = true; }
}
static void XMLCALL on_chars(void* u, const XML_Char* s, int len) { static_cast<XCap*>(u)->text.append(s, static_cast<size_t>(len)); }

static bool expat_parse(const std::string& doc, XCap& cap, std::string& err) {
    static XML_Parser parser = XML_ParserCreate(nullptr);
    XML_ParserReset(parser, nullptr);
    XML_SetUserData(parser, &cap);
    XML_SetStartElementHandler(parser, on_start);
    XML_SetCharacterDataHandler(parser, on_chars);
    if (XML_Parse(parser, doc.data(), static_cast<int>(doc.size()), 1) == XML_STATUS_ERROR) {
        err = XML_ErrorString(XML_GetErrorCode(parser));
        return false;
    }
    return true;
}

static std::string eval_xml(const std::string& s, std::string& detail) {
    std::string e;
    try { od::append_xml_encoded_string(e, s.c_str()); }
    catch (const std::exception& x) { detail = "escape of " + show(s) + " threw: " + x.what(); return "escape-throws"; }
    // (1) no markup / quote characters, no raw TAB LF CR; '&' only as the start of a reference
    for (size_t i = 0; i < e.size();) {
        const char c = e[i];
        if (c == '&') {
            size_t j = e.find(';', i);
            const std::string name = j == std::string::npos ? "" : e.substr(i + 1, j - i - 1);
            bool ok = name == "amp" || name == "quot" || name == "apos" || name == "lt" || name == "gt";
            if (!ok && name.size() >= 2 && name[0] == '#') {
                const bool hexref = name[1] == 'x';
                ok = name.size() > (hexref ? 2u : 1u);
                for (size_t k = hexref ? 2 : 1; k < name.size(); ++k) ok = ok && (hexref ? isxdigit(static_cast<unsigned char>(name[k])) : isdigit(static_cast<unsigned char>(name[k])));
            }
            if (!ok) { detail = "escaped form of " + show(s) + " is " + show(e) + ": '&' at offset " + std::to_string(i) + " does not start a reference"; return "bare-ampersand-in-output"; }
            i = j + 1;
        } else if (c == '<' || c == '>' || c == '"' || c == '\'' || c == '\t' || c == '\n' || c == '\r') {
            char b[8]; snprintf(b, sizeof b, "%02x", static_cast<unsigned char>(c));
            detail = "escaped form of " + show(s) + " is " + show(e) + ": contains structural byte 0x" + b;
            return "structural-char-in-output";
        } else {
            ++i;
        }
    }
    // (2) attribute value and element content must come back exactly
    static const std::string decl = "<?xml version='1.0' encoding='UTF-8'?>\n";
    std::string a, t, aerr, terr;
    XCap ca, ct;
    if (!expat_parse(decl + "<tag k=\"" + e + "\"/>", ca, aerr)) a = "rejected-by-expat";
    else if (!ca.got_attr || ca.attr != s) a = "value-mismatch";
    if (!expat_parse(decl + "<text>" + e + "</text>", ct, terr)) t = "rejected-by-expat";
    else if (ct.text != s) t = "value-mismatch";
    if (a.empty() && t.empty()) return "";
    detail = "escaped form of " + show(s) + " is " + show(e) + ";";
    if (!a.empty()) detail += " as attribute value: " + (a == "value-mismatch" ? "parsed " + show(ca.attr) : "expat: " + aerr) + ";";
    if (!t.empty()) detail += " as <text> content: " + (t == "value-mismatch" ? "parsed " + show(ct.text) : "expat: " + terr) + ";";
    if (a == t) return a + "(attr+text)";
    if (t.empty()) return a + "(attr)";
    if (a.empty()) return t + "(text)";
    return a + "(attr)+" + t + "(text)";
}

static const char* const FMT[2] = {"opl", "xml"};
static std::string eval_fmt(int fmt, const std::string& s, std::string& detail) { return fmt == 0 ? eval_opl(s, detail) : eval_xml(s, detail); }

// ------------------------------------------------------------------------------------------------
// part cp
static std::string eval_cp(int fmt, uint32_t cp, std::string& detail) {
    const std::string s = enc(cp);
    std::string k = eval_fmt(fmt, s, detail);
    if (!k.empty()) return k;
    k = eval_fmt(fmt, "a" + s + "f", detail);       // hex letters directly around the (possibly escaped) character
    if (!k.empty()) return k + "(between-letters)";
    return "";
}

// the maximal range of scalar values around lo that fail with the same word; "" if lo does not start one
static std::string range_key(int fmt, uint32_t lo, uint32_t& hi, std::string& detail) {
    const std::string kind = eval_cp(fmt, lo, detail);
    hi = lo;
    if (kind.empty()) return "";
    std::string d2;
    const uint32_t p = prev_scalar(lo);
    if (p && eval_cp(fmt, p, d2) == kind) return "";      // not the first of its range
    for (uint32_t n; (n = next_scalar(hi)) && eval_cp(fmt, n, d2) == kind;) hi = n;
    return std::string(FMT[fmt]) + "/" + kind + "/" + ucp(lo) + (hi != lo ? ".." + ucp(hi) : "");
}

static void report_cp_range(int fmt, uint32_t lo) {
    uint32_t hi; std::string detail;
    const std::string key = range_key(fmt, lo, hi, detail);
    if (key.empty()) return;
    V.report(key, (hi != lo ? "every scalar value " + ucp(lo) + ".." + ucp(hi) + " fails this way; first: " : "") + detail, std::string("cp:") + FMT[fmt] + ":" + std::to_string(lo));
}

static void part_cp(const Args& a) {
    uint64_t& evals = C["evaluations"]; uint64_t& nontriv = C["distinct_nontrivial"];
    uint64_t& escaped_opl = C["cp_escaped_by_opl"]; uint64_t& escaped_xml = C["cp_escaped_by_xml"];
    uint64_t& failing = C["cp_failing"]; uint64_t& scalars = C["cp_scalar_values"];
    const uint64_t span = 0x110000ull - 1;
    const uint32_t lo = static_cast<uint32_t>(1 + span * a.shard / a.nshards), hi = static_cast<uint32_t>(1 + span * (a.shard + 1) / a.nshards);
    bool complete = true;
    for (int fmt = 0; fmt < 2 && complete; ++fmt) {
        std::string last; bool have_last = false;
        for (uint32_t cp = lo; cp < hi; ++cp) {
            if (cp >= 0xD800 && cp <= 0xDFFF) continue;
            if ((cp & 0xfff) == 0 && a.expired()) { complete = false; break; }
            std::string detail;
            const std::string kind = eval_cp(fmt, cp, detail);
            ++evals;
            if (fmt == 0) {     // distinct by construction; non-trivial = at least one of the escapers changes it
                ++scalars;
                std::string e1, e2; const std::string s = enc(cp);
                try { od::append_utf8_encoded_string(e1, s.c_str()); } catch (...) {}
                try { od::append_xml_encoded_string(e2, s.c_str()); } catch (...) {}
                if (e1 != s) ++escaped_opl;
                if (e2 != s) ++escaped_xml;
                if (e1 != s || e2 != s) ++nontriv;
            }
            if (!kind.empty()) {
                ++failing;
                if (!have_last) { std::string d2; const uint32_t p = prev_scalar(cp); last = p ? eval_cp(fmt, p, d2) : ""; }
                if (last != kind) report_cp_range(fmt, cp);
            }
            last = kind; have_last = true;
        }
    }
    benum::bound("every Unicode scalar value U+0001..U+10FFFF, alone and between two hex letters, through the OPL and the XML escaper and parser", complete);
    if (a.shard == 0) {
        std::string e;
        try { od::append_utf8_encoded_string(e, enc(0x30dc).c_str()); } catch (...) { e = "(throws)"; }
        benum::sample("cp: U+30DC -> OPL '" + e + "' -> opl_parse_string -> U+30DC; U+0026 -> XML '&amp;' -> expat attribute and <text> -> '&'");
    }
}

// ------------------------------------------------------------------------------------------------
// part seq / long: structural alphabet
struct Sym { const char* name; uint32_t cp; };
static const Sym SYMS[] = {
    {"SP", ' '}, {"COMMA", ','}, {"EQ", '='}, {"AT", '@'}, {"PCT", '%'}, {"LF", '\n'}, {"CR", '\r'}, {"TAB", '\t'},
    {"DQ", '"'}, {"SQ", '\''}, {"LT", '<'}, {"GT", '>'}, {"AMP", '&'}, {"a", 'a'},
    {"U+00A0", 0xA0}, {"U+05FF", 0x5FF}, {"U+0600", 0x600}, {"U+FFFF", 0xFFFF}, {"U+10000", 0x10000}, {"U+100000", 0x100000},
    {"U+FFFD", 0xFFFD}, {"U+FFFFF", 0xFFFFF}};
static const unsigned NSYM = sizeof(SYMS) / sizeof(SYMS[0]);
static bool g_badsym[2][NSYM];     // symbol fails on its own in that format (reported by part cp) -> not used in sequences

static void init_badsyms() {
    for (int fmt = 0; fmt < 2; ++fmt) for (unsigned i = 0; i < NSYM; ++i) { std::string d; g_badsym[fmt][i] = !eval_cp(fmt, SYMS[i].cp, d).empty(); }
}
static std::string seq_string(const std::vector<unsigned>& idx) { std::string s; for (unsigned i : idx) s += enc(SYMS[i].cp); return s; }
static std::string seq_names(const std::vector<unsigned>& idx) { std::string s; for (unsigned i : idx) { if (!s.empty()) s += "+"; s += SYMS[i].name; } return s.empty() ? "EMPTY" : s; }
static std::string seq_spec(const std::vector<unsigned>& idx) { std::string s; for (unsigned i : idx) { if (!s.empty()) s += ","; s += std::to_string(i); } return s; }

static std::string eval_seq(int fmt, const std::string& s, std::string& detail) {
    std::string k = eval_fmt(fmt, s, detail);
    if (k.empty() && fmt == 0) k = eval_opl_line(s, detail);
    return k;
}

// one sequence, one format: report only minimal failing sequences (no proper contiguous part fails), which
// (the empty string included) makes the class key independent of sharding and enumeration order
static int check_seq(int fmt, const std::vector<unsigned>& idx) {
    for (unsigned i : idx) if (g_badsym[fmt][i]) return 2;
    std::string detail;
    const std::string kind = eval_seq(fmt, seq_string(idx), detail);
    if (kind.empty()) return 0;
    for (size_t len = 0; len < idx.size(); ++len) for (size_t st = 0; st + len <= idx.size() && (len > 0 || st == 0); ++st) {
        std::string d2;
        if (!eval_seq(fmt, seq_string(std::vector<unsigned>(idx.begin() + st, idx.begin() + st + len)), d2).empty()) return 1;
    }
    V.report(std::string(FMT[fmt]) + "-seq/" + kind + "/" + seq_names(idx), detail, std::string("seq:") + FMT[fmt] + ":" + seq_spec(idx));
    return 1;
}

static void part_seq(const Args& a) {
    init_badsyms();
    uint64_t& evals = C["evaluations"]; uint64_t& nontriv = C["distinct_nontrivial"];
    uint64_t& skipped = C["seq_skipped_contains_individually_failing_symbol"]; uint64_t& failing = C["seq_failing"];
    uint64_t rank = 0;
    for (unsigned len = 0; len <= (a.thorough ? 5u : 4u); ++len) {
        const uint64_t total = benum::ipow(NSYM, len);
        bool complete = true;
        for (uint64_t r = 0; r < total; ++r, ++rank) {
            if (!a.mine(rank)) continue;
            if ((r & 0x3ff) == 0 && a.expired()) { complete = false; break; }
            std::vector<unsigned> idx(len);
            uint64_t x = r; bool structural = false;
            for (unsigned i = 0; i < len; ++i) { idx[i] = x % NSYM; x /= NSYM; structural = structural || idx[i] != 13; }
            for (int fmt = 0; fmt < 2; ++fmt) {
                const int res = check_seq(fmt, idx);
                if (res == 2) { ++skipped; continue; }
                ++evals;
                if (res == 1) ++failing;
                if (fmt == 0 && structural) ++nontriv;   // distinct by construction; non-trivial = not only the letter 'a'
            }
        }
        benum::bound("sequences of length " + std::to_string(len) + " over the " + std::to_string(NSYM) + "-symbol structural alphabet, OPL (function and whole line) and XML (attribute and text)", complete);
    }
    if (a.shard == 0) {
        std::string names; for (unsigned i = 0; i < NSYM; ++i) names += std::string(i ? " " : "") + SYMS[i].name + (g_badsym[0][i] ? "[fails alone in opl]" : "") + (g_badsym[1][i] ? "[fails alone in xml]" : "");
        benum::note("alphabet: " + names);
        std::string e1, e2; const std::string s = "%=\n\"";
        try { od::append_utf8_encoded_string(e1, s.c_str()); od::append_xml_encoded_string(e2, s.c_str()); } catch (...) { e1 += "(throws)"; }
        benum::sample("seq: PCT+EQ+LF+DQ -> OPL '" + e1 + "' (also as user, tag key, tag value and member role of a relation line), XML '" + e2 + "'");
    }
}

// long strings: family name + parameter
static std::string long_string(int fmt, const std::string& family, unsigned sym, unsigned n) {
    std::vector<unsigned> good;
    for (unsigned i = 0; i < NSYM; ++i) if (!g_badsym[fmt][i]) good.push_back(i);
    std::string s;
    if (good.empty()) return s;
    if (family == "rep") { for (unsigned i = 0; i < n; ++i) s += enc(SYMS[sym].cp); }
    else if (family == "allpairs") { for (unsigned i : good) for (unsigned j : good) { s += enc(SYMS[i].cp); s += enc(SYMS[j].cp); } }
    else if (family == "cycle") { for (unsigned i = 0; i < n; ++i) s += enc(SYMS[good[(i * 7 + i / good.size()) % good.size()]].cp); }
    return s;
}
static void check_long(int fmt, const std::string& family, unsigned sym, unsigned n) {
    if (family == "rep" && g_badsym[fmt][sym]) return;
    std::string detail;
    const std::string s = long_string(fmt, family, sym, n);
    const std::string kind = eval_fmt(fmt, s, detail);
    ++C["evaluations"]; ++C["distinct_nontrivial"];
    if (kind.empty()) return;
    if (detail.size() > 600) detail = detail.substr(0, 600) + "...";
    V.report(std::string(FMT[fmt]) + "-long/" + kind + "/" + family + (family == "rep" ? std::string(":") + SYMS[sym].name : ""),
             "string of " + std::to_string(s.size()) + " bytes (n=" + std::to_string(n) + "): " + detail,
             std::string("long:") + FMT[fmt] + ":" + family + ":" + std::to_string(sym) + ":" + std::to_string(n));
}
static void part_long(const Args& a) {
    init_badsyms();
    static const unsigned reps[] = {5, 6, 7, 8, 13, 14, 15, 16, 17, 23, 24, 25, 31, 32, 33, 63, 64, 65, 99, 100, 101, 127, 128, 129, 255, 256, 257, 1000, 4095, 4096, 4097, 65535, 65536};
    uint64_t rank = 0;
    for (int fmt = 0; fmt < 2; ++fmt) {
        for (unsigned sym = 0; sym < NSYM; ++sym) for (unsigned n : reps) if (a.mine(rank++)) check_long(fmt, "rep", sym, n);
        if (a.mine(rank++)) check_long(fmt, "allpairs", 0, 0);
        for (unsigned n : {100u, 1000u, 10000u, 65536u, 1000000u}) if (a.mine(rank++)) check_long(fmt, "cycle", 0, n);
    }
    benum::bound("long strings: each alphabet symbol repeated n times for 33 lengths around 8/16/32/64/100/128/256/4096/65536; all ordered pairs concatenated; 5 cyclic mixtures up to 10^6 symbols", true);
    if (a.shard == 0) benum::sample("long: 'PCT' x 257, all 22x22 ordered symbol pairs in one string, 10^6-symbol cyclic mixture");
}

// ------------------------------------------------------------------------------------------------
// part bytes: arbitrary byte strings. Reference model of what the statement demands:
//   walk the string by lead-byte class (1/2/3/4 bytes; 80..bf and f8..ff cannot start a sequence);
//   - a sequence that needs more bytes than are left  -> an exception is required; std::out_of_range exactly when
//     everything before it is well-formed UTF-8 and the cut-off part is a proper prefix of a well-formed sequence
//     (otherwise a stricter decoder could legitimately complain about something else first: any exception accepted)
//   - a byte that cannot start a sequence              -> open (the statement does not speak about it; counted)
//   - otherwise, if every sequence is well-formed UTF-8 of a scalar value -> must return normally
//   - complete but ill-formed (bad continuation, overlong, surrogate, > U+10FFFF) -> open
//   The XML escaper works byte-wise and never decodes: only the no-over-read demand applies to it here (its outcomes are
//   counted; what it does with well-formed strings is judged by the round-trip parts).
enum Expect { RET = 0, THROW_OOR = 1, THROW_ANY = 2, OPEN = 3 };
static inline int lead_len(uint8_t b) { return b < 0x80 ? 1 : b < 0xC0 ? 0 : b < 0xE0 ? 2 : b < 0xF0 ? 3 : b < 0xF8 ? 4 : 0; }
static inline bool cont(uint8_t b) { return (b & 0xC0) == 0x80; }
// Unicode 15 table 3-7, for the first m bytes of a sequence announced as L bytes long (m == L: whole sequence)
static bool wf_prefix(const uint8_t* p, int L, int m) {
    if (L == 1) return true;
    if (L == 2 && p[0] < 0xC2) return false;
    if (L == 4 && p[0] > 0xF4) return false;
    if (m >= 2) {
        uint8_t lo = 0x80, hi = 0xBF;
        if (p[0] == 0xE0) lo = 0xA0; else if (p[0] == 0xED) hi = 0x9F; else if (p[0] == 0xF0) lo = 0x90; else if (p[0] == 0xF4) hi = 0x8F;
        if (p[1] < lo || p[1] > hi) return false;
    }
    for (int i = 2; i < m; ++i) if (!cont(p[i])) return false;
    return true;
}
struct Model { Expect e; int stop; };   // stop: offset of the sequence the verdict is about (0 when the whole string is)
static Model model(const uint8_t* s, int n) {
    bool wf = true;
    for (int i = 0; i < n;) {
        const int L = lead_len(s[i]);
        if (L == 0) return {OPEN, i};
        if (i + L > n) return {wf && wf_prefix(s + i, L, n - i) ? THROW_OOR : THROW_ANY, i};
        if (!wf_prefix(s + i, L, L)) wf = false;
        i += L;
    }
    return {wf ? RET : OPEN, 0};
}
static std::string byte_pattern(const uint8_t* s, int n) {   // canonical input class: byte classes of the decisive part
    std::string r;
    for (int i = 0; i < n; ++i) {
        const uint8_t b = s[i];
        if (i) r += ".";
        r += b < 0x80 ? "A" : b < 0xC0 ? "C" : b < 0xC2 ? "l2" : b < 0xE0 ? "L2" : b < 0xF0 ? "L3" : b < 0xF5 ? "L4" : b < 0xF8 ? "l4" : "X";
    }
    return r;
}

static const char* const FN[3] = {"opl", "debug", "xml"};
static const char* const OUTCOME[5] = {"returns", "out_of_range", "runtime_error", "other-std-exception", "unknown-exception"};
static int call_fn(int fn, std::string& out, const char* p) {
    out.clear();
    try {
        if (fn == 0) od::append_utf8_encoded_string(out, p);
        else if (fn == 1) od::append_debug_encoded_string(out, p, "[", "]");
        else od::append_xml_encoded_string(out, p);
        return 0;
    }
    catch (const std::out_of_range&) { return 1; }
    catch (const std::runtime_error&) { return 2; }
    catch (const std::exception&) { return 3; }
    catch (...) { return 4; }
}

// where the string lives: the NUL is the last byte that may be read
struct Slots {
    char* end[5];     // end[n] = one past the NUL of the slot for strings of length n
    Slots() {
#if C14_ASAN
        for (int n = 0; n <= 4; ++n) end[n] = static_cast<char*>(malloc(static_cast<size_t>(n) + 1)) + n + 1;
#else
        const long pg = sysconf(_SC_PAGESIZE);
        for (int n = 0; n <= 4; ++n) {
            char* m = static_cast<char*>(mmap(nullptr, static_cast<size_t>(2 * pg), PROT_READ | PROT_WRITE, MAP_PRIVATE | MAP_ANONYMOUS, -1, 0));
            if (m == MAP_FAILED || mprotect(m + pg, static_cast<size_t>(pg), PROT_NONE) != 0) { perror("guard page"); _exit(3); }
            end[n] = m + pg;
        }
#endif
    }
    char* put(const uint8_t* s, int n) const { char* p = end[n] - n - 1; memcpy(p, s, static_cast<size_t>(n)); p[n] = 0; return p; }
};

struct Cur { volatile uint32_t fn, len; volatile uint8_t b[4]; volatile uint64_t k; };   // the case in flight, visible to the parent
static Cur* g_cur = nullptr;

struct ByteCounters {
    uint64_t *evals, *nontriv, *outc[3][5], *expect[4], *xml_open;
    ByteCounters() {
        evals = &C["evaluations"]; nontriv = &C["distinct_nontrivial"];
        for (int f = 0; f < 3; ++f) for (int o = 0; o < 5; ++o) outc[f][o] = &C[(std::string("bytes_") + FN[f] + "_" + OUTCOME[o]).c_str()];
        expect[RET] = &C["bytes_model_wellformed_must_return"]; expect[THROW_OOR] = &C["bytes_model_cut_off_must_throw_out_of_range"];
        expect[THROW_ANY] = &C["bytes_model_cut_off_after_illformed_must_throw"]; expect[OPEN] = &C["bytes_model_open_illformed_or_invalid_lead"];
        xml_open = &C["bytes_xml_cut_off_sequence_passed_through_bytewise"];
    }
};

// canonical input class: for a cut-off sequence "<lead class>:<bytes present>of<bytes announced>[:C|:x]" (C = the bytes
// present after the lead are all continuation bytes, x = not), otherwise the byte classes from the decisive offset on
static std::string bytes_key(int fn, const std::string& what, const uint8_t* s, int n) {
    const Model m = model(s, n);
    std::string cls;
    if (m.e == THROW_OOR || m.e == THROW_ANY) {
        const int have = n - m.stop;
        bool allc = true; for (int i = m.stop + 1; i < n; ++i) allc = allc && cont(s[i]);
        cls = byte_pattern(s + m.stop, 1) + ":" + std::to_string(have) + "of" + std::to_string(lead_len(s[m.stop])) + (have > 1 ? (allc ? ":C" : ":x") : "");
    } else {
        cls = byte_pattern(s + m.stop, n - m.stop);
    }
    return std::string("bytes/") + FN[fn] + "/" + what + "/" + cls;
}
static std::string bytes_spec(int fn, const uint8_t* s, int n) { return std::string("bytes:") + FN[fn] + ":" + benum::hex(std::string(reinterpret_cast<const char*>(s), static_cast<size_t>(n))); }

// one byte string through the three functions; runs inside a forked child
static void check_bytes(const Slots& slots, ByteCounters& bc, const uint8_t* s, int n, std::string& out, unsigned mask) {
    const char* p = slots.put(s, n);
    const Model m = model(s, n);
    ++*bc.expect[m.e];
    bool nonascii = false;
    for (int i = 0; i < n; ++i) nonascii = nonascii || s[i] >= 0x80;
    if (nonascii) ++*bc.nontriv;     // distinct by construction; non-trivial = contains a byte >= 0x80 (multi-byte decoding involved)
    int oc[3] = {0, 0, 0};
    for (int fn = 0; fn < 3; ++fn) {
        if (!(mask & (1u << fn))) continue;
        g_cur->fn = static_cast<uint32_t>(fn);
        const int o = oc[fn] = call_fn(fn, out, p);
        ++*bc.evals; ++*bc.outc[fn][o];
        std::string what;
        if (fn != 2 && m.e == RET && o != 0) what = std::string("throws-on-wellformed-utf8(") + OUTCOME[o] + ")";
        else if (fn != 2 && m.e == THROW_OOR && o == 0) what = "no-exception-on-cut-off-sequence";
        else if (fn != 2 && m.e == THROW_OOR && o != 1) what = std::string("wrong-exception-on-cut-off-sequence(") + OUTCOME[o] + ")";
        else if (fn != 2 && m.e == THROW_ANY && o == 0) what = "no-exception-on-cut-off-sequence";
        else if (fn == 2 && (m.e == THROW_OOR || m.e == THROW_ANY) && o == 0) ++*bc.xml_open;
        if (!what.empty())
            V.report(bytes_key(fn, what, s, n), std::string(FN[fn]) + " escaper on bytes " + benum::hex(std::string(reinterpret_cast<const char*>(s), static_cast<size_t>(n))) + " + NUL: " + OUTCOME[o] +
                     " (output " + show(out) + ")", bytes_spec(fn, s, n));
    }
    if (n == 2 && s[0] == 0xE2 && s[1] == 0x82 && mask == 7)
        benum::sample(std::string("bytes: e2 82 + NUL (cut-off 3-byte sequence) -> opl: ") + OUTCOME[oc[0]] + ", debug: " + OUTCOME[oc[1]] + ", xml: " + OUTCOME[oc[2]] +
                      (C14_ASAN ? " [ASan build, string at the end of a heap block]" : " [plain build, string directly in front of a PROT_NONE page]"));
}

static void bytes_death(const std::string& what, const std::string& err) {
    uint8_t s[4]; const int n = static_cast<int>(g_cur->len); const int fn = static_cast<int>(g_cur->fn);
    for (int i = 0; i < 4; ++i) s[i] = g_cur->b[i];
    const std::string dc = benum::death_class(what, err);
    size_t q = err.find("ERROR: AddressSanitizer"); std::string line = q == std::string::npos ? "" : err.substr(q, err.find('\n', q) - q);
    V.report(bytes_key(fn, "memory-error:" + dc, s, n), std::string(FN[fn]) + " escaper on bytes " + benum::hex(std::string(reinterpret_cast<const char*>(s), static_cast<size_t>(n))) +
             " + NUL placed at the end of the " + (C14_ASAN ? "heap block" : "mapped page (PROT_NONE page follows)") + ": child died (" + what + ") " + line, bytes_spec(fn, s, n));
}

// strings of length len over alphabet A: the first min(len,2)... bytes are the rank, the rest is enumerated inside
static bool sweep(const Args& a, const Slots& slots, ByteCounters& bc, const std::vector<uint8_t>& A, int len, unsigned mask, uint64_t& total_deaths) {
    const int P = len <= 1 ? 0 : len == 2 ? 1 : 2;
    const uint64_t nA = A.size(), ranks = benum::ipow(nA, static_cast<unsigned>(P)), inner = benum::ipow(nA, static_cast<unsigned>(len - P));
    uint64_t deaths = 0;
    std::map<uint64_t, uint64_t> resume;     // rank -> inner index to continue at (after a case that killed the child)
    std::vector<uint64_t> died;
    auto body = [&](uint64_t r) {
        uint8_t s[4] = {0, 0, 0, 0};
        uint64_t x = r;
        for (int i = 0; i < P; ++i) { s[i] = A[x % nA]; x /= nA; }
        std::string out;
        g_cur->len = static_cast<uint32_t>(len);
        const auto it = resume.find(r);
        for (uint64_t k = it == resume.end() ? 0 : it->second; k < inner; ++k) {
            uint64_t y = k;
            for (int i = P; i < len; ++i) { s[i] = A[y % nA]; y /= nA; }
            for (int i = 0; i < 4; ++i) g_cur->b[i] = s[i];
            g_cur->k = k;
            check_bytes(slots, bc, s, len, out, mask);
        }
    };
    auto on_death = [&](uint64_t r, const std::string& what, const std::string& err) { ++deaths; bytes_death(what, err); resume[r] = g_cur->k + 1; died.push_back(r); };
    bool complete = benum::run_isolated(a, 0, ranks, body, on_death);
    // continue every rank behind the case that killed the child (bounded: a tree on which thousands of cases die is
    // reported from the first few hundred, the bound is then marked incomplete)
    Args one = a; one.shard = 0; one.nshards = 1;
    while (!died.empty()) {
        if (deaths > 300 || a.expired()) { complete = false; break; }
        const uint64_t r = died.back(); died.pop_back();
        if (resume[r] < inner && !benum::run_isolated(one, r, r + 1, body, on_death)) complete = false;
    }
    total_deaths += deaths;
    return complete;
}

static void part_bytes(const Args& a) {
    g_cur = static_cast<Cur*>(mmap(nullptr, sizeof(Cur), PROT_READ | PROT_WRITE, MAP_SHARED | MAP_ANONYMOUS, -1, 0));
    Slots slots; ByteCounters bc;
    std::vector<uint8_t> all; for (int b = 1; b < 256; ++b) all.push_back(static_cast<uint8_t>(b));
    // representatives: every boundary of the UTF-8 lead/continuation classes and of the well-formedness table, plus structural ASCII
    const std::vector<uint8_t> rep = {0x01, 0x09, 0x0A, 0x20, 0x25, 0x26, 0x41, 0x7F, 0x80, 0x8F, 0x90, 0x9F, 0xA0, 0xBF, 0xC0, 0xC1, 0xC2, 0xDF,
                                      0xE0, 0xE1, 0xEC, 0xED, 0xEE, 0xEF, 0xF0, 0xF1, 0xF3, 0xF4, 0xF5, 0xF7, 0xF8, 0xFB, 0xFC, 0xFE, 0xFF};
    // 64 values: the 35 above plus more structural ASCII, continuation and lead bytes
    std::vector<uint8_t> rep64 = rep;
    for (uint8_t b : {0x0D, 0x22, 0x27, 0x2C, 0x30, 0x3C, 0x3D, 0x3E, 0x40, 0x61, 0x7E, 0x81, 0x8E, 0x91, 0x9E, 0xA1, 0xAD, 0xBE, 0xC3, 0xD0, 0xDE, 0xE2, 0xEA, 0xF2, 0xF6, 0xF9, 0xFA, 0xFD, 0xA5}) rep64.push_back(b);
    const char* place = C14_ASAN ? "ASan build, string at the end of a heap block" : "plain build, string directly in front of a PROT_NONE page";
    uint64_t dead = 0;
    struct Job { int len; const std::vector<uint8_t>* A; unsigned mask; };
    std::vector<Job> jobs = {{1, &all, 7}, {2, &all, 7}, {3, &all, 7}};
    if (!a.thorough) jobs.push_back({4, &rep, 7});
    else if (C14_ASAN) jobs.push_back({4, &rep64, 7});
    else { jobs.push_back({4, &rep64, 4 | 2}); jobs.push_back({4, &all, 1 | 4}); }   // full 2^32 sweep: OPL and XML escaper (debug escaper: 64-value alphabet)
    for (const Job& j : jobs) {
        const bool ok = sweep(a, slots, bc, *j.A, j.len, j.mask, dead);
        std::string fns; for (int f = 0; f < 3; ++f) if (j.mask & (1u << f)) fns += std::string(fns.empty() ? "" : "+") + FN[f];
        benum::bound(std::string("byte strings of length ") + std::to_string(j.len) + " over " + (j.A == &all ? "all 255 non-NUL byte values" : std::to_string(j.A->size()) + " class-boundary byte values") +
                     " through the " + fns + " escaper (" + place + ")", ok);
    }
    C["bytes_cases_that_killed_the_child"] += dead;
    if (a.shard == 0) {
        for (int f = 0; f < 3; ++f) for (int o = 0; o < 5; ++o) if (*bc.outc[f][o]) benum::setv("bytes_outcomes", std::string(FN[f]) + ":" + OUTCOME[o]);
    }
}

// ------------------------------------------------------------------------------------------------
static std::vector<std::string> split(const std::string& s, char c) {
    std::vector<std::string> r; size_t st = 0;
    for (;;) { size_t p = s.find(c, st); if (p == std::string::npos) { r.push_back(s.substr(st)); break; } r.push_back(s.substr(st, p - st)); st = p + 1; }
    return r;
}

// ------------------------------------------------------------------------------------------------
// part writer: the escaping as the WRITERS apply it. Two objects in one buffer (the writers' output blocks handle a buffer at a
// time and may keep state between objects): a relation and a changeset or a second relation, the pair (s1, s2) placed in the same
// string slot of both - user, tag key, tag value, member role. Every ordered pair over an alphabet that contains prefix chains,
// structural characters, escapes and 1-4 byte sequences. OPLOutputBlock -> opl_parse_line; XMLOutputBlock -> expat.
static const std::vector<std::string>& wstrings() {
    static const std::vector<std::string> w = {"", "a", "ab", "abc", "ab ", "a b", "a,b", "a=b@c", "%", "a%20%", "\n", "a\nb", "\xC3\xA9", "\xC3\xA9\xE2\x82\xAC",
                                               "a\xF0\x9F\x98\x80", "<&\">'", "a\t", "\xC3\xA9\xE2\x82\xACx", "%%", "ab%"};
    return w;
}
static const char* const WSLOT[] = {"user", "key", "value", "role"};

static void build_rel(osmium::memory::Buffer& buf, int64_t id, int slot, const std::string& s) {
    osmium::builder::RelationBuilder b{buf};
    b.set_id(id).set_version(1).set_changeset(1).set_uid(1).set_timestamp(osmium::Timestamp{uint32_t(1420070400)}).set_visible(true);
    b.set_user(slot == 0 ? s.c_str() : "zu");
    { osmium::builder::TagListBuilder t{b}; t.add_tag(slot == 1 ? s.c_str() : "zk", slot == 2 ? s.c_str() : "zv"); }
    { osmium::builder::RelationMemberListBuilder m{b}; m.add_member(osmium::item_type::node, 1, slot == 3 ? s.c_str() : "zr"); }
    buf.commit();
}
static void build_cs(osmium::memory::Buffer& buf, int64_t id, int slot, const std::string& s) {
    osmium::builder::ChangesetBuilder b{buf};
    b.set_id(static_cast<osmium::changeset_id_type>(id)).set_uid(1).set_created_at(osmium::Timestamp{uint32_t(1420070400)});
    b.set_user(slot == 0 ? s.c_str() : "zu");
    { osmium::builder::TagListBuilder t{b}; t.add_tag(slot == 1 ? s.c_str() : "zk", slot == 2 ? s.c_str() : "zv"); }
    buf.commit();
}
struct WGot { std::vector<std::string> user, key, value, role; };
static void XMLCALL w_start(void* u, const XML_Char* name, const XML_Char** atts) {
    auto* g = static_cast<WGot*>(u);
    const std::string n = name;
    for (int i = 0; atts[i]; i += 2) {
        const std::string a = atts[i];
        if ((n == "relation" || n == "changeset") && a == "user") g->user.emplace_back(atts[i + 1]);
        if (n == "tag" && a == "k") g->key.emplace_back(atts[i + 1]);
        if (n == "tag" && a == "v") g->value.emplace_back(atts[i + 1]);
        if (n == "member" && a == "role") g->role.emplace_back(atts[i + 1]);
    }
}
// kind 0: relation + relation, kind 1: relation + changeset, kind 2: changeset + relation
static void check_writer(int fmt, int kind, int slot, unsigned i1, unsigned i2) {
    const std::string& s1 = wstrings()[i1]; const std::string& s2 = wstrings()[i2];
    if (slot == 3 && kind != 0) return;       // changesets have no roles
    ++C["evaluations"]; ++C[fmt == 0 ? "evaluations_writer_opl" : "evaluations_writer_xml"];
    if (!s1.empty() || !s2.empty()) ++C["distinct_nontrivial"];
    const std::string cls = std::string(FMT[fmt]) + "-writer/" + WSLOT[slot] + "/" + (kind == 0 ? "relation,relation" : kind == 1 ? "relation,changeset" : "changeset,relation");
    const std::string spec = std::string("writer:") + FMT[fmt] + ":" + std::to_string(kind) + "," + std::to_string(slot) + "," + std::to_string(i1) + "," + std::to_string(i2);
    osmium::memory::Buffer buf{4096, osmium::memory::Buffer::auto_grow::yes};
    if (kind == 2) build_cs(buf, 1, slot, s1); else build_rel(buf, 1, slot, s1);
    if (kind == 1) build_cs(buf, 2, slot, s2); else build_rel(buf, 2, slot, s2);
    const std::string what = std::string("strings ") + show(s1) + " then " + show(s2) + " as " + WSLOT[slot] + " of two objects in one buffer";
    std::string out;
    WGot got;
    try {
        if (fmt == 0) {
            od::opl_output_options o; o.add_metadata = osmium::metadata_options{"all"};
            od::OPLOutputBlock blk{std::move(buf), o};
            out = blk();
        } else {
            od::xml_output_options o; o.add_metadata = osmium::metadata_options{"all"};
            od::XMLOutputBlock blk{std::move(buf), o};
            out = blk();
        }
    } catch (const std::exception& x) { V.report(cls + "/writer-throws", what + ": " + x.what(), spec); return; }
    if (fmt == 0) {
        size_t st = 0; int ln = 0;
        while (st < out.size()) {
            size_t e = out.find('\n', st); if (e == std::string::npos) e = out.size();
            const std::string line = out.substr(st, e - st); st = e + 1; ++ln;
            osmium::memory::Buffer pb{1024, osmium::memory::Buffer::auto_grow::yes};
            try {
                if (!od::opl_parse_line(static_cast<uint64_t>(ln), line.c_str(), pb)) { V.report(cls + "/line-not-parsed", what + ": line " + show(line), spec); return; }
            } catch (const std::exception& x) { V.report(cls + "/parser-rejects-written-line", what + ": line " + show(line) + ": " + x.what(), spec); return; }
            const auto& item = pb.get<osmium::memory::Item>(0);
            if (item.type() == osmium::item_type::relation) {
                const auto& r = static_cast<const osmium::Relation&>(item);
                got.user.emplace_back(r.user());
                for (const auto& t : r.tags()) { got.key.emplace_back(t.key()); got.value.emplace_back(t.value()); }
                for (const auto& m : r.members()) got.role.emplace_back(m.role());
            } else if (item.type() == osmium::item_type::changeset) {
                const auto& c = static_cast<const osmium::Changeset&>(item);
                got.user.emplace_back(c.user());
                for (const auto& t : c.tags()) { got.key.emplace_back(t.key()); got.value.emplace_back(t.value()); }
            }
        }
        if (ln != 2) { V.report(cls + "/wrong-number-of-lines", what + ": " + std::to_string(ln) + " lines: " + show(out), spec); return; }
    } else {
        static XML_Parser parser = XML_ParserCreate(nullptr);
        XML_ParserReset(parser, nullptr);
        XML_SetUserData(parser, &got);
        XML_SetStartElementHandler(parser, w_start);
        const std::string doc = "<?xml version='1.0' encoding='UTF-8'?>\n<osm>\n" + out + "</osm>\n";
        if (XML_Parse(parser, doc.data(), static_cast<int>(doc.size()), 1) == XML_STATUS_ERROR) {
            V.report(cls + "/rejected-by-expat", what + ": " + XML_ErrorString(XML_GetErrorCode(parser)) + " in " + show(out), spec); return;
        }
    }
    auto expect = [&](int sl, const char* fill) { return std::vector<std::string>{slot == sl ? s1 : std::string(fill), slot == sl ? s2 : std::string(fill)}; };
    std::vector<std::string> er = expect(3, "zr"); if (kind != 0) er = {"zr"};
    std::string bad;
    std::vector<std::string> eu = expect(0, "zu");
    if (fmt == 1) {     // the XML writer leaves the user attribute of an object out when the name is empty (read back as the empty name)
        auto drop = [](std::vector<std::string>& v) { v.erase(std::remove(v.begin(), v.end(), std::string()), v.end()); };
        drop(eu); drop(got.user);
    }
    if (got.user != eu) bad = "user";
    else if (got.key != expect(1, "zk")) bad = "key";
    else if (got.value != expect(2, "zv")) bad = "value";
    else if (got.role != er) bad = "role";
    if (!bad.empty()) {
        const std::vector<std::string>& g = bad == "user" ? got.user : bad == "key" ? got.key : bad == "value" ? got.value : got.role;
        std::string gs; for (const auto& x : g) gs += show(x) + " ";
        V.report(cls + "/not-inverted(" + bad + ")/" + (i1 == i2 ? "same-string-twice" : s2.compare(0, s1.size(), s1) == 0 && !s1.empty() ? "second-extends-first" : s1.compare(0, s2.size(), s2) == 0 && !s2.empty() ? "first-extends-second" : "unrelated-strings"),
                 what + ": the parser returns " + gs + "from " + show(out), spec);
    }
}

static void part_writer(const Args& a) {
    const unsigned n = static_cast<unsigned>(wstrings().size());
    const uint64_t total = 2ull * 3 * 4 * n * n;
    for (uint64_t r = 0; r < total; ++r) {
        if (!a.mine(r)) continue;
        uint64_t x = r;
        const unsigned i2 = x % n; x /= n; const unsigned i1 = x % n; x /= n;
        const int slot = x % 4; x /= 4; const int kind = x % 3; x /= 3; const int fmt = static_cast<int>(x);
        check_writer(fmt, kind, slot, i1, i2);
    }
    benum::bound("writer output blocks: every ordered pair of " + std::to_string(n) + " strings x 4 string slots x {relation+relation, relation+changeset, changeset+relation} x {OPL, XML}", true);
}

static int replay(const Args& a, const std::string& spec) {
    const std::vector<std::string> f = split(spec, ':');
    if (f.size() < 3) return 2;
    if (f[0] == "bytes") {
        int fn = -1; for (int i = 0; i < 3; ++i) if (f[1] == FN[i]) fn = i;
        const std::string s = benum::unhex(f[2]);
        if (fn < 0 || s.empty() || s.size() > 4) return 2;
        g_cur = static_cast<Cur*>(mmap(nullptr, sizeof(Cur), PROT_READ | PROT_WRITE, MAP_SHARED | MAP_ANONYMOUS, -1, 0));
        Slots slots; ByteCounters bc;
        Args one = a; one.shard = 0; one.nshards = 1;
        benum::run_isolated(one, 0, 1, [&](uint64_t) {
            uint8_t b[4] = {0, 0, 0, 0}; for (size_t i = 0; i < s.size(); ++i) b[i] = static_cast<uint8_t>(s[i]);
            g_cur->len = static_cast<uint32_t>(s.size()); for (int i = 0; i < 4; ++i) g_cur->b[i] = b[i];
            std::string out; check_bytes(slots, bc, b, static_cast<int>(s.size()), out, 1u << fn);
        }, [&](uint64_t, const std::string& what, const std::string& err) { bytes_death(what, err); });
        return 0;
    }
    const int fmt = f[1] == "xml" ? 1 : 0;
    if (f[0] == "writer") { auto v = split(f[2], ','); if (v.size() != 4) return 2; check_writer(fmt, atoi(v[0].c_str()), atoi(v[1].c_str()), static_cast<unsigned>(atoi(v[2].c_str())) % wstrings().size(), static_cast<unsigned>(atoi(v[3].c_str())) % wstrings().size()); return 0; }
    if (f[0] == "cp") { report_cp_range(fmt, static_cast<uint32_t>(strtoul(f[2].c_str(), nullptr, 10))); return 0; }
    init_badsyms();
    if (f[0] == "seq") {
        std::vector<unsigned> idx;
        if (!f[2].empty()) for (const auto& t : split(f[2], ',')) { const unsigned i = static_cast<unsigned>(atoi(t.c_str())); if (i >= NSYM) return 2; idx.push_back(i); }
        check_seq(fmt, idx);
        return 0;
    }
    if (f[0] == "long" && f.size() >= 5) { check_long(fmt, f[2], static_cast<unsigned>(atoi(f[3].c_str())) % NSYM, static_cast<unsigned>(atoi(f[4].c_str()))); return 0; }
    return 2;
}

int main(int argc, char** argv) {
    Args a = benum::parse_args(argc, argv);
    if (a.replay) return replay(a, a.replay_spec);
    const std::string part = a.rest.size() >= 2 && a.rest[0] == "--part" ? a.rest[1] : "";
    if (part == "cp") part_cp(a);
    else if (part == "seq") part_seq(a);
    else if (part == "long") part_long(a);
    else if (part == "bytes") part_bytes(a);
    else if (part == "writer") part_writer(a);
    else { fprintf(stderr, "unknown part\n"); return 2; }
    C.emit();
    return 0;
}
