"""C14 - text-format string escaping is injective and exactly undone by the parsers (DESIGN.md section 5, C14)."""
LEVEL = "exploration"
RULE = ("finite-domain enumeration, every case distinct by construction: (cp) every Unicode scalar value U+0001..U+10FFFF, alone and "
        "between two hex letters, escaped by append_utf8_encoded_string / append_xml_encoded_string and parsed back by opl_parse_string / "
        "expat (one-attribute document and <text> element); (seq) every sequence of length 0..4 over a 22-symbol structural alphabet, "
        "additionally as user, tag key/value and member role of a whole OPL relation line through opl_parse_line; (long) deterministic "
        "long strings; (bytes) byte strings of length 1..4 over bytes 01..ff with the terminating NUL as the last readable byte "
        "(ASan heap block end / PROT_NONE guard page) through the OPL, debug and XML escapers in forked children. "
        "Oracle: parse(escape(s)) == s with the whole escaped form consumed (implies injectivity), escaped form free of the format's "
        "structural characters outside escape groups, no memory error, std::out_of_range when the final UTF-8 sequence is cut off "
        "(reference UTF-8 well-formedness model in the harness). Failing code points are merged into maximal ranges (one class key per "
        "range and failure word); only minimal failing sequences are reported. Non-trivial = code points that at least one escaper changes; "
        "sequences not made of the letter 'a' only; byte strings containing a byte >= 0x80.")
DEADLINE = {"quick": 90, "thorough": 1200}


def build(ctx):
    exes = ctx.build_many([
        dict(name="h14", sources=["h14.cpp"], opt="-O2"),
        dict(name="h14asan", sources=["h14.cpp"], opt="-O1", asan=True),
    ])
    return {"h14": exes[0], "h14asan": exes[1]}


def run(ctx):
    exes = build(ctx)
    if getattr(ctx, "build_only", False):
        return
    ctx.run_harness(exes["h14"], ["--part", "cp"], shards=16)
    ctx.run_harness(exes["h14"], ["--part", "seq"], shards=16)
    ctx.run_harness(exes["h14"], ["--part", "writer"], shards=16)
    ctx.run_harness(exes["h14"], ["--part", "long"], shards=8)
    ctx.run_harness(exes["h14asan"], ["--part", "bytes"], shards=16)
    ctx.run_harness(exes["h14"], ["--part", "bytes"], shards=16)
    ctx.assume("the statement is about strings of Unicode scalar values: for ill-formed UTF-8 (bad continuation byte, overlong form, "
               "surrogate, lead byte f5..f7) and for bytes that cannot start a sequence (80..bf, f8..ff) only 'no read past the NUL' is "
               "demanded, the outcome (normal return or any exception) is counted; the exception for a cut-off sequence must be "
               "std::out_of_range only when everything before it is well-formed, otherwise any exception is accepted")
    ctx.assume("the XML escaper works byte-wise and never decodes UTF-8; that it passes a cut-off sequence through instead of throwing is "
               "counted (bytes_xml_cut_off_sequence_passed_through_bytewise), not reported")
    ctx.assume("OPL structural characters: space , = @ % TAB LF CR; '%' may appear only as delimiter of a %hex% group. XML: < > & \" ' and "
               "raw TAB LF CR; '&' may appear only as the start of one of the predefined or numeric references")
    ctx.assume("expat is the XML parser; attribute values and character data are what expat hands to its handlers")
