// C13 - coordinate, timestamp and number text conversions: exhaustive enumeration against an exact
// decimal / calendar / integer reference. Sub-spaces (selected with --part):
//   coord_rt   every int32 x (thorough) / boundary neighbourhoods + stride (quick): parse(format(x)) == x
//   ts_rt      every uint32 t: Timestamp(t.to_iso_all()) == t
//   short      every string of length <= 6 (quick) | 7 (thorough) over {0-9 . - + e E space x}
//   grammar    grammar-directed long coordinate strings (digit patterns x fraction lengths x every exponent)
//   tsstr      timestamp strings (every field value, pairs, separators, fractions, calendar)
//   ints       integer attributes around every type boundary
#include <benum/benum.hpp>

#include <osmium/osm/location.hpp>
#include <osmium/osm/timestamp.hpp>
#include <osmium/osm/types_from_string.hpp>
#include <osmium/io/detail/opl_parser_functions.hpp>
#include <osmium/io/detail/output_format.hpp>
#include <osmium/util/misc.hpp>

#include <algorithm>
#include <cerrno>
#include <climits>
#include <typeinfo>
#include <ctime>
#include <string>

using benum::Args;
static benum::Counters C;
static benum::Violations V;

// ------------------------------------------------------------------------------------------------
// exact decimal reference
struct Dec {
    bool ok = false;        // string starts with a number of the generous grammar
    bool neg = false;
    std::string digits;     // mantissa digits, integer+fraction, as written
    int nint = 0, nfrac = 0, nexpd = 0;
    long long exp = 0;      // exponent value (saturated)
    bool has_exp = false, exp_neg = false;
    size_t consumed = 0;    // characters of the longest grammar prefix
};

static Dec ref_parse(const std::string& s) {
    Dec d;
    size_t i = 0;
    if (i < s.size() && s[i] == '-') { d.neg = true; ++i; }
    size_t st = i;
    while (i < s.size() && isdigit(static_cast<unsigned char>(s[i]))) { d.digits += s[i]; ++i; }
    d.nint = static_cast<int>(i - st);
    if (i < s.size() && s[i] == '.') {
        size_t j = i + 1, fs = j;
        while (j < s.size() && isdigit(static_cast<unsigned char>(s[j]))) { d.digits += s[j]; ++j; }
        d.nfrac = static_cast<int>(j - fs);
        if (d.nint == 0 && d.nfrac == 0) return d;  // "." alone
        i = j;
    }
    if (d.nint == 0 && d.nfrac == 0) return d;
    d.ok = true;
    d.consumed = i;
    if (i < s.size() && (s[i] == 'e' || s[i] == 'E')) {
        size_t j = i + 1;
        bool en = false;
        if (j < s.size() && s[j] == '-') { en = true; ++j; }
        size_t es = j;
        long long e = 0;
        while (j < s.size() && isdigit(static_cast<unsigned char>(s[j]))) { if (e < 100000000) e = e * 10 + (s[j] - '0'); ++j; }
        if (j > es) {
            d.has_exp = true; d.exp_neg = en; d.exp = en ? -e : e; d.nexpd = static_cast<int>(j - es);
            d.consumed = j;
        } else {
            d.has_exp = true; d.nexpd = 0;   // 'e' without digits: malformed exponent
            d.consumed = i;
        }
    }
    return d;
}

// N = value * 10^7 rounded to an integer. Returns: 0 exact/unique, 1 tie (N or N+1 in magnitude),
// 2 magnitude too large for int64 comparisons (> 10^12, certainly out of int32 range)
static int ref_round7(const Dec& d, long long& N) {
    std::string m = d.digits;
    size_t nz = m.find_first_not_of('0');
    if (nz == std::string::npos) { N = 0; return 0; }
    m = m.substr(nz);
    long long p = d.exp - d.nfrac + 7;   // value*10^7 = m * 10^p
    if (p >= 0) {
        if (static_cast<long long>(m.size()) + p > 12) return 2;
        N = atoll(m.c_str());
        for (long long i = 0; i < p; ++i) N *= 10;
        return 0;
    }
    long long drop = -p;
    if (drop > static_cast<long long>(m.size())) { N = 0; return 0; }       // < 0.1 ulp
    std::string keep = m.substr(0, m.size() - drop);
    std::string rest = m.substr(m.size() - drop);
    if (keep.size() > 12) return 2;
    N = keep.empty() ? 0 : atoll(keep.c_str());
    // compare rest with 5000...
    if (rest[0] > '5') { ++N; return 0; }
    if (rest[0] < '5') return 0;
    for (size_t i = 1; i < rest.size(); ++i) if (rest[i] != '0') { ++N; return 0; }
    return 1;  // exact tie: N or N+1
}

static std::string shape(const Dec& d) {
    std::string s = "int" + std::string(d.nint == 0 ? "0" : d.nint <= 10 ? "1-10" : ">10");
    s += ",frac" + std::string(d.nfrac == 0 ? "0" : d.nfrac <= 8 ? "1-8" : d.nfrac <= 27 ? "9-27" : ">27");
    if (!d.has_exp) s += ",noexp";
    else {
        long long a = d.exp < 0 ? -d.exp : d.exp;
        s += std::string(",exp") + (d.exp < 0 ? "-" : "+") + (a <= 20 ? "0-20" : a <= 55 ? "21-55" : ">55");
    }
    return s;
}

struct LibRes { bool threw = false; bool wrong_exc = false; int32_t v = 0; size_t consumed = 0; std::string what; };

static LibRes lib_partial(const std::string& s) {
    LibRes r;
    const char* p = s.c_str();
    try {
        r.v = osmium::detail::string_to_location_coordinate(&p);
        r.consumed = static_cast<size_t>(p - s.c_str());
    } catch (const osmium::invalid_location& e) {
        r.threw = true; r.what = e.what();
    } catch (const std::exception& e) {
        r.threw = true; r.wrong_exc = true; r.what = e.what();
    }
    return r;
}

// the oracle for one coordinate string; 'where' tags the sub-space for the replay spec
static void check_coord_string(const std::string& s, const char* part) {
    ++C["evaluations"];
    Dec d = ref_parse(s);
    LibRes r = lib_partial(s);
    std::string spec = std::string("coordstr:") + benum::hex(s);
    if (r.wrong_exc) { V.report("coord/wrong-exception-type", "input '" + s + "' threw " + r.what, spec); return; }
    if (!d.ok || (d.has_exp && d.nexpd == 0)) {
        // not a number of the grammar (or exponent marker without digits): must not be accepted
        // with full consumption of the malformed part. The library may reject, or accept a valid
        // numeric prefix (partial parse) - but never return a value for a string with no number.
        if (!d.ok) {
            if (!r.threw) V.report("coord/accepted-non-number", "input '" + s + "' returned " + std::to_string(r.v), spec);
            else ++C["rejected_malformed"];
            return;
        }
    }
    long long N = 0;
    int kind = ref_round7(d, N);
    bool in_range = false, tie = (kind == 1);
    long long N2 = N;
    if (kind != 2) {
        if (tie) N2 = N + 1;
        if (d.neg) { N = -N; N2 = -N2; }
        in_range = (N >= INT32_MIN && N <= INT32_MAX) || (tie && N2 >= INT32_MIN && N2 <= INT32_MAX);
    }
    // the prefix actually consumed by the library decides which number it parsed: if it consumed
    // less than the longest grammar prefix (e.g. stopped before a malformed exponent) re-evaluate.
    if (!r.threw && r.consumed != d.consumed) {
        Dec d2 = ref_parse(s.substr(0, r.consumed));
        if (!d2.ok || d2.consumed != r.consumed) {
            V.report("coord/consumed-non-grammar-prefix/" + shape(d), "input '" + s + "' consumed " + std::to_string(r.consumed) + " chars", spec);
            return;
        }
        // partial consumption of a longer valid number (stopping early) is only acceptable when the
        // rest is not part of the number per the library's grammar; 'e' without digits is the one
        // case. Everything else is a wrong parse.
        V.report("coord/stopped-inside-number/" + shape(d), "input '" + s + "' consumed " + std::to_string(r.consumed) + " of " + std::to_string(d.consumed), spec);
        return;
    }
    if (d.has_exp && d.nexpd == 0) {   // "1e", "1e-" ...: reject or stop before the 'e'
        if (r.threw) { ++C["rejected_malformed"]; return; }
    }
    if (!r.threw) {
        ++C["accepted"];
        if (kind == 2 || !in_range) {
            V.report("coord/accepted-out-of-range/" + shape(d), "input '" + s + "' returned " + std::to_string(r.v) + " but the exact value is outside int32 fixed-point range", spec);
            return;
        }
        if (r.v != N && !(tie && r.v == N2)) {
            V.report("coord/wrong-value/" + shape(d), "input '" + s + "' returned " + std::to_string(r.v) + ", exact decimal rounding gives " + std::to_string(N), spec);
            return;
        }
        if (tie) ++C["ties"];
        if (d.has_exp || d.nfrac > 7) ++C["distinct_nontrivial"];
    } else {
        ++C["rejected"];
        // must-accept region: plain grammar, modest digit counts, in-range value
        bool must = kind != 2 && in_range && d.nint <= 10 && d.nfrac <= 20 && d.nexpd <= 4 && (!d.has_exp || d.nexpd >= 1)
                    && !(tie && !((N >= INT32_MIN && N <= INT32_MAX) && (N2 >= INT32_MIN && N2 <= INT32_MAX)));
        if (must) {
            V.report("coord/rejected-in-domain/" + shape(d), "input '" + s + "' was rejected (" + r.what + ") but denotes " + std::to_string(N) + "e-7", spec);
            return;
        }
        if (kind == 2 || !in_range) ++C["distinct_nontrivial"];   // rejected by the range check (second-stage check)
    }
    // full-consumption entry point: trailing characters must be rejected
    if (!r.threw && r.consumed < s.size()) {
        osmium::Location loc;
        try { loc.set_lon(s.c_str()); V.report("coord/set_lon-accepts-trailing-characters", "input '" + s + "'", spec); }
        catch (const osmium::invalid_location&) { ++C["trailing_rejected"]; }
    }
    (void)part;
}

// ------------------------------------------------------------------------------------------------
static void check_coord_rt(int32_t x) {
    ++C["evaluations"];
    std::string s;
    osmium::detail::append_location_coordinate_to_string(std::back_inserter(s), x);
    const char* p = s.c_str();
    std::string spec = "coordrt:" + std::to_string(x);
    try {
        int32_t y = osmium::detail::string_to_location_coordinate(&p);
        if (y != x || *p != '\0') V.report("coord-roundtrip/mismatch", "x=" + std::to_string(x) + " text '" + s + "' parsed as " + std::to_string(y), spec);
    } catch (const std::exception& e) {
        V.report("coord-roundtrip/rejected", "x=" + std::to_string(x) + " text '" + s + "': " + e.what(), spec);
    }
    // text must be canonical: no trailing zeros after the point, at most 7 decimals, value exact
    Dec d = ref_parse(s);
    long long N = 0;
    if (!d.ok || d.consumed != s.size() || d.has_exp || d.nfrac > 7 || (d.nfrac > 0 && s.back() == '0') || ref_round7(d, N) != 0 || (d.neg ? -N : N) != x)
        V.report("coord-format/not-exact-decimal", "x=" + std::to_string(x) + " text '" + s + "'", spec);
    if (x % 10 != 0) ++C["distinct_nontrivial"];
}

static void check_ts_rt(uint32_t t) {
    ++C["evaluations"];
    osmium::Timestamp ts{t};
    std::string s = ts.to_iso_all();
    std::string spec = "tsrt:" + std::to_string(t);
    try {
        osmium::Timestamp back{s};
        if (static_cast<uint32_t>(back) != t) V.report("timestamp-roundtrip/mismatch", "t=" + std::to_string(t) + " iso '" + s + "' parsed as " + std::to_string(static_cast<uint32_t>(back)), spec);
    } catch (const std::exception& e) {
        V.report("timestamp-roundtrip/rejected", "t=" + std::to_string(t) + " iso '" + s + "': " + e.what(), spec);
    }
    // independent formatting (civil-from-days), compared with the library's text
    {
        uint32_t days = t / 86400, rem = t % 86400;
        long long z = static_cast<long long>(days) + 719468;
        long long era = z / 146097; unsigned doe = static_cast<unsigned>(z - era * 146097);
        unsigned yoe = (doe - doe / 1460 + doe / 36524 - doe / 146096) / 365;
        long long y = static_cast<long long>(yoe) + era * 400;
        unsigned doy = doe - (365 * yoe + yoe / 4 - yoe / 100); unsigned mp = (5 * doy + 2) / 153;
        unsigned dd = doy - (153 * mp + 2) / 5 + 1; unsigned mm = mp < 10 ? mp + 3 : mp - 9;
        if (mm <= 2) ++y;
        char buf[40];
        snprintf(buf, sizeof buf, "%04lld-%02u-%02uT%02u:%02u:%02uZ", y, mm, dd, rem / 3600, rem / 60 % 60, rem % 60);
        if (s != buf) V.report("timestamp-format/wrong-text", "t=" + std::to_string(t) + " library '" + s + "' reference '" + buf + "'", spec);
    }
    if (t % 86400 != 0) ++C["distinct_nontrivial"];
}

// ------------------------------------------------------------------------------------------------
// timestamp strings
static bool leap(int y) { return (y % 4 == 0 && y % 100 != 0) || y % 400 == 0; }
static long long days_from_civil(long long y, unsigned m, unsigned d) {
    y -= m <= 2;
    long long era = (y >= 0 ? y : y - 399) / 400;
    unsigned yoe = static_cast<unsigned>(y - era * 400);
    unsigned doy = (153 * (m > 2 ? m - 3 : m + 9) + 2) / 5 + d - 1;
    unsigned doe = yoe * 365 + yoe / 4 - yoe / 100 + doy;
    return era * 146097 + static_cast<long long>(doe) - 719468;
}

static void check_ts_string(const std::string& s) {
    ++C["evaluations"];
    std::string spec = "tsstr:" + benum::hex(s);
    // reference: strict yyyy-mm-ddThh:mm:ss(Z | [.,]d+Z)
    bool shape_ok = s.size() >= 20;
    static const char* pat = "dddd-dd-ddTdd:dd:dd";
    for (int i = 0; shape_ok && i < 19; ++i) {
        if (pat[i] == 'd') shape_ok = isdigit(static_cast<unsigned char>(s[i])) != 0; else shape_ok = s[i] == pat[i];
    }
    size_t end = 19;
    if (shape_ok) {
        if (s[19] == 'Z') end = 20;
        else if ((s[19] == '.' || s[19] == ',') && s.size() > 20 && isdigit(static_cast<unsigned char>(s[20]))) {
            size_t j = 20; while (j < s.size() && isdigit(static_cast<unsigned char>(s[j]))) ++j;
            if (j < s.size() && s[j] == 'Z') end = j + 1; else shape_ok = false;
        } else shape_ok = false;
    }
    bool lib_ok = true; uint32_t got = 0; bool wrong_exc = false; std::string what;
    try { osmium::Timestamp ts{s.c_str()}; got = static_cast<uint32_t>(ts); }
    catch (const std::invalid_argument& e) { lib_ok = false; what = e.what(); }
    catch (const std::exception& e) { lib_ok = false; wrong_exc = true; what = e.what(); }
    if (wrong_exc) { V.report("timestamp-parse/wrong-exception-type", "'" + s + "': " + what, spec); return; }
    if (!shape_ok) {
        if (lib_ok) V.report("timestamp-parse/accepted-malformed", "'" + s + "' -> " + std::to_string(got), spec);
        else ++C["rejected_malformed"];
        return;
    }
    int Y = atoi(s.substr(0, 4).c_str()), M = atoi(s.substr(5, 2).c_str()), D = atoi(s.substr(8, 2).c_str());
    int h = atoi(s.substr(11, 2).c_str()), mi = atoi(s.substr(14, 2).c_str()), se = atoi(s.substr(17, 2).c_str());
    static const int ml[12] = {31, 28, 31, 30, 31, 30, 31, 31, 30, 31, 30, 31};
    bool fields_ok = M >= 1 && M <= 12 && D >= 1 && h <= 23 && mi <= 59 && se <= 60;
    bool in_table = fields_ok && D <= (M == 2 ? 29 : ml[M - 1]);
    bool calendar_ok = fields_ok && D <= (M == 2 && leap(Y) ? 29 : ml[M - 1]);
    if (!in_table) {
        if (lib_ok) V.report("timestamp-parse/accepted-out-of-range-field", "'" + s + "' -> " + std::to_string(got), spec);
        else ++C["rejected_out_of_range"];
        return;
    }
    long long secs = days_from_civil(Y, static_cast<unsigned>(M), static_cast<unsigned>(D)) * 86400LL + h * 3600 + mi * 60 + se;
    bool representable = secs >= 0 && secs <= 0xffffffffLL;
    if (!representable) {
        // outside what a Timestamp can hold: must be rejected, never wrapped into a wrong value
        if (lib_ok) V.report(std::string("timestamp-parse/unrepresentable-year-wraps/") + (secs < 0 ? "before-1970" : "after-2106"),
                             "'" + s + "' -> " + std::to_string(got) + " (exact value " + std::to_string(secs) + " does not fit a 32 bit timestamp)", spec);
        else ++C["rejected_out_of_range"];
        return;
    }
    if (!lib_ok) {
        if (calendar_ok) V.report("timestamp-parse/rejected-valid", "'" + s + "': " + what, spec);
        else ++C["unspecified_calendar_invalid"];
        return;
    }
    if (!calendar_ok) { ++C["unspecified_calendar_invalid"]; return; }   // 30 Feb etc.: normalisation or rejection both fine
    if (se == 60) { ++C["leap_second"]; if (got != secs && got != secs) {} }
    if (got != static_cast<uint32_t>(secs)) { V.report("timestamp-parse/wrong-value", "'" + s + "' -> " + std::to_string(got) + " expected " + std::to_string(secs), spec); return; }
    // partial parse entry point consumes exactly the timestamp
    const char* p = s.c_str();
    osmium::detail::parse_timestamp(&p);
    if (static_cast<size_t>(p - s.c_str()) != end) V.report("timestamp-parse/wrong-consumed-length", "'" + s + "' consumed " + std::to_string(p - s.c_str()), spec);
    ++C["accepted"]; ++C["distinct_nontrivial"];
}

// ------------------------------------------------------------------------------------------------
// integer attributes
struct BigInt { bool ok; bool neg; std::string mag; };  // plain optional '-' digits+
static BigInt big(const std::string& s) {
    BigInt b{false, false, ""};
    size_t i = 0; if (i < s.size() && s[i] == '-') { b.neg = true; ++i; }
    if (i >= s.size()) return b;
    for (size_t j = i; j < s.size(); ++j) if (!isdigit(static_cast<unsigned char>(s[j]))) return b;
    b.mag = s.substr(i); size_t nz = b.mag.find_first_not_of('0'); b.mag = nz == std::string::npos ? "0" : b.mag.substr(nz);
    b.ok = true; return b;
}
static int cmpmag(const std::string& a, const std::string& b) { if (a.size() != b.size()) return a.size() < b.size() ? -1 : 1; return a.compare(b); }
// is value within [lo, hi] given as decimal strings with optional '-'
static bool within(const BigInt& v, const std::string& lo, const std::string& hi) {
    auto le = [](bool an, const std::string& am, bool bn, const std::string& bm) {  // a <= b
        if (am == "0") an = false; if (bm == "0") bn = false;
        if (an != bn) return an;
        int c = cmpmag(am, bm); return an ? c >= 0 : c <= 0;
    };
    BigInt l = big(lo), h = big(hi);
    return le(l.neg, l.mag, v.neg, v.mag) && le(v.neg, v.mag, h.neg, h.mag);
}

template <class F>
static void check_int_fn(const char* name, const std::string& s, const std::string& lo, const std::string& hi, bool may_reject_max, F f) {
    ++C["evaluations"];
    std::string spec = std::string("int:") + name + ":" + benum::hex(s);
    BigInt b = big(s);
    bool ok = true; long long got = 0; unsigned long long ugot = 0; std::string what; bool std_exc = true;
    try { auto v = f(s); got = static_cast<long long>(v); ugot = static_cast<unsigned long long>(v); }
    catch (const std::exception& e) { ok = false; what = e.what(); }
    catch (...) { ok = false; std_exc = false; }
    if (!std_exc) { V.report(std::string("int/") + name + "/non-std-exception", s, spec); return; }
    if (b.ok && b.neg && lo == "0") b.ok = false;   // a minus sign on an unsigned attribute: not a plain number of its grammar
    if (b.ok) {
        bool in = within(b, lo, hi);
        if (in) {
            if (!ok) {
                if (may_reject_max && !b.neg && b.mag == hi) { ++C["type_maximum_rejected_as_pinned_by_repo_tests"]; return; }
                V.report(std::string("int/") + name + "/rejected-in-range", "'" + s + "' rejected: " + what, spec); return;
            }
            std::string gs = (got < 0 && lo[0] == '-') ? std::to_string(got) : std::to_string(ugot);
            BigInt g = big(gs);
            if (g.mag != b.mag || ((g.neg && g.mag != "0") != (b.neg && b.mag != "0"))) { V.report(std::string("int/") + name + "/wrong-value", "'" + s + "' -> " + gs, spec); return; }
            ++C["accepted"]; ++C["distinct_nontrivial"];
        } else {
            if (ok) { V.report(std::string("int/") + name + "/accepted-out-of-range", "'" + s + "' -> " + std::to_string(got), spec); return; }
            ++C["rejected_out_of_range"]; ++C["distinct_nontrivial"];
        }
    } else {
        // not a plain decimal integer: reject, or (documented special cases / harmless leniency such as
        // a leading '+') accept with the mathematically right value of the numeric text
        if (ok) {
            std::string t = s; if (!t.empty() && t[0] == '+') t = t.substr(1);
            if (t == "-0" || t == "-00") t = "0";
            BigInt b2 = big(t);
            std::string gs = (got < 0) ? std::to_string(got) : std::to_string(ugot);
            if (b2.ok && within(b2, lo, hi) && big(gs).mag == b2.mag) { ++C["lenient_plus"]; return; }
            V.report(std::string("int/") + name + "/accepted-malformed", "'" + s + "' -> " + gs, spec);
        } else ++C["rejected_malformed"];
    }
}

static void ints_for(const std::string& s) {
    using namespace osmium;
    check_int_fn("string_to_object_id", s, "-9223372036854775807", "9223372036854775807", false, [](const std::string& x) { return string_to_object_id(x.c_str()); });
    if (s != "-1") {   // "-1" is the documented 'anonymous' special value of the ulong family
        check_int_fn("string_to_object_version", s, "0", "4294967295", true, [](const std::string& x) { return string_to_object_version(x.c_str()); });
        check_int_fn("string_to_changeset_id", s, "0", "4294967295", true, [](const std::string& x) { return string_to_changeset_id(x.c_str()); });
        check_int_fn("string_to_uid", s, "0", "4294967295", true, [](const std::string& x) { return string_to_uid(x.c_str()); });
    }
    auto opl = [](auto tag) { return [](const std::string& x) { const char* p = x.c_str(); auto v = io::detail::opl_parse_int<decltype(tag)>(&p); if (*p != '\0') throw std::runtime_error("trailing"); return v; }; };
    check_int_fn("opl_parse_int<int64>", s, "-9223372036854775808", "9223372036854775807", false, opl(int64_t{}));
    check_int_fn("opl_parse_int<uint32>", s, "0", "4294967295", false, opl(uint32_t{}));
    check_int_fn("opl_parse_int<int32>", s, "-2147483648", "2147483647", false, opl(int32_t{}));
}

static void check_output_int(int64_t v) {
    ++C["evaluations"];
    auto out = std::make_shared<std::string>();
    struct OB : osmium::io::detail::OutputBlock { OB() : OutputBlock(osmium::memory::Buffer{}) {} using OutputBlock::output_int; using OutputBlock::m_out; };
    OB ob;
    ob.m_out = out;
    ob.output_int(v);
    if (*out != std::to_string(v)) V.report("int/output_int/wrong-text", std::to_string(v) + " -> '" + *out + "'", "outint:" + std::to_string(v));
    else ++C["distinct_nontrivial"];
}

// ------------------------------------------------------------------------------------------------
static const char ALPHA[] = "0123456789.-+eE x";   // 17 symbols; index 0 is unused as terminator trick
static const int NALPHA = 17;

static void part_short(const Args& a) {
    int maxlen = a.thorough ? 7 : 6;
    bool complete = true;
    for (int len = 0; len <= maxlen && complete; ++len) {
        uint64_t total = benum::ipow(NALPHA, len);
        std::string s(len, '0');
        for (uint64_t r = a.shard; r < total; r += a.nshards) {
            if ((r & 0xfffff) == a.shard && a.expired()) { complete = false; break; }
            uint64_t x = r;
            for (int i = 0; i < len; ++i) { s[i] = ALPHA[x % NALPHA]; x /= NALPHA; }
            check_coord_string(s, "short");
        }
        benum::bound("short strings length=" + std::to_string(len) + " over 17 symbols", complete);
    }
    benum::sample("short: all strings over {0-9 . - + e E space x}, e.g. '-1.5e-3', '9e99999', '.e5'");
}

static void part_grammar(const Args& a) {
    // sign x integer digits x fraction length x digit pattern x every exponent
    static const char* const ints[] = {"", "0", "1", "9", "17", "90", "179", "180", "181", "214", "215", "999", "0000000001", "0000000214", "2147483647", "9999999999", "99999999999", "00000000000"};
    static const int fracs[] = {0, 1, 2, 6, 7, 8, 9, 10, 19, 20, 26, 27, 28, 30};
    static const char* const pats[] = {"0", "9", "49", "50", "501", "1", "7483647", "7483648", "00000001", "000000001"};
    std::vector<long long> exps;
    for (long long e = -99999; e <= 99999; ++e) exps.push_back(e);
    for (long long e : {-999999LL, -100000LL, 100000LL, 999999LL, 123456LL}) exps.push_back(e);
    uint64_t rank = 0; bool complete = true;
    for (int neg = 0; neg < 2 && complete; ++neg)
    for (const char* ip : ints) for (int nf : fracs) for (const char* pat : pats) {
        if (!complete) break;
        std::string frac;
        if (nf > 0) {
            std::string p = pat;
            if (p == "0" || p == "9" || p == "1") frac.assign(nf, p[0]);
            else if (p == "49") { frac = "4"; frac.append(nf > 1 ? nf - 1 : 0, '9'); }
            else if (p == "50") { frac = "5"; frac.append(nf > 1 ? nf - 1 : 0, '0'); }
            else if (p == "501") { frac = "5"; frac.append(nf > 1 ? nf - 1 : 0, '0'); frac.back() = nf > 1 ? '1' : '5'; }
            else { frac = p; frac.resize(nf, '0'); }
        } else if (std::string(pat) != "0") continue;
        std::string base = std::string(neg ? "-" : "") + ip + (nf ? "." + frac : "");
        if (*ip == 0 && nf == 0) continue;
        // without exponent
        if (a.mine(rank++)) check_coord_string(base, "grammar");
        // exponents: the full -99999..99999 sweep for a reduced set of bases, a boundary set for all
        bool full = a.thorough || ((nf == 0 || nf == 7 || nf == 9) && (std::string(pat) == "0" || std::string(pat) == "9" || std::string(pat) == "000000001") && strlen(ip) <= 3);
        if (full) {
            for (long long e : exps) {
                if (!a.mine(rank++)) continue;
                if ((rank & 0x3ffff) == 0 && a.expired()) { complete = false; break; }
                check_coord_string(base + "e" + std::to_string(e), "grammar");
            }
        } else {
            for (long long e : {-99999LL, -100LL, -57LL, -56LL, -30LL, -20LL, -19LL, -10LL, -9LL, -8LL, -7LL, -2LL, -1LL, 0LL, 1LL, 2LL, 3LL, 7LL, 8LL, 9LL, 10LL, 11LL, 18LL, 19LL, 20LL, 55LL, 56LL, 57LL, 63LL, 64LL, 65LL, 100LL, 99999LL}) {
                if (!a.mine(rank++)) continue;
                check_coord_string(base + "e" + std::to_string(e), "grammar");
                check_coord_string(base + "E" + std::to_string(e), "grammar");
            }
        }
    }
    benum::bound(std::string("grammar-directed: 2 signs x 18 integer parts x 14 fraction lengths x 10 digit patterns x ") + (a.thorough ? "every exponent -99999..99999 for every base" : "every exponent -99999..99999 for the reduced base set, 33 boundary exponents for the rest"), complete);
    benum::sample("grammar: '-180.0000000049999999999e0', '0.000000001e9', '1e56', '9999999999.99999999e-5'");
}

static std::vector<int64_t> neighbourhoods(int64_t lo, int64_t hi, int64_t radius) {
    std::vector<int64_t> c{0, 1800000000, -1800000000, 900000000, -900000000, lo, hi, 10000000, 100000000, 1000000000, 2000000000, 2140000000, -2140000000};
    for (int64_t p = 1; p <= hi; p *= 10) { c.push_back(p); c.push_back(-p); }
    for (int64_t p = 1; p <= hi; p *= 2) { c.push_back(p); c.push_back(-p); }
    std::vector<int64_t> out;
    for (auto v : c) for (int64_t d = -radius; d <= radius; ++d) { int64_t x = v + d; if (x >= lo && x <= hi) out.push_back(x); }
    std::sort(out.begin(), out.end()); out.erase(std::unique(out.begin(), out.end()), out.end());
    return out;
}

static void part_coord_rt(const Args& a) {
    bool complete = true;
    if (a.thorough) {
        uint64_t per = (1ull << 32) / a.nshards + 1, b = per * a.shard, e = std::min<uint64_t>(b + per, 1ull << 32);
        for (uint64_t u = b; u < e; ++u) {
            if ((u & 0xffffff) == 0 && a.expired()) { complete = false; break; }
            check_coord_rt(static_cast<int32_t>(static_cast<uint32_t>(u)));
        }
        benum::bound("coordinate round trip: all 2^32 int32 values", complete);
    } else {
        auto nb = neighbourhoods(INT32_MIN, INT32_MAX, 8192);
        for (size_t i = a.shard; i < nb.size(); i += a.nshards) check_coord_rt(static_cast<int32_t>(nb[i]));
        for (int64_t x = INT32_MIN + static_cast<int64_t>(a.shard) * 4099; x <= INT32_MAX; x += 4099LL * a.nshards) check_coord_rt(static_cast<int32_t>(x));
        benum::bound("coordinate round trip: +-8192 around powers of 10 and 2, +-180e7, +-90e7, int32 limits; every 4099th int32", true);
    }
    benum::sample("coord_rt: x=-1799999999 -> '-179.9999999' -> -1799999999");
}

static void part_ts_rt(const Args& a) {
    bool complete = true;
    if (a.thorough) {
        uint64_t per = (1ull << 32) / a.nshards + 1, b = per * a.shard, e = std::min<uint64_t>(b + per, 1ull << 32);
        for (uint64_t u = b; u < e; ++u) {
            if ((u & 0xffffff) == 0 && a.expired()) { complete = false; break; }
            check_ts_rt(static_cast<uint32_t>(u));
        }
        benum::bound("timestamp round trip: all 2^32 uint32 values", complete);
    } else {
        auto nb = neighbourhoods(0, 0xffffffffLL, 8192);
        for (size_t i = a.shard; i < nb.size(); i += a.nshards) check_ts_rt(static_cast<uint32_t>(nb[i]));
        for (uint64_t x = a.shard * 4099ull; x <= 0xffffffffull; x += 4099ull * a.nshards) check_ts_rt(static_cast<uint32_t>(x));
        // every day boundary and every last second of a day 1970..2106
        for (uint64_t d = a.shard; d * 86400 <= 0xffffffffull; d += a.nshards) { check_ts_rt(static_cast<uint32_t>(d * 86400)); if (d) check_ts_rt(static_cast<uint32_t>(d * 86400 - 1)); }
        benum::bound("timestamp round trip: +-8192 around powers of 10 and 2 and the uint32 limits; every 4099th value; first and last second of every day 1970-2106", true);
    }
    benum::sample("ts_rt: t=4294967295 -> '2106-02-07T06:28:15Z' -> 4294967295");
}

static void part_tsstr(const Args& a) {
    uint64_t rank = 0;
    const std::string base = "2015-06-15T12:30:45Z";
    auto run = [&](const std::string& s) { if (a.mine(rank++)) check_ts_string(s); };
    auto two = [](int v) { char b[8]; snprintf(b, sizeof b, "%02d", v); return std::string(b); };
    static const int pos2[] = {5, 8, 11, 14, 17};
    // one 2-digit field at a time, every value 00..99, and all pairs of fields
    for (int f = 0; f < 5; ++f) for (int v = 0; v < 100; ++v) { std::string s = base; s.replace(pos2[f], 2, two(v)); run(s); }
    for (int f = 0; f < 5; ++f) for (int g = f + 1; g < 5; ++g) for (int v = 0; v < 100; ++v) for (int w = 0; w < 100; ++w) {
        std::string s = base; s.replace(pos2[f], 2, two(v)); s.replace(pos2[g], 2, two(w)); run(s);
    }
    // every year 0000..9999 with three day-of-year probes
    for (int y = 0; y <= 9999; ++y) for (const char* rest : {"-01-01T00:00:00Z", "-02-29T12:00:00Z", "-12-31T23:59:60Z", "-02-07T06:28:15Z", "-02-07T06:28:16Z"}) {
        char b[8]; snprintf(b, sizeof b, "%04d", y); run(std::string(b) + rest);
    }
    // every calendar day 1969..2107 at two times of day
    for (int y = 1969; y <= 2107; ++y) for (int m = 1; m <= 12; ++m) for (int d = 1; d <= 31; ++d) for (const char* t : {"T00:00:00Z", "T23:59:59Z"}) {
        char b[16]; snprintf(b, sizeof b, "%04d-%02d-%02d", y, m, d); run(std::string(b) + t);
    }
    // separators / structure: every position replaced by each of a character set; truncations; fractions
    static const char repl[] = "0 9-:TZtz.,+x/";
    for (size_t p = 0; p < base.size(); ++p) for (const char* c = repl; *c; ++c) { std::string s = base; s[p] = *c; run(s); }
    for (size_t n = 0; n <= base.size(); ++n) run(base.substr(0, n));
    for (const char* tail : {"", "Z", "ZZ", " ", "x", "+00:00", ".", ".Z", ".5", ".5Z", ",5Z", ".123456789Z", ".5ZZ", ".5 Z", ".5x", ",", ",,5Z", ".-5Z", ".5.5Z"}) run(base.substr(0, 19) + tail);
    benum::bound("timestamp strings: every 2-digit field 00-99 singly and in all pairs; every year 0000-9999 x 5 probes; every day 1969-2107 x 2; every position x 14 replacement characters; all truncations; 19 suffix forms", true);
    benum::sample("tsstr: '2015-02-30T12:30:45Z' (calendar-invalid, unspecified), '2107-01-01T00:00:00Z' (must be rejected), '2015-06-15T12:30:45.5Z'");
}

static void part_ints(const Args& a) {
    uint64_t rank = 0;
    std::vector<std::string> centres = {"0", "127", "128", "255", "256", "32767", "32768", "65535", "65536", "2147483647", "2147483648", "4294967295", "4294967296",
        "9223372036854775807", "9223372036854775808", "18446744073709551615", "18446744073709551616", "99999999999999999999", "922337203685477580", "9223372036854775800"};
    auto add = [](std::string m, int d) {   // decimal string +- small d (m >= 3 assumed when subtracting)
        std::string r = m; int i = static_cast<int>(r.size()) - 1; int carry = d;
        while (i >= 0 && carry != 0) { int v = (r[i] - '0') + carry; carry = 0; while (v < 0) { v += 10; --carry; } while (v > 9) { v -= 10; ++carry; } r[i] = static_cast<char>('0' + v); --i; }
        if (carry > 0) r = std::to_string(carry) + r;
        size_t nz = r.find_first_not_of('0'); return nz == std::string::npos ? std::string("0") : r.substr(nz);
    };
    std::vector<std::string> vals;
    for (auto& c : centres) for (int d = -3; d <= 3; ++d) { if (c.size() == 1 && d < 0) continue; vals.push_back(add(c, d)); }
    std::sort(vals.begin(), vals.end()); vals.erase(std::unique(vals.begin(), vals.end()), vals.end());
    static const char* const pre[] = {"", "-", "+", " ", "0", "00", "-0", "- ", "\t", "0x"};
    static const char* const suf[] = {"", " ", "x", ".", ".0", "e1", "\n", "-", ","};
    for (auto& v : vals) for (auto p : pre) for (auto s : suf) { if (a.mine(rank++)) ints_for(std::string(p) + v + s); }
    for (const char* s : {"", "-", "+", " ", "--1", "-+1", "+-1", "-1", "- 1", "1-", "0", "-0", "+0", "00", "n1", "1n", "\xff", "1\xff"}) if (a.mine(rank++)) ints_for(s);
    // output_int
    for (auto& v : vals) { if (v.size() > 19 || (v.size() == 19 && v > "9223372036854775807")) continue; int64_t x = strtoll(v.c_str(), nullptr, 10); if (a.mine(rank++)) { check_output_int(x); if (x != INT64_MIN) check_output_int(-x); } }
    if (a.shard == 0) check_output_int(INT64_MIN + 1);
    benum::bound("integer attributes: values within +-3 of 20 type boundaries x 10 prefixes x 9 suffixes through 7 parsers; output_int on the same values", true);
    benum::sample("ints: string_to_changeset_id('4294967295'), opl_parse_int<int64>('-9223372036854775808'), string_to_object_id(' 5')");
}

// --- history independence ------------------------------------------------------------------------
// The conversions are pure functions of their argument. Every sequence of 2 (quick) | 3 (thorough) calls over an alphabet of
// (function, string) pairs - with in-range values, values that overflow the C library's conversion (leaving errno == ERANGE),
// malformed strings - must give, for its LAST call, the result that call gives when it is made first in a fresh process state
// (errno = 0). State that leaks from one call into the next (errno, static buffers, caches) shows here and nowhere else.
struct HCall { int fn; const char* s; };
static std::string hist_result(const HCall& c) {
    using namespace osmium;
    try {
        switch (c.fn) {
            case 0: return "ok:" + std::to_string(string_to_object_id(c.s));
            case 1: return "ok:" + std::to_string(string_to_object_version(c.s));
            case 2: return "ok:" + std::to_string(string_to_changeset_id(c.s));
            case 3: return "ok:" + std::to_string(string_to_uid(c.s));
            case 4: { Location l; l.set_lon(c.s); return "ok:" + std::to_string(l.x()); }
            case 5: return "ok:" + std::to_string(static_cast<uint32_t>(Timestamp{c.s}));
            case 6: { const char* p = c.s; return "ok:" + std::to_string(io::detail::opl_parse_int<int64_t>(&p)); }
            default: { Timestamp t{static_cast<uint32_t>(strtoul(c.s, nullptr, 10))}; return "ok:" + t.to_iso(); }
        }
    } catch (const std::exception& e) { return std::string("throws:") + typeid(e).name(); }
}
static const char* const HFN[] = {"string_to_object_id", "string_to_object_version", "string_to_changeset_id", "string_to_uid", "Location::set_lon", "Timestamp(string)", "opl_parse_int<int64>", "Timestamp::to_iso"};
static void part_history(const Args& a) {
    static const char* const strs[] = {"1", "17", "4294967294", "9223372036854775807", "9223372036854775808", "99999999999999999999999", "-5", "x", "1e400", "2015-01-01T00:00:00Z", "1.5"};
    std::vector<HCall> alpha;
    for (int f = 0; f < 8; ++f) for (const char* s : strs) alpha.push_back(HCall{f, s});
    std::vector<std::string> alone;
    for (const HCall& c : alpha) { errno = 0; alone.push_back(hist_result(c)); }
    const size_t N = alpha.size();
    const unsigned len = a.thorough ? 3 : 2;
    const uint64_t total = benum::ipow(N, len);
    uint64_t ev = 0; bool complete = true;
    for (uint64_t r = a.shard; r < total; r += a.nshards) {
        if ((r & 0xffff) == a.shard && a.expired()) { complete = false; break; }
        uint64_t x = r; size_t idx[3];
        for (unsigned p = 0; p < len; ++p) { idx[p] = x % N; x /= N; }
        errno = 0;
        for (unsigned p = 0; p + 1 < len; ++p) hist_result(alpha[idx[p]]);
        const std::string got = hist_result(alpha[idx[len - 1]]);
        ++ev;
        if (got != alone[idx[len - 1]]) {
            const HCall& last = alpha[idx[len - 1]]; const HCall& prev = alpha[idx[len - 2]];
            std::string spec = "hist";
            for (unsigned p = 0; p < len; ++p) spec += ":" + std::to_string(idx[p]);
            V.report(std::string("history/result-depends-on-earlier-call/") + HFN[last.fn] + "/after-" + HFN[prev.fn],
                     std::string(HFN[last.fn]) + "('" + last.s + "') gives " + alone[idx[len - 1]] + " when called first, but " + got + " after " + HFN[prev.fn] + "('" + prev.s + "')", spec);
        }
    }
    C["evaluations"] += ev; C["distinct_nontrivial"] += ev; C["call_histories"] += ev;
    benum::bound("call histories: every sequence of " + std::to_string(len) + " calls over " + std::to_string(N) + " (function, string) pairs, last result compared with the call alone", complete);
    if (a.shard == 0) benum::sample("history: string_to_object_id('9223372036854775808') [throws, errno=ERANGE] then string_to_object_version('17') -> 17, as when called alone");
}

static void replay(const std::string& spec) {
    size_t c = spec.find(':');
    std::string kind = spec.substr(0, c), rest = spec.substr(c + 1);
    if (kind == "coordstr") check_coord_string(benum::unhex(rest), "replay");
    else if (kind == "coordrt") check_coord_rt(static_cast<int32_t>(atoll(rest.c_str())));
    else if (kind == "tsrt") check_ts_rt(static_cast<uint32_t>(strtoull(rest.c_str(), nullptr, 10)));
    else if (kind == "tsstr") check_ts_string(benum::unhex(rest));
    else if (kind == "int") { size_t d = rest.find(':'); ints_for(benum::unhex(rest.substr(d + 1))); }
    else if (kind == "outint") check_output_int(atoll(rest.c_str()));
    else if (kind == "hist") {      // indexes into the call alphabet
        static const char* const strs[] = {"1", "17", "4294967294", "9223372036854775807", "9223372036854775808", "99999999999999999999999", "-5", "x", "1e400", "2015-01-01T00:00:00Z", "1.5"};
        std::vector<HCall> alpha;
        for (int f = 0; f < 8; ++f) for (const char* s2 : strs) alpha.push_back(HCall{f, s2});
        std::vector<size_t> idx; size_t p0 = 0;
        while (p0 <= rest.size()) { size_t q = rest.find(':', p0); if (q == std::string::npos) q = rest.size(); idx.push_back(static_cast<size_t>(atoll(rest.substr(p0, q - p0).c_str()))); p0 = q + 1; }
        errno = 0; const std::string alone = hist_result(alpha[idx.back()]);
        errno = 0; for (size_t k = 0; k + 1 < idx.size(); ++k) hist_result(alpha[idx[k]]);
        const std::string got = hist_result(alpha[idx.back()]);
        const HCall& last = alpha[idx.back()]; const HCall& prev = alpha[idx[idx.size() - 2]];
        if (got != alone) V.report(std::string("history/result-depends-on-earlier-call/") + HFN[last.fn] + "/after-" + HFN[prev.fn], "replayed: alone " + alone + ", in the history " + got, spec);
    }
}

int main(int argc, char** argv) {
    Args a = benum::parse_args(argc, argv);
    if (a.replay) { replay(a.replay_spec); return 0; }
    std::string part = a.rest.size() >= 2 && a.rest[0] == "--part" ? a.rest[1] : "";
    if (part == "coord_rt") part_coord_rt(a);
    else if (part == "ts_rt") part_ts_rt(a);
    else if (part == "short") part_short(a);
    else if (part == "grammar") part_grammar(a);
    else if (part == "tsstr") part_tsstr(a);
    else if (part == "ints") part_ints(a);
    else if (part == "history") part_history(a);
    else { fprintf(stderr, "unknown part\n"); return 2; }
    C.emit();
    return 0;
}
