"""C13 - coordinate, timestamp and number text conversions (DESIGN.md section 5, C13)."""
LEVEL = "exploration"
RULE = ("finite-domain enumeration with rank<->case bijection, every case distinct by construction: "
        "(coord_rt) int32 x -> text -> x; (ts_rt) uint32 t -> ISO text -> t; (short) every string of length <= 6|7 over "
        "{0-9 . - + e E space x}; (grammar) sign x integer part x fraction length x digit pattern x exponent -99999..99999; "
        "(tsstr) timestamp strings by field value; (ints) integer attribute strings around type boundaries. Oracle: exact decimal "
        "digit-string arithmetic / civil-calendar arithmetic / decimal string comparison written in the harness. "
        "Non-trivial = round-trip values with a non-zero last decimal or non-midnight second; strings that pass the library's "
        "first grammar check and carry an exponent or > 7 fraction digits, or are rejected by the range check; accepted/out-of-range "
        "integers (not the malformed ones).")
DEADLINE = {"quick": 200, "thorough": 1500}
PARTS = ["coord_rt", "ts_rt", "short", "grammar", "tsstr", "ints", "history"]


def build(ctx):
    return {"h13": ctx.build("h13", ["h13.cpp"], opt="-O2")}


def run(ctx):
    exe = build(ctx)["h13"]
    if getattr(ctx, "build_only", False):
        return
    for part in PARTS:
        shards = 16 if part in ("coord_rt", "ts_rt", "short", "grammar") else 4
        ctx.run_harness(exe, ["--part", part], shards=shards)
    ctx.assume("exact ties in the 8th decimal may round either way; digit counts beyond 10 integer / 20 fraction / 4 exponent digits "
               "may be rejected but never mis-valued; calendar-invalid days inside the per-month table (30 Feb) are unspecified")
