#!/usr/bin/env python3
"""Promela layer of C19 (engine/spin/queue.pml): exhaustive Spin exploration of the Queue model + two-way binding to the code.

  safety   : for every model configuration, ALL interleavings (no preemption bound) - assertions = the C19 oracle, invalid end
             states = deadlock / lost wake-up
  impl2model: every schedule the vsched explorer executed on the real Queue (deviation bound <= K) is replayed through the model
             (one pan run per configuration, the model may only take the recorded step at each position) and must be accepted
             with the same outcome string
  model2impl: every complete path of the model (small configurations, history variable, <= TMAX timeout steps) is executed on
             the real Queue with the scheduler following the path step by step; every step must be enabled in the
             implementation and the outcome must be equal
"""
import os, re, subprocess, sys, time, hashlib, collections

VERIF = os.path.dirname(os.path.dirname(os.path.dirname(os.path.abspath(__file__))))
PML = os.path.join(VERIF, "engine", "spin", "queue.pml")


class Cfg:
    def __init__(self, name, np, per, maxsz, pops, shut, trypop=0):
        self.name, self.np, self.per, self.maxsz, self.pops, self.shut, self.trypop = name, np, per, maxsz, list(pops), shut, trypop

    def defs(self):
        p = self.pops + [1, 1]
        return ["-DK_NP=%d" % self.np, "-DK_PER=%d" % self.per, "-DK_MAXSZ=%d" % self.maxsz, "-DK_NC=%d" % len(self.pops),
                "-DK_POPS0=%d" % p[0], "-DK_POPS1=%d" % p[1], "-DK_TRY=%d" % self.trypop, "-DK_SHUT=%d" % (1 if self.shut else 0)]


# must mirror the QCfg list of h19.cpp (same names)
H19 = [
    Cfg("Q1:1prod x3,2 cons,unbounded", 1, 3, 0, [2, 1], False),
    Cfg("Q2:2prod x2,1 cons,max=1", 2, 2, 1, [4], False),
    Cfg("Q2:2prod x2,1 cons,max=2", 2, 2, 2, [4], False),
    Cfg("Q2b:1prod x3,1 cons,max=1", 1, 3, 1, [3], False),
    Cfg("Q3:prod x3,cons x3,shutdown thread,max=1", 1, 3, 1, [3], True),
    Cfg("Q3:prod x2,cons x2,shutdown thread,unbounded", 1, 2, 0, [2], True),
    Cfg("Q4:prod x3,try_pop x3,max=3", 1, 3, 3, [], False, 3),
    Cfg("Q4:prod x2,try_pop x2 + cons x1,max=1", 1, 2, 1, [1], False, 1),
    Cfg("Q5:2 cons blocked,shutdown", 0, 0, 0, [1, 1], True),
    Cfg("Q6:1prod x3,1 cons,max=3", 1, 3, 3, [3], False),
    Cfg("Q6:1prod x4,1 cons,max=4", 1, 4, 4, [4], False),
]
# small configurations whose complete path sets are replayed on the implementation (names exist in h19.cpp too)
SMALL = [
    Cfg("M1:1 cons blocked,shutdown", 0, 0, 0, [1], True),
    Cfg("M2:prod x1,cons x1,unbounded", 1, 1, 0, [1], False),
    Cfg("M3:prod x2,cons x2,max=1", 1, 2, 1, [2], False),
    Cfg("M4:prod x1,cons x1,shutdown,unbounded", 1, 1, 0, [1], True),
    Cfg("Q5:2 cons blocked,shutdown", 0, 0, 0, [1, 1], True),
]
# larger configurations for the unbounded safety search only
BIG = [
    Cfg("B1:2prod x2,2 cons x2,max=1", 2, 2, 1, [2, 2], False),
    Cfg("B2:2prod x2,2 cons x2,max=2,shutdown", 2, 2, 2, [2, 2], True),
    Cfg("B3:2prod x2,cons x4 + try_pop x2,max=1", 2, 2, 1, [2], False, 2),
    Cfg("B4:2prod x3,2 cons x3,unbounded", 2, 3, 0, [3, 3], False),
    Cfg("B5:3prod x2,2 cons x3,max=2", 3, 2, 2, [3, 3], False),
    Cfg("B6:3prod x2,2 cons x3,max=1,shutdown", 3, 2, 1, [3, 3], True),
    Cfg("B7:3prod x2,cons x3 + try_pop x3,max=1,shutdown", 3, 2, 1, [3], True, 3),
]


def sh(cmd, cwd, timeout=3600):
    return subprocess.run(cmd, cwd=cwd, stdout=subprocess.PIPE, stderr=subprocess.STDOUT, text=True, timeout=timeout)


def build_pan(work, mode, cfg, extra=(), memlim=8192, noreduce=False):
    os.makedirs(work, exist_ok=True)
    r = sh(["spin", "-a", "-D" + mode] + cfg.defs() + list(extra) + [PML], work)
    if r.returncode != 0 or "rror" in r.stdout:
        raise RuntimeError("spin -a failed: " + r.stdout[-2000:])
    cmd = ["gcc", "-O2", "-w", "-DSAFETY", "-DMEMLIM=%d" % memlim, "-D" + mode] + cfg.defs() + list(extra) + (["-DNOREDUCE"] if noreduce else []) + ["-o", "pan", "pan.c"]
    r = sh(cmd, work)
    if r.returncode != 0:
        raise RuntimeError("gcc pan.c failed: " + r.stdout[-2000:])
    return os.path.join(work, "pan")


def pan_stats(out):
    st = {}
    m = re.search(r"errors:\s*(\d+)", out); st["errors"] = int(m.group(1)) if m else -1
    m = re.search(r"(\d+) states, stored", out); st["states"] = int(m.group(1)) if m else 0
    m = re.search(r"(\d+) transitions", out); st["transitions"] = int(m.group(1)) if m else 0
    st["truncated"] = "max search depth too small" in out or "out of memory" in out.lower()
    return st


def safety(work, cfg, timeout):
    pan = build_pan(work, "MODE_SAFETY", cfg)
    r = sh(["timeout", str(int(timeout)), pan, "-m200000"], work, timeout + 30)
    st = pan_stats(r.stdout)
    st["complete"] = r.returncode == 0 and not st["truncated"] and st["errors"] >= 0
    if st["errors"] > 0:
        t = sh([pan, "-r", "-n"], work)   # replay the trail for the report
        st["trail"] = r.stdout[-1500:] + "\n" + t.stdout[-3000:]
    return st


def model_paths(work, cfg, tmax, timeout):
    pan = build_pan(work, "MODE_PATHS", cfg, ["-DK_TMAX=%d" % tmax], noreduce=True)
    p = os.path.join(work, "paths.out")
    if os.path.exists(p): os.unlink(p)
    r = sh(["timeout", str(int(timeout)), pan, "-m200000", "-c0"], work, timeout + 30)
    st = pan_stats(r.stdout)
    st["complete"] = r.returncode == 0 and not st["truncated"]
    paths = sorted(set(l.rstrip("\n") for l in open(p))) if os.path.exists(p) else []
    return st, paths


def impl_accepts(work, cfg, traces, timeout):
    """traces: list of (script string, outcome). Returns (accepted, mismatched, rejected indexes)."""
    os.makedirs(work, exist_ok=True)
    n = len(traces)
    bits = max(1, (n - 1).bit_length())
    with open(os.path.join(work, "traces.h"), "w") as f:
        f.write("#ifndef TRACES_H\n#define TRACES_H\n#define NTRACES %d\n" % n)
        rows, lens = [], []
        for sc, out in traces:
            ents = []
            for tok in sc.split():
                k = {"r": 0, "t": 1, "s": 2}[tok[0]]
                ents.append(k * 64 + int(tok[1:]))
            lens.append(len(ents)); rows.append(ents)
        mx = max(lens)
        f.write("static const unsigned short TRLEN[NTRACES] = {%s};\n" % ",".join(map(str, lens)))
        f.write("static const unsigned char TRACE[NTRACES][%d] = {\n" % mx)
        for e in rows:
            f.write("{" + ",".join(map(str, e)) + "},\n")
        f.write("};\nstatic const char* const EXPECT[NTRACES] = {\n")
        for sc, out in traces:
            f.write('"%s",\n' % out.replace("\\", "\\\\").replace('"', '\\"'))
        f.write("};\n#endif\n")
    pan = build_pan(work, "MODE_SCRIPT", cfg, ["-DNTRACES=%d" % n, "-DTRBITS=%d" % bits], noreduce=True)
    r = sh(["timeout", str(int(timeout)), pan, "-m200000", "-c0"], work, timeout + 30)
    st = pan_stats(r.stdout)
    m = re.search(r"ACCEPTED (\d+) OUTCOME-MISMATCH (\d+) OF (\d+)", r.stdout)
    acc, mis = (int(m.group(1)), int(m.group(2))) if m else (0, 0)
    st["complete"] = r.returncode == 0 and not st["truncated"] and m is not None
    st["log"] = r.stdout[-1500:]
    return acc, mis, st


if __name__ == "__main__":
    import json
    work = os.path.join(VERIF, "build", "spin-dev")
    c = {x.name: x for x in H19 + SMALL + BIG}[sys.argv[2]]
    if sys.argv[1] == "safety":
        print(json.dumps(safety(work, c, 600), indent=1))
    elif sys.argv[1] == "paths":
        st, paths = model_paths(work, c, int(sys.argv[3]) if len(sys.argv) > 3 else 1, 600)
        print(st, len(paths))
