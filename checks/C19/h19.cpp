// C19 - thread::Queue is FIFO and loss-free; thread::Pool runs every task exactly once.
// Closed drivers on the real Queue<int> / Pool, explored under vsched (all schedules with <= k
// deviations). The same bodies are compiled with vsched_free.cpp for the free-running TSan pass.
#include <vsched/vsched.hpp>

#include <osmium/thread/pool.hpp>
#include <osmium/thread/queue.hpp>

#include <atomic>
#include <cstdio>
#include <functional>
#include <map>
#include <memory>
#include <sstream>
#include <stdexcept>
#include <string>
#include <thread>
#include <vector>

using osmium::thread::Pool;
using osmium::thread::Queue;

namespace {

// Observation log. Under vsched only one thread runs at a time; in the free-running (TSan) build
// the spin lock makes the log itself race-free without adding pthread synchronisation.
struct Log {
    std::atomic_flag busy = ATOMIC_FLAG_INIT;
    std::vector<std::string> ev;
    void add(const std::string& s) {
        while (busy.test_and_set(std::memory_order_acquire)) {}
        ev.push_back(s);
        busy.clear(std::memory_order_release);
    }
};

std::string join(const std::vector<int>& v) {
    std::string s;
    for (size_t i = 0; i < v.size(); ++i) { if (i) s += ','; s += std::to_string(v[i]); }
    return s;
}

// per-producer FIFO: the popped sequence restricted to one producer's values must be in push order
bool subsequence_in_order(const std::vector<int>& popped, const std::vector<int>& pushed) {
    size_t j = 0;
    for (int v : popped) {
        bool found = false;
        for (; j < pushed.size(); ++j) if (pushed[j] == v) { found = true; ++j; break; }
        if (!found) return false;
    }
    return true;
}

struct QCfg {
    std::string name;
    int producers, per_producer, max_size;
    std::vector<int> consumer_pops;   // number of wait_and_pop calls per consumer
    bool shutdown_thread;             // a third thread calls shutdown()
    int try_pop_attempts;             // > 0: one extra consumer doing that many try_pop calls
};

void queue_body(const QCfg& c) {
    Queue<int> q{static_cast<std::size_t>(c.max_size), "q"};
    Log log;
    vsched::raw_atomic<int> maxsize{0};
    std::vector<std::vector<int>> pushed(c.producers), popped(c.consumer_pops.size());
    std::vector<int> try_popped;
    std::vector<std::thread> th;
#ifdef VSCHED_FREE
    auto note_size = [&]() { int s = static_cast<int>(q.size()); if (s > maxsize) maxsize = s; };      // locked: real threads
#else
    auto note_size = [&]() { int s = static_cast<int>(q.m_queue.size()); if (s > maxsize) maxsize = s; };   // no extra scheduling point
#endif
    for (int p = 0; p < c.producers; ++p) {
        th.emplace_back([&, p] {
            for (int i = 0; i < c.per_producer; ++i) {
                int v = (p + 1) * 10 + i;
                pushed[p].push_back(v);
                q.push(v);
                note_size();
            }
        });
    }
    for (size_t k = 0; k < c.consumer_pops.size(); ++k) {
        th.emplace_back([&, k] {
            for (int i = 0; i < c.consumer_pops[k]; ++i) {
                int v = -1;
                q.wait_and_pop(v);
                if (v == -1) { log.add("c" + std::to_string(k) + ":woken-empty"); if (q.in_use()) vsched::fail("queue/wait_and_pop-returned-empty-while-in-use", "consumer " + std::to_string(k)); break; }
                popped[k].push_back(v);
            }
        });
    }
    if (c.try_pop_attempts) {
        th.emplace_back([&] {
            for (int i = 0; i < c.try_pop_attempts; ++i) { int v = -1; if (q.try_pop(v)) try_popped.push_back(v); }
        });
    }
    if (c.shutdown_thread) th.emplace_back([&] { q.shutdown(); log.add("shutdown"); });
    for (auto& t : th) t.join();
    // drain what is left (single-threaded now)
    std::vector<int> rest;
    for (int v = -1; q.try_pop(v); v = -1) rest.push_back(v);

    // ---- oracle
    std::map<int, int> count;
    std::vector<std::vector<int>> seqs = popped;
    seqs.push_back(try_popped);
    for (auto& s : seqs) for (int v : s) ++count[v];
    for (int v : rest) ++count[v];
    size_t total_pushed = 0;
    for (auto& pp : pushed) total_pushed += pp.size();
    std::ostringstream out;
    for (auto& kv : count) if (kv.second > 1) vsched::fail("queue/element-duplicated", "value " + std::to_string(kv.first) + " delivered " + std::to_string(kv.second) + " times");
    for (auto& kv : count) { bool known = false; for (auto& pp : pushed) for (int v : pp) if (v == kv.first) known = true; if (!known) vsched::fail("queue/element-invented", "value " + std::to_string(kv.first)); }
    if (!c.shutdown_thread) {
        for (auto& pp : pushed) for (int v : pp) if (!count.count(v)) vsched::fail("queue/element-lost", "value " + std::to_string(v) + " was pushed while the queue was in use but never delivered");
    }
    // FIFO per producer, for every consumer; and globally over the single-consumer sequence
    for (size_t k = 0; k < seqs.size(); ++k) for (int p = 0; p < c.producers; ++p) {
        std::vector<int> mine;
        for (int v : seqs[k]) if (v / 10 == p + 1) mine.push_back(v);
        if (!subsequence_in_order(mine, pushed[p])) vsched::fail("queue/fifo-violated", "consumer " + std::to_string(k) + " got [" + join(seqs[k]) + "] but producer " + std::to_string(p) + " pushed [" + join(pushed[p]) + "]");
    }
    // with exactly one consumer nothing may be skipped either: its sequence restricted to a producer is a prefix
    if (popped.size() == 1 && try_popped.empty() && !c.shutdown_thread) {
        std::vector<int> all = popped[0]; all.insert(all.end(), rest.begin(), rest.end());
        for (int p = 0; p < c.producers; ++p) { std::vector<int> mine; for (int v : all) if (v / 10 == p + 1) mine.push_back(v); if (mine != pushed[p]) vsched::fail("queue/fifo-violated", "single consumer order [" + join(all) + "]"); }
    }
    if (c.max_size > 0) {
        int allowed = c.max_size + c.producers - 1;     // the check-then-act window of push() is part of the documented behaviour
        if (maxsize > allowed) vsched::fail("queue/bound-exceeded", "size reached " + std::to_string(maxsize.load()) + " with max_size " + std::to_string(c.max_size) + " and " + std::to_string(c.producers) + " producer(s)");
    }
    out << "popped=";
    for (auto& s : seqs) out << "[" << join(s) << "]";
    out << " rest=[" << join(rest) << "] maxsize=" << maxsize << " log=" << log.ev.size();
    vsched::observe(out.str());
}

struct PCfg {
    std::string name;
    int workers, tasks, queue_bound, submitters;
    bool reverse_get, destroy_early;
    bool reuse_callable = false;     // every task is the SAME callable object (an lvalue std::function / functor with state), submitted repeatedly
};

// a callable whose move differs from its copy (it owns heap state): submitting it must not consume the caller's object
struct StatefulTask {
    std::vector<int> data;
    vsched::raw_atomic<int>* ran;
    int operator()() const { ++*ran; int s = 0; for (int v : data) s += v; return s; }
};

void pool_reuse_body(const PCfg& c) {
    vsched::raw_atomic<int> ran_fn{0}, ran_st{0};
    std::vector<std::future<int>> ffn, fst;
    {
        Pool pool{c.workers, static_cast<std::size_t>(c.queue_bound)};
        std::function<int()> fn = [&ran_fn]() -> int { ++ran_fn; return 4711; };
        StatefulTask st{{1, 2, 3, 4, 5, 6, 7, 8, 9, 10}, &ran_st};
        for (int i = 0; i < c.tasks; ++i) { ffn.push_back(pool.submit(fn)); fst.push_back(pool.submit(st)); }
        for (int i = 0; i < c.tasks; ++i) {
            try { int v = ffn[static_cast<size_t>(i)].get(); if (v != 4711) vsched::fail("pool/wrong-result/reused-callable", "std::function submitted as an lvalue, submission " + std::to_string(i) + " -> " + std::to_string(v)); }
            catch (const std::exception& e) { vsched::fail("pool/exception-instead-of-result/reused-callable", std::string("std::function submitted as an lvalue, submission ") + std::to_string(i) + ": " + e.what()); }
            try { int v = fst[static_cast<size_t>(i)].get(); if (v != 55) vsched::fail("pool/wrong-result/reused-callable", "stateful functor submitted as an lvalue, submission " + std::to_string(i) + " -> " + std::to_string(v)); }
            catch (const std::exception& e) { vsched::fail("pool/exception-instead-of-result/reused-callable", std::string("stateful functor, submission ") + std::to_string(i) + ": " + e.what()); }
        }
        if (!fn) vsched::fail("pool/submit-consumed-the-callers-callable", "the std::function passed as an lvalue is empty after submit()");
        if (st.data.size() != 10) vsched::fail("pool/submit-consumed-the-callers-callable", "the functor passed as an lvalue lost its state after submit()");
    }
    if (ran_fn != c.tasks || ran_st != c.tasks) vsched::fail("pool/task-lost-or-ran-twice/reused-callable", "ran " + std::to_string(ran_fn.load()) + " and " + std::to_string(ran_st.load()) + " times, submitted " + std::to_string(c.tasks) + " times each");
    vsched::observe("reuse ran=" + std::to_string(ran_fn.load()) + "," + std::to_string(ran_st.load()));
}

void pool_body(const PCfg& c) {
    if (c.reuse_callable) { pool_reuse_body(c); return; }
    std::vector<std::unique_ptr<vsched::raw_atomic<int>>> ran;
    for (int i = 0; i < c.tasks * c.submitters; ++i) ran.emplace_back(new vsched::raw_atomic<int>{0});
    std::vector<std::future<int>> futs(c.tasks * c.submitters);
    std::ostringstream out;
    {
        Pool pool{c.workers, static_cast<std::size_t>(c.queue_bound)};
        auto submit_range = [&](int s) {
            for (int i = 0; i < c.tasks; ++i) {
                int idx = s * c.tasks + i;
                vsched::raw_atomic<int>* r = ran[idx].get();
                futs[idx] = pool.submit([r, idx]() -> int { ++*r; if (idx % 3 == 1) throw std::runtime_error("task " + std::to_string(idx)); return 100 + idx; });
            }
        };
        if (c.submitters == 1) submit_range(0);
        else {
            std::vector<std::thread> st;
            for (int s = 0; s < c.submitters; ++s) st.emplace_back([&, s] { submit_range(s); });
            for (auto& t : st) t.join();
        }
        if (!c.destroy_early) {
            for (int k = 0; k < static_cast<int>(futs.size()); ++k) {
                int idx = c.reverse_get ? static_cast<int>(futs.size()) - 1 - k : k;
                try {
                    int v = futs[idx].get();
                    if (idx % 3 == 1) vsched::fail("pool/exception-lost", "task " + std::to_string(idx) + " threw but its future delivered " + std::to_string(v));
                    else if (v != 100 + idx) vsched::fail("pool/wrong-result", "task " + std::to_string(idx) + " -> " + std::to_string(v));
                } catch (const std::runtime_error& e) {
                    if (idx % 3 != 1 || std::string(e.what()) != "task " + std::to_string(idx)) vsched::fail("pool/wrong-exception", e.what());
                }
            }
        }
    }   // ~Pool joins all workers
    for (size_t i = 0; i < ran.size(); ++i) {
        if (*ran[i] != 1) vsched::fail(*ran[i] == 0 ? "pool/task-lost" : "pool/task-ran-twice", "task " + std::to_string(i) + " ran " + std::to_string(ran[i]->load()) + " times (pool destroyed " + (c.destroy_early ? "right after submit" : "after get") + ")");
        out << ran[i]->load();
    }
    if (c.destroy_early) {
        for (size_t idx = 0; idx < futs.size(); ++idx) {
            if (futs[idx].wait_for(std::chrono::seconds(0)) != std::future_status::ready) { vsched::fail("pool/future-not-ready-after-pool-destroyed", "task " + std::to_string(idx)); continue; }
            try { int v = futs[idx].get(); if (idx % 3 == 1 || v != 100 + static_cast<int>(idx)) vsched::fail("pool/wrong-result", "task " + std::to_string(idx)); }
            catch (const std::runtime_error&) { if (idx % 3 != 1) vsched::fail("pool/wrong-exception", "task " + std::to_string(idx)); }
        }
    }
    vsched::observe("ran=" + out.str());
}

}  // namespace

int main(int argc, char** argv) {
    vsched::Main m(argc, argv);
    const bool T = m.thorough();
    std::string part = "all";
    int cap_bound = 99;
    for (size_t i = 0; i + 1 < m.rest().size(); ++i) {
        if (m.rest()[i] == "--part") part = m.rest()[i + 1];
        if (m.rest()[i] == "--max-bound") cap_bound = atoi(m.rest()[i + 1].c_str());     // used when traces are dumped for the Promela layer
    }
    vsched::Options o;
    // ---- queue harness families
    std::vector<QCfg> qs = {
        {"Q1:1prod x3,2 cons,unbounded", 1, 3, 0, {2, 1}, false, 0},
        {"Q2:2prod x2,1 cons,max=1", 2, 2, 1, {4}, false, 0},
        {"Q2:2prod x2,1 cons,max=2", 2, 2, 2, {4}, false, 0},
        {"Q2b:1prod x3,1 cons,max=1", 1, 3, 1, {3}, false, 0},
        {"Q3:prod x3,cons x3,shutdown thread,max=1", 1, 3, 1, {3}, true, 0},
        {"Q3:prod x2,cons x2,shutdown thread,unbounded", 1, 2, 0, {2}, true, 0},
        {"Q4:prod x3,try_pop x3,max=3", 1, 3, 3, {}, false, 3},
        {"Q4:prod x2,try_pop x2 + cons x1,max=1", 1, 2, 1, {1}, false, 1},
        {"Q5:2 cons blocked,shutdown", 0, 0, 0, {1, 1}, true, 0},
        // bounds >= 3: the queue can be "more than half full and not full" (decisions taken from a size() snapshot, seed C19e)
        {"Q6:1prod x3,1 cons,max=3", 1, 3, 3, {3}, false, 0},
        {"Q6:1prod x4,1 cons,max=4", 1, 4, 4, {4}, false, 0},
        // small configurations mirrored by the Promela model (engine/spin/queue.pml, checks/C19/spin.py): all their model paths are replayed here
        {"M1:1 cons blocked,shutdown", 0, 0, 0, {1}, true, 0},
        {"M2:prod x1,cons x1,unbounded", 1, 1, 0, {1}, false, 0},
        {"M3:prod x2,cons x2,max=1", 1, 2, 1, {2}, false, 0},
        {"M4:prod x1,cons x1,shutdown,unbounded", 1, 1, 0, {1}, true, 0},
    };
    std::vector<PCfg> ps = {
        {"P1:1 worker,3 tasks,get in order", 1, 3, 2, 1, false, false},
        {"P1:2 workers,3 tasks,get reversed", 2, 3, 2, 1, true, false},
        {"P2:2 workers,3 tasks,bound 2,destroyed right after submit", 2, 3, 2, 1, false, true},
        {"P2:1 worker,3 tasks,bound 2,destroyed right after submit", 1, 3, 2, 1, false, true},
        {"P3:2 workers,2 submitters x2 tasks,bound 2", 2, 2, 2, 2, false, false},
        {"P4:2 workers,the same std::function and functor objects submitted 2x each", 2, 2, 0, 1, false, false, true},
    };
    // Every (configuration, options) pair is registered first; bounds are then iterated smallest first
    // across all of them, so a deadline leaves complete lower bounds everywhere.
    struct Job { std::string name; std::function<void()> body; vsched::Options o; };
    std::vector<Job> jobs;
    auto add = [&](const std::string& name, std::function<void()> body, bool delay, int kmax, int workers = 16) {
        vsched::Options o; o.delay_bounded = delay; o.max_bound = kmax; o.unlock_points = T && !delay; o.workers = workers;
        jobs.push_back({name, std::move(body), o});
    };
    if (part == "all" || part == "queue") for (auto& c : qs) add(c.name, [&c] { queue_body(c); }, false, T ? 3 : 2);
    if (part == "all" || part == "pool") for (auto& c : ps) {
        if (c.submitters > 1) add(c.name, [&c] { pool_body(c); }, true, T ? 3 : 2);
        else add(c.name, [&c] { pool_body(c); }, false, T ? 2 : 1);
    }
    // the same families under delay bounding (deterministic lowest-id-first scheduler + k deviations): deeper k
    if (part == "all" || part == "delay") {
        for (auto& c : qs) add("D:" + c.name, [&c] { queue_body(c); }, true, T ? 4 : 3);
        for (auto& c : ps) add("D:" + c.name, [&c] { pool_body(c); }, true, T ? 3 : 2);
    }
    // configuration sweep: pool sizes 1..32, 1..8 producers/consumers, under delay bounding
    std::vector<PCfg> sp; std::vector<QCfg> sq;
    if (part == "all" || part == "sweep") {
        for (int w : {1, 2, 3, 4, 8, 16, 32}) for (int tasks : {1, 5})
            sp.push_back(PCfg{"S:pool workers=" + std::to_string(w) + " tasks=" + std::to_string(tasks), w, tasks, 0, 1, false, tasks == 5});
        for (int n : {1, 2, 4, 8}) for (int mx : {0, 1, 3})
            sq.push_back(QCfg{"S:queue prod=" + std::to_string(n) + " cons=" + std::to_string(n) + " max=" + std::to_string(mx), n, 2, mx, std::vector<int>(n, 2), false, 0});
        for (auto& c : sp) add(c.name, [&c] { pool_body(c); }, true, c.workers <= 8 ? (T ? 2 : 1) : (T ? 1 : 0), 8);
        for (auto& c : sq) add(c.name, [&c] { queue_body(c); }, true, c.producers <= 2 ? (T ? 2 : 1) : (T && c.max_size != 1 ? 1 : 0), 8);
    }
    for (int b = 0; b <= 5; ++b) for (auto& j : jobs) {
        if (b > j.o.max_bound || b > cap_bound) continue;
        vsched::Options o = j.o; o.min_bound = b; o.max_bound = b;
        if (m.replay_mode()) { if (b == 0) m.run(j.name, j.body, j.o); continue; }
        m.run(j.name, j.body, o);
    }
    return m.finish();
}
