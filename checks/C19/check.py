"""C19 - thread-safe queue / thread pool under every schedule with <= k deviations (DESIGN.md 5, C19)."""
import os
LEVEL = "model_checking"
RULE = ("stateless exploration of the real Queue<int>/Pool code under the vsched cooperative scheduler: every interleaving at mutex "
        "lock (thorough: and unlock), atomic-flag hook, thread create points, every waiter choice of notify_one and every "
        "timeout/no-timeout answer of the timed wait, with at most k deviations (preemptions or charged timeouts), k iterated "
        "0,1,2(,3). evaluations = complete schedules executed; distinct_nontrivial = schedules that deviate from the default "
        "schedule in at least one choice (distinct by choice sequence); states = distinct scheduler-state hashes seen at decision "
        "points; transitions = scheduling decisions executed; every explored trace is an execution of the implementation.")
DEADLINE = {"quick": 200, "thorough": 1500}


def build(ctx):
    vs = ctx.vsched_obj()
    return {"h19": ctx.build("h19", ["h19.cpp"], flags=["-fno-access-control"], opt="-O1", objects=[vs]),
            "h19tsan": ctx.build_tsan_free("h19tsan", ["h19.cpp"], flags=["-fno-access-control"])}


def run(ctx):
    exes = build(ctx)
    if getattr(ctx, "build_only", False):
        return
    # free-running ThreadSanitizer companion first (short): guards the 'sync points are sufficient' assumption
    ctx.run_harness(exes["h19tsan"], ["--iterations", "30" if ctx.tier == "quick" else "300"],
                    env={"TSAN_OPTIONS": "halt_on_error=0:exitcode=66:suppressions=" + os.path.join(os.path.dirname(os.path.dirname(ctx.checkdir)), "engine", "vsched", "tsan.supp")}, timeout=120)
    ctx.run_harness(exes["h19"], [])
    ctx.assume("the scheduler is sequentially consistent; no spurious condition-variable wake-ups are generated; "
               "a size of max_size + producers - 1 is allowed (check-then-act window of push())")
