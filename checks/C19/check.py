"""C19 - thread-safe queue / thread pool under every schedule with <= k deviations (DESIGN.md 5, C19)."""
import os
VERIF = os.path.dirname(os.path.dirname(os.path.dirname(os.path.abspath(__file__))))
LEVEL = "model_checking"
RULE = ("stateless exploration of the real Queue<int>/Pool code under the vsched cooperative scheduler: every interleaving at mutex "
        "lock (thorough: and unlock), atomic-flag hook, thread create points, every waiter choice of notify_one and every "
        "timeout/no-timeout answer of the timed wait, with at most k deviations (preemptions or charged timeouts), k iterated "
        "0,1,2(,3). evaluations = complete schedules executed; distinct_nontrivial = schedules that deviate from the default "
        "schedule in at least one choice (distinct by choice sequence); states = distinct scheduler-state hashes seen at decision "
        "points; transitions = scheduling decisions executed; every explored trace is an execution of the implementation. "
        "Promela layer (engine/spin/queue.pml, one atomic step per scheduler step): Spin explores ALL interleavings (no deviation bound) "
        "of the queue drivers and of larger ones (2-3 producers, 2 consumers, try_pop and shutdown threads, bounds 0/1/2) with the same "
        "oracle as assertions and deadlock as invalid end state; the model is bound to the code in both directions: every schedule the "
        "explorer executed on the real Queue at deviation bound <= 1 (thorough: <= 2) must be accepted by the model with the same "
        "outcome (spin_impl_traces_accepted_by_model), and every complete path of the model for small configurations is executed on "
        "the real Queue with the scheduler following the path step by step (spin_model_paths_replayed_on_impl). A conformance failure "
        "alone is not a verdict (the code may have been restructured harmlessly): it is recorded as spin_model_bound_to_this_tree=false "
        "and the layer's results are not used; an oracle failure of the real Queue on a scripted model path is a violation.")
DEADLINE = {"quick": 200, "thorough": 1500}


def build(ctx):
    vs = ctx.vsched_obj()
    # atomic_points.hpp: every std::atomic written in the library (or added to it by a change) is a scheduling point, hooked or not
    return {"h19": ctx.build("h19", ["h19.cpp"], flags=["-fno-access-control", "-include", os.path.join(VERIF, "engine", "vsched", "atomic_points.hpp")], opt="-O1", objects=[vs]),
            "h19tsan": ctx.build_tsan_free("h19tsan", ["h19.cpp"], flags=["-fno-access-control"])}


def run(ctx):
    exes = build(ctx)
    if getattr(ctx, "build_only", False):
        return
    # free-running ThreadSanitizer companion first (short): guards the 'sync points are sufficient' assumption
    ctx.run_harness(exes["h19tsan"], ["--iterations", "30" if ctx.tier == "quick" else "300", "--deadline", "40" if ctx.tier == "quick" else "300"],
                    env={"TSAN_OPTIONS": "halt_on_error=0:exitcode=66:suppressions=" + os.path.join(os.path.dirname(os.path.dirname(ctx.checkdir)), "engine", "vsched", "tsan.supp")}, timeout=120)
    spin_layer(ctx, exes["h19"])          # Promela layer first (bounded share of the deadline), then the deep exploration takes the rest
    ctx.run_harness(exes["h19"], [])
    ctx.assume("the scheduler is sequentially consistent; no spurious condition-variable wake-ups are generated; "
               "a size of max_size + producers - 1 is allowed (check-then-act window of push())")


def spin_layer(ctx, h19):
    """Promela model of Queue: unbounded safety search + two-way conformance with the implementation (see spin.py)."""
    import collections
    import subprocess
    import sys
    import time
    sys.path.insert(0, ctx.checkdir)
    import spin
    thorough = ctx.tier == "thorough"
    verif = os.path.dirname(os.path.dirname(ctx.checkdir))
    work = os.path.join(verif, "build", "C19-spin-%d" % os.getpid())
    os.makedirs(work, exist_ok=True)
    try:
        # 1. safety: all interleavings of every model configuration (configurations in parallel, one pan each)
        from concurrent.futures import ThreadPoolExecutor
        budget_end = time.time() + ctx.remaining() * (0.5 if thorough else 0.45)
        left = lambda: max(0.0, budget_end - time.time())
        states = trans = 0
        scfgs = spin.H19 + spin.SMALL[:4] + (spin.BIG if thorough else spin.BIG[:4])      # quick: configurations with <= 2 producers
        with ThreadPoolExecutor(max_workers=8) as ex:
            res = list(ex.map(lambda ic: spin.safety(os.path.join(work, "safety%d" % ic[0]), ic[1], max(20, min(300, left()))), enumerate(scfgs)))
        for cfg, st in zip(scfgs, res):
            states += st["states"]; trans += st["transitions"]
            ctx.bound("spin safety (all interleavings, no deviation bound): " + cfg.name, st["complete"])
            if st["errors"] > 0:
                ctx.violation("spin-model/safety-violated/" + cfg.name.split(":")[0],
                              "the Promela model of Queue violates its oracle or deadlocks in configuration %s (model-level counterexample, "
                              "not yet reproduced on the implementation): %s" % (cfg.name, st.get("trail", "")[-1500:]), harness=None, spec="")
        ctx.add("spin_model_states", states)
        ctx.add("spin_model_transitions", trans)
        # 2. implementation -> model: every executed schedule (bound <= K) must be a model behaviour with the same outcome
        k = 2 if thorough else 1
        dump = os.path.join(work, "traces.txt")
        subprocess.run([h19, "--tier", "quick", "--deadline", str(int(max(10, left()))), "--part", "queue", "--max-bound", str(k),
                        "--dump-traces", dump], stdout=subprocess.DEVNULL, stderr=subprocess.DEVNULL, timeout=ctx.remaining() + 60)
        by = collections.defaultdict(set)
        for line in open(dump):
            f = line.rstrip("\n").split("\t")
            if len(f) == 3:
                by[f[0]].add((f[1], f[2]))
        cfgs = {c.name: c for c in spin.H19 + spin.SMALL}
        diverged = []
        acc_total = tr_total = 0
        names = [n for n in sorted(by) if n in cfgs]
        with ThreadPoolExecutor(max_workers=8) as ex:
            res = list(ex.map(lambda iname: spin.impl_accepts(os.path.join(work, "i2m%d" % iname[0]), cfgs[iname[1]], sorted(by[iname[1]]), max(20, min(600, left()))), enumerate(names)))
        for name, (acc, mis, st) in zip(names, res):
            tr = by[name]
            acc_total += acc; tr_total += len(tr)
            ctx.bound("impl->model: all %d schedules of '%s' with <= %d deviations accepted by the model" % (len(tr), name, k), st["complete"])
            if st["complete"] and acc != len(tr):
                # Not a property verdict: the implementation's step structure or behaviour differs from the modelled one. That can be a
                # defect (then the explorer's own oracle reports it on the real executions) or a harmless restructuring of the code; in
                # both cases the model no longer describes this tree, so the results of the Promela layer are not used for it.
                diverged.append("%d of %d implementation schedules of '%s' are not behaviours of the Promela model" % (len(tr) - acc, len(tr), name))
                ctx.bound("impl->model: the model describes the implementation ('%s')" % name, False)
        ctx.add("spin_impl_traces_accepted_by_model", acc_total)
        ctx.add("spin_impl_traces_checked", tr_total)
        # 3. model -> implementation: every complete model path of the small configurations runs on the real code
        small = spin.SMALL if thorough else spin.SMALL[:2]
        ok_total = path_total = 0
        for cfg in small:
            if left() < 15:
                ctx.bound("model->impl replay: " + cfg.name, False)
                continue
            st, paths = spin.model_paths(os.path.join(work, "m2i"), cfg, 1, max(20, min(600, left())))
            n = 16
            procs = []
            for i in range(n):
                fn = os.path.join(work, "m2i", "s%d.txt" % i)
                with open(fn, "w") as fh:
                    fh.write("".join("%s\t%s\n" % (cfg.name, p) for p in paths[i::n]))
                procs.append(subprocess.Popen([h19, "--tier", "quick", "--part", "queue", "--script", fn], stdout=subprocess.PIPE, stderr=subprocess.DEVNULL, text=True))
            ok = bad = 0
            fails = []
            for p in procs:
                out = p.communicate()[0]
                for line in out.splitlines():
                    f = line.split("\t")
                    if f[0] == "SCRIPTS" and f[1] == cfg.name:
                        ok += int(f[2]); bad += int(f[3])
                    elif f[0] == "VIOL" or (f[0] == "SCRIPT" and len(f) > 3 and not f[3].startswith("OK")):
                        fails.append(line[:500])
            ok_total += ok; path_total += len(paths)
            ctx.bound("model->impl: all %d complete model paths of '%s' (<= 1 timeout step) replayed on the real Queue" % (len(paths), cfg.name), st["complete"] and ok + bad == len(paths))
            oracle_fails = [f for f in fails if "FAIL oracle:" in f]
            if oracle_fails:
                # a model path, executed step by step on the REAL Queue, ended in an oracle failure: a genuine execution of the implementation
                ctx.violation("spin-model/oracle-violated-on-model-path/" + cfg.name.split(":")[0],
                              "the real Queue, scheduled along a complete path of the Promela model of %s, violated the C19 oracle: %s" % (cfg.name, oracle_fails[0][:600]), harness=None, spec="")
            elif bad or ok != len(paths):
                diverged.append("%d of %d model paths of '%s' could not be followed by the real Queue or ended in a different outcome (%s)" % (len(paths) - ok, len(paths), cfg.name, (fails[0][:200] if fails else "")))
                ctx.bound("model->impl: the implementation follows the model ('%s')" % cfg.name, False)
        ctx.add("spin_model_paths_replayed_on_impl", ok_total)
        ctx.add("spin_model_paths_total", path_total)
        ctx.extra["spin_model_bound_to_this_tree"] = not diverged
        if diverged:
            ctx.extra["spin_model_divergence"] = diverged[:8]
            ctx.notes.append("Promela layer: the model does not describe this tree (%s); its results are not used, the verdict rests on the schedule exploration of the real code" % "; ".join(diverged[:3]))
        if ctx.tier == "quick" or ok_total:
            ctx.sample("spin: %d model states over %d configurations (all interleavings); %d/%d implementation schedules accepted by the model; %d/%d model paths replayed on the real Queue" % (states, len(spin.H19) + 4 + len(spin.BIG), acc_total, tr_total, ok_total, path_total))
    finally:
        import shutil
        shutil.rmtree(work, ignore_errors=True)


def replay(ctx, rec):
    """Schedules are replayed by the harness itself; a violation of the Promela layer is replayed by running that layer again."""
    import sys
    sys.path.insert(0, os.path.dirname(os.path.dirname(ctx.checkdir)) + "/engine/driver")
    import vlib
    if not str(rec.get("key", "")).startswith("spin-model/"):
        import types
        return vlib.default_replay(types.SimpleNamespace(build=build), ctx, rec)
    exes = build(ctx)
    spin_layer(ctx, exes["h19"])
    return [(v["key"], v["detail"]) for v in ctx.violations]
