"""C19 - thread-safe queue / thread pool under every schedule with <= k deviations (DESIGN.md 5, C19)."""
LEVEL = "model_checking"
RULE = ("stateless exploration of the real Queue<int>/Pool code under the vsched cooperative scheduler: every interleaving at mutex "
        "lock (thorough: and unlock), atomic-flag hook, thread create points, every waiter choice of notify_one and every "
        "timeout/no-timeout answer of the timed wait, with at most k deviations (preemptions or charged timeouts), k iterated "
        "0,1,2(,3). evaluations = complete schedules executed; distinct_nontrivial = schedules that deviate from the default "
        "schedule in at least one choice (distinct by choice sequence); states = distinct scheduler-state hashes seen at decision "
        "points; transitions = scheduling decisions executed; every explored trace is an execution of the implementation.")
DEADLINE = {"quick": 200, "thorough": 1500}


def build(ctx):
    vs = ctx.vsched_obj()
    return {"h19": ctx.build("h19", ["h19.cpp"], flags=["-fno-access-control"], opt="-O1", objects=[vs])}


def run(ctx):
    exe = build(ctx)["h19"]
    if getattr(ctx, "build_only", False):
        return
    ctx.run_harness(exe, [])
    ctx.assume("the scheduler is sequentially consistent; no spurious condition-variable wake-ups are generated; "
               "a size of max_size + producers - 1 is allowed (check-then-act window of push())")
