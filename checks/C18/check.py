"""C18 - Web-Mercator projection and tile numbers (DESIGN.md section 5, C18)."""
LEVEL = "exploration"
RULE = ("finite-domain enumeration over fixed-point coordinates (1e-7 degree), one axis at a time, every case distinct by construction: "
        "(lat) latitudes at a fixed longitude, (lon) longitudes at a fixed latitude, (grid) every row and column of a boundary/half-degree grid. "
        "quick = all values within +-10000 steps of each special value (+-90, +-85.0511288, +-78, 0 / +-180, +-90, 0) + every 37th latitude / 97th longitude; "
        "thorough = additionally every one of the 1800000001 fixed-point latitudes in contiguous shards overlapping by one value (all consecutive pairs), "
        "and for longitudes +-10^6 consecutive values around each special value + every 11th value. One evaluation = one location "
        "pushed through lonlat_to_mercator, MercatorProjection, mercator_to_lonlat, lat_to_y_with_tan and Tile(zoom, Location) + Tile(zoom, Coordinates) "
        "for every zoom 0..30, with the point oracles and the pair oracles against its predecessor. Non-trivial = a latitude on the fast-formula path "
        "(two different formulas are compared) or a point whose zoom-30 tile differs from its predecessor's (a tile boundary was crossed, so "
        "monotonicity had something to decide).")
DEADLINE = {"quick": 200, "thorough": 1500}


def build(ctx):
    return {"h18": ctx.build("h18", ["h18.cpp"], opt="-O2")}


def run(ctx):
    exe = build(ctx)["h18"]
    if getattr(ctx, "build_only", False):
        return
    for part in ("grid", "lat", "lon"):
        ctx.run_harness(exe, ["--part", part], shards=16)
    ctx.assume("the canonical formula is the library's own lat_to_y_with_tan(); where the fast formula returns the same bits the distance is 0 "
               "(this includes -infinity at latitude -90, which the property leaves open and which is only counted)")
    ctx.assume("'accurate' anchor: inside the Web-Mercator square projected coordinates are within 1 cm of spherical Mercator (R = 6378137 m) "
               "computed in long double, and the tile contains the point to within 1.31 cm (1 cm granted to the projection + 2.8 mm between "
               "20037508.34 and R*pi); outside the square only range, monotonicity and finer-inside-coarser are demanded")
